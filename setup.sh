#!/bin/sh
# offline setup: parse every specification with SANY and byte-compile the harness
cd "$(dirname "$0")"
/venv/bin/python -m compileall -q harness check >/dev/null || exit 1
cd specs
# (specs/stubs holds parse-only stand-ins for data modules that a driver generates per run)
ls *.tla | xargs -P 8 -I{} sh -c 'out=$(java -DTLA-Library="$PWD/stubs" -cp /opt/veriftools/tla/tla2tools.jar:/opt/veriftools/tla/CommunityModules-deps.jar tla2sany.SANY "{}" 2>&1); if echo "$out" | grep -qE "Parse Error|Semantic errors|Fatal errors|\*\*\* Errors|Could not|Cannot find"; then echo "SANY FAILED: {}"; echo "$out" | tail -20; exit 255; fi'
rc=$?
[ $rc -eq 0 ] && echo "setup ok" && exit 0
exit 1
