#!/bin/sh
# offline setup: parse every specification with SANY and byte-compile the harness
set -e
cd "$(dirname "$0")"
/venv/bin/python -m compileall -q harness check >/dev/null
fail=0
for f in specs/*.tla; do
  out=$(cd specs && java -cp /opt/veriftools/tla/tla2tools.jar:/opt/veriftools/tla/CommunityModules-deps.jar tla2sany.SANY "$(basename "$f")" 2>&1) || true
  if echo "$out" | grep -qE "Parse Error|Semantic errors|Fatal errors|\*\*\* Errors|Could not"; then echo "SANY FAILED: $f"; echo "$out" | tail -20; fail=1; fi
done
[ $fail -eq 0 ] && echo "setup ok"
exit $fail
