"""C03 - real overlays of every shipped class on a real UDPEndpoint whose transport is a recorder.

Datagrams enter through UDPEndpoint.datagram_received (the asyncio protocol callback, i.e. the production
receive path); nothing in /repo is patched at source level: listener on_packet methods and the entries of
decode_map / decode_map_private are wrapped *on the instances* to see which listener was called, which
handler was entered and whether an exception left the listener.
"""
from __future__ import annotations

import os
import random
import struct
import traceback
from asyncio import events

PLAIN_ID = bytes(range(1, 21))
SRC = ("10.1.2.3", 4000)
HEAD = 64


def in_loop(loop, fn, *a, **k):
    """Call fn as if from a callback of the running loop (ensure_future / get_running_loop work)."""
    events._set_running_loop(loop)
    try:
        return fn(*a, **k)
    finally:
        events._set_running_loop(None)


class FakeSock:
    def __init__(self, port):
        self.port = port

    def getsockname(self):
        return ("127.0.0.1", self.port)


class FakeTransport:
    """What asyncio would hand to UDPEndpoint.open(): records instead of sending."""

    def __init__(self, world, port):
        self.world = world
        self.sock = FakeSock(port)
        self.sent = []

    def sendto(self, data, addr=None):
        self.sent.append((addr, bytes(data)))
        self.world.obs.sent()

    def is_closing(self):
        return False

    def close(self):
        pass

    def get_extra_info(self, name, default=None):
        return self.sock if name == "socket" else default


class ExitTransport(FakeTransport):
    """The UDP socket of a TunnelExitSocket (what create_datagram_endpoint hands to TunnelProtocol.open)."""

    def __init__(self, world, port, protocol):
        super().__init__(world, port)
        self.protocol = protocol
        self.closed = False

    def sendto(self, data, addr=None):
        self.sent.append((addr, bytes(data)))

    def close(self):
        self.closed = True

    def is_closing(self):
        return self.closed


class Obs:
    """Per delivery: one record per outermost listener.on_packet call."""

    def __init__(self):
        self.log = []
        self.cur = None
        self.depth = 0
        self.hdepth = 0

    def begin(self):
        self.log, self.cur, self.depth, self.hdepth = [], None, 0, 0

    def enter(self, lid):
        if self.depth == 0:
            self.cur = {"l": lid, "h": [], "rel": 0, "raised": False}
            self.log.append(self.cur)
        self.depth += 1

    def leave(self, exc=None):
        self.depth -= 1
        if self.depth == 0:
            if exc is not None and self.cur is not None:
                self.cur["raised"] = True
                self.cur["x"] = site_of(exc)
            self.cur = None

    def handler(self, kind, mid):
        if self.cur is not None:
            self.cur["h"].append([kind, mid])

    def sent(self):
        if self.cur is not None and self.hdepth == 0:
            self.cur["rel"] = 1


def site_of(exc):
    tb = traceback.extract_tb(exc.__traceback__)
    frames = [f for f in tb if "/ipv8/" in f.filename] or list(tb)
    f = frames[-1]
    return "%s@%s:%s" % (type(exc).__name__, os.path.basename(f.filename), f.name)


def build_classes():
    """Imports after setup_repo_path(); returns the namespace of harness-side classes."""
    from ipv8.community import Community
    from ipv8.messaging.interfaces.endpoint import EndpointListener
    from ipv8.messaging.interfaces.udp.endpoint import UDPEndpoint

    class RecUDP(UDPEndpoint):
        """The production UDPEndpoint; only the three table operations additionally log what they were asked."""

        world = None

        def add_listener(self, listener):
            super().add_listener(listener)
            self.world.table_event("add", listener)

        def add_prefix_listener(self, listener, prefix):
            super().add_prefix_listener(listener, prefix)
            self.world.table_event("addp", listener, prefix)

        def remove_listener(self, listener):
            super().remove_listener(listener)
            self.world.table_event("rem", listener)

    class Sink(EndpointListener):
        def __init__(self, endpoint):
            super().__init__(endpoint)
            self.got = 0

        def on_packet(self, packet):
            self.got += 1

    class PlainCommunity(Community):
        """A minimal user overlay: three handlers (plain, raising, raising coroutine)."""

        community_id = PLAIN_ID

        def __init__(self, settings):
            super().__init__(settings)
            self.seen = 0
            self.add_message_handler(1, self.on_one)
            self.add_message_handler(2, self.on_two)
            self.add_message_handler(3, self.on_three)

        def on_one(self, addr, data):
            self.seen += 1

        def on_two(self, addr, data):
            raise ValueError("handler failure must stay inside on_packet")

        async def on_three(self, addr, data):
            raise ValueError("coroutine handler failure must stay inside the task")

    class PlainTwin(PlainCommunity):
        """Shares PlainCommunity's prefix (Community.get_prefix documents that a prefix may be shared)."""

    return {"RecUDP": RecUDP, "Sink": Sink, "PlainCommunity": PlainCommunity, "PlainTwin": PlainTwin}


OVERLAYS = ["PlainCommunity", "PlainTwin", "DiscoveryCommunity", "DHTCommunity", "DHTDiscoveryCommunity",
            "TunnelCommunity", "HiddenTunnelCommunity", "PexCommunity", "IdentityCommunity", "AttestationCommunity"]


class World:
    """One endpoint chain with overlays, sinks and (optionally) statistics; records a trace for ReceiveTrace.tla."""

    def __init__(self, loop, ns, chain, overlays, seed, port=8090, sinks=True, traced=True):
        from ipv8.keyvault.crypto import default_eccrypto
        from ipv8.messaging.anonymization.endpoint import TunnelEndpoint
        from ipv8.messaging.interfaces.dispatcher.endpoint import DispatcherEndpoint
        from ipv8.messaging.interfaces.statistics_endpoint import StatisticsEndpoint
        from ipv8.peer import Peer
        from ipv8.peerdiscovery.network import Network
        self.loop, self.ns, self.chain, self.traced = loop, ns, chain, traced
        self.rng = random.Random(seed)
        self.obs = Obs()
        self.objs = []          # listener id - 1 -> object
        self.events = []
        self.addr = ("127.0.0.1", port)
        self.udp = ns["RecUDP"]()
        self.udp.world = self
        self.transport = FakeTransport(self, port)
        self.udp._transport = self.transport
        self.udp._running = True
        top = self.udp
        self.stats = None
        # chains: udp | stats | tunnel | tstats | disp | tdisp   (t = TunnelEndpoint on top, as ipv8_service wires it)
        if chain in ("disp", "tdisp"):
            d = DispatcherEndpoint([])
            d.interfaces = {"UDPIPv4": self.udp}
            d.interface_order = ["UDPIPv4"]
            d._preferred_interface = self.udp
            top = d
        if chain in ("stats", "tstats"):
            # StatisticsEndpoint forwards add_*listener / remove_listener / notify_listeners to the wrapped endpoint:
            # every table operation arrives at (and is logged by) the UDP endpoint like in the other chains
            top = self.stats = StatisticsEndpoint(top)
        if chain in ("tunnel", "tstats", "tdisp"):
            top = TunnelEndpoint(top)
        self.top = top
        self.network = Network()
        self.overlays = []
        self.tunnel = None
        self.last_tables = None
        key = default_eccrypto.generate_key("curve25519")
        self.key = key
        for name in overlays:
            ov = loop.run_until_complete(self._make(name, Peer(key, self.addr)))
            ov.my_estimated_wan = self.addr
            ov.my_estimated_lan = self.addr
            self.overlays.append(ov)
            if hasattr(ov, "crypto_endpoint"):
                self.tunnel = ov
        if self.stats is not None:
            for ov in self.overlays[::2]:
                self.stats.enable_community_statistics(ov.get_prefix(), True)
        self.sinks = []
        if sinks:
            s = ns["Sink"](top)
            top.add_listener(s)
            self.sinks.append(s)
            if self.overlays:
                s2 = ns["Sink"](top)
                top.add_prefix_listener(s2, self.overlays[0].get_prefix())
                self.sinks.append(s2)
        self._wrap_all()
        loop.settle()

    # ------------------------------------------------------------------ construction
    async def _make(self, name, peer):
        from ipv8.community import CommunitySettings
        kw = {"my_peer": peer, "endpoint": self.top, "network": self.network}
        peer_flags = None
        name, _, opt = name.partition("+")
        if opt == "anon":
            kw["anonymize"] = True
        if opt in ("xbt", "xipv8", "xall"):
            # supported non-default settings: the node offers to be an exit for BitTorrent and / or IPv8 traffic
            from ipv8.messaging.anonymization.tunnel import (PEER_FLAG_EXIT_BT, PEER_FLAG_EXIT_IPV8, PEER_FLAG_RELAY,
                                                             PEER_FLAG_SPEED_TEST)
            peer_flags = ({PEER_FLAG_RELAY, PEER_FLAG_SPEED_TEST}
                          | ({PEER_FLAG_EXIT_BT} if opt in ("xbt", "xall") else set())
                          | ({PEER_FLAG_EXIT_IPV8} if opt in ("xipv8", "xall") else set()))
        if name in self.ns:
            return self.ns[name](CommunitySettings(**kw))
        if name == "DiscoveryCommunity":
            from ipv8.peerdiscovery.community import DiscoveryCommunity as C
        elif name == "DHTCommunity":
            from ipv8.dht.community import DHTCommunity as C
        elif name == "DHTDiscoveryCommunity":
            from ipv8.dht.discovery import DHTDiscoveryCommunity as C
        elif name == "TunnelCommunity":
            from ipv8.messaging.anonymization.community import TunnelCommunity as C
        elif name == "HiddenTunnelCommunity":
            from ipv8.messaging.anonymization.hidden_services import HiddenTunnelCommunity as C
        elif name == "PexCommunity":
            from ipv8.messaging.anonymization.pex import PexCommunity as C
            kw["info_hash"] = bytes(range(40, 60))
        elif name == "IdentityCommunity":
            from ipv8.attestation.identity.community import IdentityCommunity as C
            kw["working_directory"] = ":memory:"
        elif name == "AttestationCommunity":
            from ipv8.attestation.wallet.community import AttestationCommunity as C
            kw["working_directory"] = ":memory:"
        else:
            raise ValueError(name)
        settings = C.settings_class(**kw)
        if peer_flags is not None:
            settings.peer_flags = peer_flags       # (a property: set like an application does, after construction)
        return C(settings)

    def lid(self, obj):
        for i, o in enumerate(self.objs):
            if o is obj:
                return i + 1
        self.objs.append(obj)
        return len(self.objs)

    def table_event(self, op, listener, prefix=None):
        ev = {"op": op, "l": self.lid(listener),
              "glob": [self.lid(x) for x in self.udp._listeners],
              "pmap": [{"p": list(p), "ls": [self.lid(x) for x in ls]} for p, ls in self.udp._prefix_map.items()]}
        if prefix is not None:
            ev["p"] = list(prefix)
        self.events.append(ev)

    def _wrap_all(self):
        from ipv8.messaging.interfaces.statistics_endpoint import StatisticsEndpoint
        for obj in list(self.objs):
            self._wrap_listener(obj, isinstance(obj, StatisticsEndpoint))
        for ov in self.overlays:
            self.lid(ov)
            for i, h in enumerate(ov.decode_map):
                if h is not None:
                    ov.decode_map[i] = self._wrap_handler("h", i, h)
            priv = getattr(ov, "decode_map_private", None)
            if priv is not None:
                for i, h in list(priv.items()):
                    priv[i] = self._wrap_handler("c", i, h)

    def _wrap_listener(self, obj, is_stats):
        obs, lid, orig = self.obs, self.lid(obj), obj.on_packet

        def counts():
            return {(p, i): st.num_down for p, d in obj.statistics.items() for i, st in d.items()}

        def on_packet(packet, *a, **k):
            obs.enter(lid)
            before = counts() if is_stats else None
            exc = None
            try:
                return orig(packet, *a, **k)
            except BaseException as e:  # noqa: BLE001
                exc = e
                raise
            finally:
                if is_stats:
                    after = counts()
                    for key, n in after.items():
                        for _ in range(n - before.get(key, 0)):
                            obs.handler("s", key[1])
                obs.leave(exc)
        obj.on_packet = on_packet

    def _wrap_handler(self, kind, mid, orig):
        obs = self.obs

        def handler(*a, **k):
            obs.handler(kind, mid)
            obs.hdepth += 1
            try:
                return orig(*a, **k)
            finally:
                obs.hdepth -= 1
        return handler

    def describe(self):
        from ipv8.community import Community
        from ipv8.messaging.anonymization.crypto import PythonCryptoEndpoint
        from ipv8.messaging.interfaces.statistics_endpoint import StatisticsEndpoint
        out = []
        for obj in self.objs:
            d = {"kind": "sink", "prefix": [], "handlers": [], "priv": [], "comm": 0, "anon": False, "tracked": [],
                 "xbt": False, "xipv8": False}
            if isinstance(obj, Community):
                d["kind"] = "community"
                d["prefix"] = list(obj.get_prefix())
                d["handlers"] = [i for i, h in enumerate(obj.decode_map) if h is not None]
                d["priv"] = sorted(getattr(obj, "decode_map_private", {}))
                d["anon"] = bool(getattr(obj, "anonymize", False))
                if hasattr(obj, "crypto_endpoint"):
                    from ipv8.messaging.anonymization.tunnel import PEER_FLAG_EXIT_BT, PEER_FLAG_EXIT_IPV8
                    d["xbt"] = PEER_FLAG_EXIT_BT in obj.settings.peer_flags
                    d["xipv8"] = PEER_FLAG_EXIT_IPV8 in obj.settings.peer_flags
            elif isinstance(obj, PythonCryptoEndpoint):
                d["kind"] = "crypto"
                d["prefix"] = list(obj.prefix)
                d["comm"] = self.lid(obj.tunnel_community)
            elif isinstance(obj, StatisticsEndpoint):
                d["kind"] = "stats"
                d["tracked"] = [list(p) for p in obj.statistics]
            out.append(d)
        return out

    def trace(self):
        return {"chain": self.chain, "overlays": [type(o).__name__ for o in self.overlays],
                "desc": self.describe(), "events": self.events}

    # ------------------------------------------------------------------ tunnel state owned by the harness
    def tables(self):
        from ipv8.messaging.anonymization.tunnel import FORWARD
        ce = self.tunnel.crypto_endpoint

        def cid(c):
            return list(struct.pack("!I", c & 0xffffffff))
        # an entry is stale when do_remove would call it inactive
        horizon = self.loop.time() - self.tunnel.settings.max_time_inactive
        stale = [[k, cid(c)] for k, tab in (("c", ce.circuits), ("x", ce.exit_sockets), ("r", ce.relays))
                 for c, o in tab.items() if o.last_activity < horizon]
        return {"op": "tables", "circuits": [cid(c) for c in ce.circuits], "exits": [cid(c) for c in ce.exit_sockets],
                "relays": [{"cid": cid(c), "dir": "fwd" if (r.direction == FORWARD or r.rendezvous_relay) else "bwd",
                            "count": r.relay_early_count, "to": cid(r.circuit_id), "rdv": bool(r.rendezvous_relay)}
                           for c, r in ce.relays.items()],
                "stale": stale,
                "xon": [cid(c) for c, x in ce.exit_sockets.items() if x.enabled and x.transport_ipv4 is not None]}

    def sync_tables(self, force=False):
        if self.tunnel is None:
            return
        t = self.tables()
        key = self._tables_key(t)
        if force or key != self.last_tables:
            self.last_tables = key
            self.events.append(t)

    @staticmethod
    def _tables_key(t):
        return (tuple(map(tuple, t["circuits"])), tuple(map(tuple, t["exits"])),
                tuple((tuple(r["cid"]), r["dir"], tuple(r["to"]), r["rdv"]) for r in t["relays"]),
                tuple(map(tuple, t["xon"])))

    def install_tunnel_state(self, op="tables"):
        """A 1-hop and a 2-hop circuit, an exit socket (enabled: with its UDP sockets), a relay pair and a
        rendezvous link with real session keys (the far ends' copies of the keys stay with the harness, which
        plays the remote peers)."""
        from ipv8.keyvault.crypto import default_eccrypto
        from ipv8.messaging.anonymization.exit_socket import TunnelExitSocket
        from ipv8.messaging.anonymization.tunnel import BACKWARD, FORWARD, Circuit, Hop, RelayRoute
        from ipv8.peer import Peer
        t = self.tunnel
        ce = t.crypto_endpoint
        self.far = {}

        def keys():
            secret = bytes(self.rng.getrandbits(8) for _ in range(32))
            return t.crypto.generate_session_keys(secret), t.crypto.generate_session_keys(secret)
        peer = Peer(default_eccrypto.generate_key("curve25519").pub(), ("10.9.0.1", 1000))
        peer2 = Peer(default_eccrypto.generate_key("curve25519").pub(), ("10.9.0.2", 1000))

        def build():
            k1, f1 = keys()
            c1 = Circuit(0x01020304, 1)
            c1.add_hop(Hop(peer, k1))
            ce.circuits[c1.circuit_id] = c1
            self.far["circuit"] = (c1.circuit_id, [f1], BACKWARD)
            ka, fa = keys()
            kb, fb = keys()
            c2 = Circuit(0x0a0b0c0d, 2)
            c2.add_hop(Hop(peer, ka))
            c2.add_hop(Hop(peer2, kb))
            ce.circuits[c2.circuit_id] = c2
            self.far["circuit2"] = (c2.circuit_id, [fb, fa], BACKWARD)      # exit wraps first, first hop last
            ke, fe = keys()
            ce.exit_sockets[0x11121314] = TunnelExitSocket(0x11121314, Hop(peer, ke), t)
            self.far["exit"] = (0x11121314, [fe], FORWARD)
            kr, fr = keys()
            kq, _fq = keys()
            ce.relays[0x21222324] = RelayRoute(0x31323334, Hop(peer2, kr), FORWARD)
            ce.relays[0x31323334] = RelayRoute(0x21222324, Hop(peer, kq), BACKWARD)
            self.far["relay_fwd"] = (0x21222324, [fr], FORWARD)
            self.far["relay_bwd"] = (0x31323334, [], BACKWARD)
            # a rendezvous link, exactly what HiddenTunnelCommunity.on_link_e2e installs: each route decrypts with
            # the keys shared with its own side and re-encrypts with the keys of the opposite route
            kx, fx = keys()
            ky, fy = keys()
            ce.relays[0x41424344] = RelayRoute(0x51525354, Hop(peer2, kx), FORWARD, True)
            ce.relays[0x51525354] = RelayRoute(0x41424344, Hop(peer, ky), FORWARD, True)
            self.far["rdv_a"] = (0x41424344, [fx], FORWARD)
            self.far["rdv_b"] = (0x51525354, [fy], FORWARD)
        for x in list(ce.exit_sockets.values()):       # (re-install: the sockets of the previous generation)
            self.loop.run_until_complete(x.close())
        in_loop(self.loop, build)
        self.enable_exits()
        t = self.tables()
        t["op"] = op
        self.last_tables = self._tables_key(t)
        self.events.append(t)

    def enable_exits(self):
        """TunnelExitSocket.enable() with a loop that hands out recording transports: the protocol objects asyncio
        would call datagram_received on are kept per exit socket."""
        self.exit_protocols = {}
        ports = iter(range(20000, 30000))

        async def fake_endpoint(factory, local_addr=None, **_k):
            proto = factory()
            return ExitTransport(self, next(ports), proto), proto
        saved = self.loop.create_datagram_endpoint
        self.loop.create_datagram_endpoint = fake_endpoint
        try:
            for cid, x in self.tunnel.crypto_endpoint.exit_sockets.items():
                in_loop(self.loop, x.enable)
                self.loop.advance(0.01)
                if x.transport_ipv4 is None or x.transport_ipv6 is None:
                    raise RuntimeError("exit socket did not open its sockets")
                self.exit_protocols[cid] = {"v4": x.transport_ipv4.protocol, "v6": x.transport_ipv6.protocol}
        finally:
            self.loop.create_datagram_endpoint = saved

    # ------------------------------------------------------------------ table actions, run on the real node
    ENTRY = {"circuit": ("c", 0x01020304), "circuit2": ("c", 0x0a0b0c0d), "exit": ("x", 0x11121314),
             "relay_fwd": ("r", 0x21222324), "relay_bwd": ("r", 0x31323334),
             "rdv_a": ("r", 0x41424344), "rdv_b": ("r", 0x51525354)}

    def tun_op(self, op, which=None):
        """tick: more than max_time_inactive passes; sweep: the periodic do_circuits callback (ends in do_remove) and
        the removal delay; rmtun: remove_circuit / remove_relay / remove_exit_socket of one entry."""
        t = self.tunnel
        self.sync_tables(force=True)
        extra = {}
        if op == "tick":
            self.loop.advance(t.settings.max_time_inactive + 1)
        elif op == "sweep":
            in_loop(self.loop, t.do_circuits)
            self.loop.advance(t.settings.remove_tunnel_delay + 0.25)
        elif op == "rmtun":
            table, cid = self.ENTRY[which]
            fn = {"c": t.remove_circuit, "r": t.remove_relay, "x": t.remove_exit_socket}[table]
            in_loop(self.loop, fn, cid, "harness", True)
            self.loop.advance(t.settings.remove_tunnel_delay + 0.25)
            extra = {"t": table, "cid": list(struct.pack("!I", cid))}
        else:
            raise ValueError(op)
        ev = self.tables()
        ev["op"] = op
        ev.update(extra)
        self.last_tables = self._tables_key(ev)
        self.events.append(ev)
        return ev

    def present(self, which):
        table, cid = self.ENTRY[which]
        ce = self.tunnel.crypto_endpoint
        return cid in {"c": ce.circuits, "x": ce.exit_sockets, "r": ce.relays}[table]

    def xrecv(self, cid, data, fam="v4"):
        """A datagram from the outside world at the UDP socket of exit socket `cid` (the asyncio protocol callback)."""
        src = {"v4": ("93.184.216.34", 6881), "v6": ("2001:db8::7", 6881, 0, 0),
               "v6mapped": ("::ffff:93.184.216.34", 6881, 0, 0)}[fam]
        proto = self.exit_protocols[cid]["v4" if fam == "v4" else "v6"]
        before = len(self.transport.sent)
        self.obs.begin()
        exc = None
        try:
            in_loop(self.loop, proto.datagram_received, data, src)
        except Exception as e:  # noqa: BLE001
            exc = e
        self.loop.settle()
        ev = {"op": "xrecv", "o": self.lid(self.tunnel), "xc": list(struct.pack("!I", cid)), "fam": fam,
              "len": len(data), "head": list(data[:HEAD]), "lastb": data[-1] if data else 0,
              "raised": exc is not None, "fwd": min(1, len(self.transport.sent) - before)}
        if exc is not None:
            ev["x"] = site_of(exc)
            ev["hex"] = data[:200].hex()
        self.events.append(ev)
        self.sync_tables()
        return ev

    def cell(self, cid, body, plaintext=False, relay_early=False):
        return self.tunnel.get_prefix() + b"\x00" + struct.pack("!I??", cid, plaintext, relay_early) + body

    def sealed(self, which, inner):
        """The bytes a remote peer would put into a cell for `which` so that it decrypts to `inner`."""
        cid, far_keys, direction = self.far[which]
        body = inner
        for k in far_keys:
            body = k.encrypt_str(body, direction)
        return cid, body

    # ------------------------------------------------------------------ feeding
    def recv(self, data, via="udp", ft=False, enc="none", inner=b"", src=SRC, tag=None):
        from ipv8.messaging.interfaces.udp.endpoint import UDPv4Address
        self.obs.begin()
        exc = None
        try:
            if via == "udp":
                in_loop(self.loop, self.udp.datagram_received, data, src)
            else:
                in_loop(self.loop, self.top.notify_listeners, (UDPv4Address(*src), data), from_tunnel=ft)
        except Exception as e:  # noqa: BLE001
            exc = e
        log = self.obs.log
        self.obs.begin()
        sites = [r.pop("x") for r in log if "x" in r]
        ev = {"op": "recv", "via": via, "ft": bool(ft), "len": len(data), "head": list(data[:HEAD]), "enc": enc,
              "inner": list(inner[:4]), "log": log, "raised": exc is not None}
        if exc is not None or sites:
            ev["x"] = sites[0] if sites else site_of(exc)
            ev["hex"] = data[:200].hex()
        if tag:
            ev["tag"] = tag
        self.events.append(ev)
        self.loop.settle()
        self.sync_tables()
        return ev

    def take_sent(self):
        out, self.transport.sent = self.transport.sent, []
        return out
