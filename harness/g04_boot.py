"""G04 - real objects behind specs/LifecycleBoot.tla: a real Community created by ipv8_service.IPv8 from a
configuration with real DispersyBootstrapper / UDPBroadcastBootstrapper instances, on the simulated network (manual
delivery) under the step-mode loop.  Every model address hosts a real Community node that answers introduction
requests.  The harness decides when a DNS look-up completes (loop.run_in_executor is answered by the driver), when the
broadcast socket finishes opening (SimNet.hold_transports) and replaces the OS socket of the broadcast endpoint by a
counting stand-in (no datagram leaves the process)."""
from __future__ import annotations

import asyncio
import base64

from . import nodes, simnet, vloop
from .g04_world import key

UNIT = 15.0          # seconds per spec clock unit
PORT = 6421
INTRO_REQUEST_IDS = (246, 234)
SWEEP = 65535
SWEEP_PORT_SUM = sum(range(SWEEP))

_CLS = {}


def community_class():
    if "c" not in _CLS:
        from ipv8.community import Community
        _CLS["c"] = type("BootOverlay", (Community,), {"community_id": b"\x47" * 20})
    return _CLS["c"]


class FakeSocket:
    """Stands in for socket.socket inside ipv8.bootstrapping.udpbroadcast.bootstrapper."""
    instances = []
    expect = None

    def __init__(self, *a):
        self.n = 0
        self.port_sum = 0
        self.bad = 0
        self.closed = False
        FakeSocket.instances.append(self)

    def setsockopt(self, *a):
        pass

    def bind(self, addr):
        pass

    def setblocking(self, flag):
        pass

    def fileno(self):
        return -1

    def sendto(self, data, addr):
        self.n += 1
        self.port_sum += addr[1]
        if data != self.expect or addr[0] != "255.255.255.255":
            self.bad += 1

    def close(self):
        self.closed = True


class BootWorld:
    def __init__(self, loop, consts):
        """consts: Boots [ids], Kind{}, ConfIPs{id: [names]}, Names{id: [names]}, DnsAddr [names], Others [names], TO"""
        import ipv8_service
        import ipv8.bootstrapping.udpbroadcast.bootstrapper as udp_mod
        self.udp_mod = udp_mod
        self.loop = loop
        loop._ready.clear()
        loop._scheduled.clear()
        loop._vt = vloop.EPOCH
        self.t0 = loop._vt
        self.c = consts
        self.problems = []
        self.net = simnet.attach(loop, simnet.SimNet(loop, auto=False))
        self.net.hold_transports = True
        FakeSocket.instances = []
        udp_mod.socket = FakeSocket
        self.dns = {}            # (bootstrapper id, host) -> [futures]
        loop.run_in_executor = self._executor
        names = sorted(set(a for b in consts["Boots"] for a in consts["ConfIPs"][b]) | set(consts["DnsAddr"])
                       | set(consts["Others"]))
        self.addr = {n: ("80.9.0.%d" % (i + 1), PORT) for i, n in enumerate(names)}
        self.name_of = {v: k for k, v in self.addr.items()}
        cls = community_class()
        self.me = self.net.endpoint(ip="80.1.1.1", port=8090)
        boots = []
        for b in consts["Boots"]:
            if consts["Kind"][b] == "d":
                boots.append({"class": "DispersyBootstrapper",
                              "init": {"ip_addresses": [self.addr[a] for a in consts["ConfIPs"][b]],
                                       "dns_addresses": [("%s.b%d.example" % (n, b), PORT) for n in consts["Names"][b]],
                                       "bootstrap_timeout": consts["TO"] * UNIT}})
            else:
                boots.append({"class": "UDPBroadcastBootstrapper", "init": {"bootstrap_timeout": consts["TO"] * UNIT}})
        conf = {"logger": {"level": "CRITICAL"},
                "keys": [{"alias": "k", "bin": base64.b64encode(key("me").key_to_bin()).decode(), "file": ""}],
                "walker_interval": 0.5,
                "overlays": [{"class": "BootOverlay", "key": "k", "walkers": [], "bootstrappers": boots,
                              "initialize": {}, "on_start": []}]}
        self.ipv8 = loop.call(ipv8_service.IPv8, conf, endpoint_override=self.me, extra_communities={"BootOverlay": cls})
        self.ov = self.ipv8.overlays[0]
        FakeSocket.expect = udp_mod.HDR_ANNOUNCE + self.ov.get_prefix()
        self.ov.my_estimated_lan = self.me.addr
        self.ov.my_estimated_wan = self.me.addr
        self.boot = dict(zip(consts["Boots"], self.ov.bootstrappers))
        if len(self.boot) != len(consts["Boots"]):
            self.problems.append("IPv8.__init__ attached %d bootstrappers, configuration has %d"
                                 % (len(self.ov.bootstrappers), len(consts["Boots"])))
        self.bid = {id(v): k for k, v in self.boot.items()}
        self.others = {}     # model address -> real node that lives there (made when first needed)
        vloop.patch_ipv8_time(loop)
        # observation
        self.sent_mark = 0
        self.unlisted = set()
        self.handoffs = 0
        self.in_boot_action = False
        self.send_log = []       # (dst name, blacklisted at send time, by bootstrapper)
        self.net.policy = self._on_transmit
        real_on_packet = self.ov.on_packet
        world = self

        def on_packet(packet, *a, **k):
            if world.counting_handoffs:
                world.handoffs += 1
            return real_on_packet(packet, *a, **k)
        self.counting_handoffs = False
        self.ov.on_packet = on_packet
        self.unload_task = None
        loop.drain()
        self.net.inflight.clear()

    # ------------------------------------------------------------------ plumbing
    def _executor(self, executor, fn, *args):
        fut = self.loop.create_future()
        self.dns.setdefault(args[0], []).append(fut)
        return fut

    def _on_transmit(self, dg):
        if dg.sender is self.me and len(dg.data) > 22 and dg.data[22] in INTRO_REQUEST_IDS:
            name = self.name_of.get(dg.dst, "?%s:%d" % dg.dst)
            listed = any(tuple(x) == dg.dst for x in self.ov.network.blacklist)
            self.send_log.append((name, listed))
            if self.in_boot_action and not listed:
                self.unlisted.add(name)
        return None

    def _sweeps(self):
        total = 0
        for s in FakeSocket.instances:
            total += s.n
        return total

    def node(self, n):
        if n not in self.others:
            nd = nodes.Node(self.net, key=key("boot-" + n), ip=self.addr[n][0], port=PORT)
            nd.add(community_class())
            self.loop.drain()
            self.others[n] = nd
        return self.others[n]

    # ------------------------------------------------------------------ spec actions
    def act(self, name, args):
        self.send_log = []
        self.handoffs = 0
        sweeps0 = self._sweeps()
        for s in FakeSocket.instances:
            s.port_sum = 0
        self.in_boot_action = name in ("Bootstrap", "KeepAlive", "OpenDone")
        try:
            getattr(self, "a_" + name)(*args)
        finally:
            self.in_boot_action = False
        n = self._sweeps() - sweeps0
        if n % SWEEP:
            self.problems.append("%s: %d broadcast datagrams, not a whole number of sweeps of %d" % (name, n, SWEEP))
        if sum(s.port_sum for s in FakeSocket.instances) != (n // SWEEP) * SWEEP_PORT_SUM:
            self.problems.append("%s: a beacon sweep does not cover the ports 0..%d once each" % (name, SWEEP - 1))
        for s in FakeSocket.instances:
            if s.bad:
                self.problems.append("%s: %d beacon datagrams with a wrong payload or destination" % (name, s.bad))
                s.bad = 0
        self.last_out = {"walks": tuple(n_ for n_, _l in self.send_log), "beacons": n // SWEEP,
                         "handoffs": self.handoffs}

    def a_Bootstrap(self):
        self.loop.call(self.ov.bootstrap)
        self.loop.drain()

    def a_Tick(self):
        self.loop._vt += UNIT

    def a_DnsResolve(self, b, n, r):
        host = "%s.b%d.example" % (n, b)
        futs = [f for f in self.dns.get(host, []) if not f.done()]
        if not futs:
            self.problems.append("DnsResolve: no look-up of %s is pending" % host)
            return
        if r == "fail":
            futs[0].set_exception(OSError("simulated: name does not resolve"))
        else:
            futs[0].set_result(self.addr[r][0])
        self.loop.drain()

    def _pending_open(self, b):
        ep_overlay = self.ov
        for proto, fut in self.net.pending_transports:
            if not fut.done() and getattr(proto, "overlay", None) is ep_overlay:
                return fut
        return None

    def a_OpenDone(self, b, ok):
        fut = self._pending_open(b)
        if fut is None:
            self.problems.append("OpenDone: the broadcast socket is not opening")
            return
        if ok:
            fut.set_result(None)
        else:
            fut.set_exception(OSError("simulated: cannot open the broadcast socket"))
        self.loop.drain()

    def a_KeepAlive(self, k):
        import ipv8.community as com
        import ipv8.bootstrapping.dispersy.bootstrapper as disp
        real_random, real_choice = com.random, disp.choice
        com.random = lambda: 0.0
        disp.choice = lambda seq: seq[k % len(seq)]
        try:
            self.loop.call(self.ov.get_new_introduction)
        finally:
            com.random, disp.choice = real_random, real_choice
        self.loop.drain()

    def a_BcastIn(self, b, kind, x):
        ep = self.boot[b].endpoint
        tr = ep._transport if ep is not None else None
        if tr is None:
            self.problems.append("BcastIn: no broadcast transport")
            return
        src = self.addr[x]
        hdr = self.udp_mod.HDR_ANNOUNCE
        if kind == "announce-own":
            data = hdr + self.ov.get_prefix()
        elif kind == "announce-other":
            data = hdr + b"\x00\x02" + b"\x55" * 20
        elif kind == "garbage":
            data = b"\xff" * 40
        else:
            other = self.node(x).overlay
            before = len(self.net.inflight)
            self.loop.call(other.walk_to, self.me.addr)
            dg = self.net.inflight.pop()
            assert len(self.net.inflight) == before
            data = dg.data
        self.counting_handoffs = True
        try:
            self.loop.call(tr.inject, data, src)
        finally:
            self.counting_handoffs = False
        self.loop.drain()

    def a_WalkOther(self, x):
        self.loop.call(self.ov.walk_to, self.addr[x])
        self.loop.drain()

    def a_Answer(self, a):
        dst = self.addr[a]
        self.node(a)
        for phase in (lambda dg: dg.sender is self.me and dg.dst == dst and dg.data[22] in INTRO_REQUEST_IDS,
                      lambda dg: dg.src == dst and dg.dst == (self.me.addr[0], self.me.addr[1])):
            todo = [dg for dg in self.net.inflight if phase(dg)]
            for dg in todo:
                self.net.inflight.remove(dg)
                self.loop.call(self.net.deliver, dg)
                self.loop.drain()
        # everything else those deliveries produced (punctures, ...) is not part of the model
        keep = [dg for dg in self.net.inflight if dg.sender is self.me and dg.data[22] in INTRO_REQUEST_IDS]
        self.net.inflight.clear()
        self.net.inflight.extend(keep)

    def a_Unload(self):
        self.unload_task = self.loop.call(asyncio.ensure_future, self.loop.call(self.ipv8.unload_overlay, self.ov))
        self.loop.drain()
        if not self.unload_task.done():
            self.problems.append("unload_overlay does not complete")
        elif self.unload_task.exception() is not None:
            self.problems.append("unload_overlay raised %r" % (self.unload_task.exception(),))

    # ------------------------------------------------------------------ projection
    def project(self):
        ov = self.ov
        listening = any(ov in ls for ls in self.me._prefix_map.values()) or ov in self.me._listeners
        loaded = (not ov._shutdown) and listening
        if ov._shutdown != (not listening):
            self.problems.append("overlay shut down = %s but listening = %s" % (ov._shutdown, listening))
        ips, inited, last, sock, dnspend, initruns = {}, {}, {}, {}, {}, {}
        for b, bo in self.boot.items():
            inited[b] = bool(bo.initialized)
            lb = bo.last_bootstrap
            last[b] = -1 if lb == 0 else int(round((lb - self.t0) / UNIT))
            if self.c["Kind"][b] == "d":
                ips[b] = tuple(self.name_of.get((a[0], a[1]), "?") for a in bo.ip_addresses)
                sock[b] = "none"
                pend = set()
                runs = 0
                for n in self.c["Names"][b]:
                    futs = self.dns.get("%s.b%d.example" % (n, b), [])
                    runs = max(runs, len(futs))
                    if any(not f.done() for f in futs):
                        pend.add(n)
                dnspend[b] = frozenset(pend)
                initruns[b] = runs if self.c["Names"][b] else int(inited[b])
            else:
                ips[b] = ()
                dnspend[b] = frozenset()
                socks = [s for s in FakeSocket.instances]
                initruns[b] = len(socks)
                ep = bo.endpoint
                if ep is not None:
                    sock[b] = "closed" if ep._transport.is_closing() else "open"
                elif self._pending_open(b) is not None:
                    sock[b] = "opening"
                else:
                    sock[b] = "failed" if inited[b] else "none"
        bl = frozenset(self.name_of.get((a[0], a[1]), "?%s" % (a,)) for a in ov.network.blacklist)
        peers = frozenset(self.name_of.get((p.address[0], p.address[1]), "?%s" % (p.address,))
                          for p in ov.network.verified_peers)
        for tr in self.net.transports:
            if not loaded and not tr.closed:
                self.problems.append("a broadcast transport is still open after unload")
        return {"now": int(round((self.loop._vt - self.t0) / UNIT)), "loaded": loaded,
                "attached": tuple(self.bid.get(id(x), "?") for x in ov.bootstrappers),
                "ips": ips, "inited": inited, "last": last, "sock": sock, "dnsPend": dnspend, "initRuns": initruns,
                "blacklist": bl, "peers": peers, "out": getattr(self, "last_out", {"walks": (), "beacons": 0,
                                                                                   "handoffs": 0}),
                "unlisted": frozenset(self.unlisted)}

    def close(self):
        import socket as _socket
        self.udp_mod.socket = _socket.socket
        try:
            del self.loop.run_in_executor
        except AttributeError:
            pass
        for node in [*self.others.values()]:
            for ov in node.overlays:
                for t in list(ov._pending_tasks.values()):
                    t.cancel()
        for t in list(self.ov._pending_tasks.values()):
            t.cancel()
        for futs in self.dns.values():
            for f in futs:
                if not f.done():
                    f.cancel()
        for _p, f in self.net.pending_transports:
            if not f.done():
                f.cancel()
        try:
            self.loop.drain()
        except Exception:  # noqa: BLE001
            pass
        self.loop._ready.clear()
        self.loop._scheduled.clear()


def spec_view(st, consts):
    def fn(v, conv=lambda x: x):
        if isinstance(v, dict):
            return {k: conv(x) for k, x in v.items()}
        return {i + 1: conv(x) for i, x in enumerate(v)}      # a function over 1..n prints as a sequence
    boots = consts["Boots"]

    def only(d):
        return {b: d[b] for b in boots}
    return {"now": st["now"], "loaded": st["loaded"], "attached": tuple(st["attached"]),
            "ips": only(fn(st["ips"], tuple)), "inited": only(fn(st["inited"])), "last": only(fn(st["last"])),
            "sock": only(fn(st["sock"])), "dnsPend": only(fn(st["dnsPend"], frozenset)),
            "initRuns": only(fn(st["initRuns"])), "blacklist": frozenset(st["blacklist"]),
            "peers": frozenset(st["peers"]),
            "out": {"walks": tuple(st["out"]["walks"]), "beacons": st["out"]["beacons"],
                    "handoffs": st["out"]["handoffs"]},
            "unlisted": frozenset(st["unlisted"])}
