"""G02 binding T - real DHT networks under a seeded scheduler.

Every node is a real DHTCommunity (default settings) with its PingChurn strategy on the simulated network.  The driver
is the scheduler: it delivers (or loses) one in-flight datagram at a time or fires exactly one timer, and lets the loop
run until idle after each.  Recorded:
  * every crawl (find_values / find_nodes incl. store_value) as the sequence of DhtCrawl.tla steps it took, with the
    projection of the real Crawl object / request cache / wire after each step   -> specs/DhtCrawlTrace.tla
  * for every (serving node, requester) pair the history of requests with exact times and whether they were answered
    -> specs/DhtNodeTrace.tla (sliding-window limiter with the shipped constants)
"""
from __future__ import annotations

import asyncio
import random

from . import nodes
from .g02_world import CRAWLS, KeyGen, get_loop, own_node_id, spy_crawls, xor_int
from .simnet import SimNet
from .tlc import MachineryError

REQ, RESP = {1: "ping", 3: "store", 5: "find"}, {2: "ping", 4: "store", 6: "find"}
US = 1_000_000


class CrawlRec:
    def __init__(self, net, x, crawl, mode, fut):
        self.net, self.x, self.crawl, self.mode, self.fut = net, x, crawl, mode, fut
        self.target = crawl.target
        order = sorted(range(net.n), key=lambda i: xor_int(net.ids[i], self.target))
        self.rank = {i: r + 1 for r, i in enumerate(order)}
        self.outst = []
        self.nreq = 0
        self.store = None
        self.events = []
        self.done = False
        self.vals = {}
        self.tokens = {}     # responder rank -> last token it sent us

    def value_id(self, blob):
        if blob not in self.vals:
            self.vals[blob] = len(self.vals) + 1
        return self.vals[blob]

    def rk(self, node):
        i = self.net.by_pk.get(node.public_key.key_to_bin())
        if i is None:
            raise MachineryError("node outside the network")
        return self.rank[i]

    def project(self):
        ov = self.net.ovs[self.x]
        c = self.crawl
        p = {}
        if self.mode == "nodes":
            # store_value goes on after its find_nodes crawl: that crawl is over when it is `done` with nothing outstanding
            p["phase"] = "done" if (c.done and not self.outst) else "run"
        elif self.fut.done():
            p["phase"] = "done"
        elif self.store is not None and ov.request_cache.has("store", self.store["ident"]):
            p["phase"] = "cache"
        else:
            p["phase"] = "run"
        p["todo"] = [{"n": self.rk(t.node_to_contact), "p": self.rk(t.node_to_puncture) if t.node_to_puncture else 0}
                     for t in c.nodes_todo]
        p["tried"] = sorted(self.rk(n) for n in c.nodes_tried)
        rs = []
        for sender, resp in c.responses:
            if "values" in resp:
                rs.append({"n": self.rk(sender), "t": "values", "vals": [self.value_id(v) for v in resp["values"]], "nodes": []})
            else:
                rs.append({"n": self.rk(sender), "t": "nodes", "vals": [], "nodes": [self.rk(n) for n in resp.get("nodes", [])]})
        p["responses"] = rs
        p["outst"] = [{"to": r["to"], "kind": r["kind"], "task": r["task"]} for r in self.outst]
        p["stored"] = ({"to": self.store["to"], "vals": self.store["vals"], "tok": self.store["tok"]} if self.store
                       else {"to": 0, "vals": [], "tok": 0})
        p["nreq"] = self.nreq
        p["result"] = []
        if p["phase"] == "done":
            if self.mode == "nodes":
                p["result"] = [self.rk(n) for n in self.crawl.nodes]
            elif self.fut.cancelled() or self.fut.exception() is not None:
                p["result"] = [-1]
            elif self.mode == "values":
                res = self.fut.result()
                # post_process_values reports the data; every value of this scenario is unsigned with distinct data
                p["result"] = [self.value_id(self.net.blob_of_data.get(d, d)) if pk is None else -1 for d, pk in res]
            else:
                p["result"] = [self.rk(n) for n in self.crawl.nodes]
        return p


class NetRun:
    def __init__(self, n, seed, loss=0.04, kill=3, lookups=30, duration=150.0, strategy_period=5.0, hammer=0):
        from ipv8.dht.churn import PingChurn
        from ipv8.dht.community import DHTCommunity
        self.rng = random.Random(seed)
        self.loop = get_loop("tick")
        self.t0 = self.loop.time()
        self.netw = SimNet(self.loop, auto=False)
        spy_crawls()
        del CRAWLS[:]
        self.n = n
        keygen = KeyGen("net-%d-%d" % (n, seed))
        self.nodes = [nodes.Node(self.netw, key=keygen()) for _ in range(n)]
        self.ovs = [nd.add(DHTCommunity) for nd in self.nodes]
        for ov in self.ovs:
            ov.cancel_pending_task("node_maintenance")     # one crawl at a time per node: lookups are started by the driver
        self.churn = [PingChurn(ov) for ov in self.ovs]
        self.pks = [nd.my_peer.public_key.key_to_bin() for nd in self.nodes]
        self.ids = [own_node_id(nd.address, pk) for nd, pk in zip(self.nodes, self.pks)]
        self.by_pk = {pk: i for i, pk in enumerate(self.pks)}
        self.by_addr = {tuple(nd.address): i for i, nd in enumerate(self.nodes)}
        self.dead = set()
        self.loss = loss
        self.active = {}          # node index -> CrawlRec
        self.busy = {}            # node index -> future of the API call in progress
        self.queue = {}
        self.stopping = False
        self.finished = []        # CrawlRec
        self.pairs = {}           # (server, client) -> {"t": last event time (us), "held": spec's view, "events": [...]}
        self.blob_of_data = {}
        self.stats = {"delivered": 0, "lost": 0, "timers": 0, "refused": 0, "served": 0, "not_admitted": 0,
                      "removed_bad": 0, "crawls": 0, "api_errors": 0}
        self.escapes = []
        self.seen_seq = 0
        self.duration = duration
        self.keys = [bytes([40 + k]) * 20 for k in range(4)]
        # ---- the scenario, as timers of the same loop
        for i in range(n):
            self.loop.call_later(0.5 + self.rng.random() * strategy_period, self._strategy, i, strategy_period)
            for j in self.rng.sample([k for k in range(n) if k != i], 3):
                self.ovs[i].walk_to(self.nodes[j].address)
        for k, key in enumerate(self.keys[:3]):
            for v in range(1 + k):
                self.loop.call_later(12.0 + 3 * k + v, self._api, self.rng.randrange(n), "store", key, b"data-%d-%d" % (k, v))
        for _ in range(kill):
            self.loop.call_later(45.0 + self.rng.random() * 20, self._kill, self.rng.randrange(n))
        t = 30.0
        for q in range(lookups):
            t += self.rng.choice([0.05, 0.2, 1.0, 2.0, 4.0])
            self.loop.call_later(t, self._api, self.rng.randrange(n), "find", self.rng.choice(self.keys), None)
        # one node hammers one key: far more than 10 requests per 5 s to the nodes closest to it
        if hammer:
            i = self.rng.randrange(n)
            for q in range(hammer):
                self.loop.call_later(t + 2.0 + 0.01 * q, self._api, i, "find", self.keys[q % 2], None)
            t += 12.0
        # a burst of lookups of one key by many nodes (rate limiter of the nodes close to the key)
        for i in self.rng.sample(range(n), min(n, 10)):
            self.loop.call_later(t + 5.0 + self.rng.random() * 0.5, self._api, i, "find", self.keys[0], None)
            self.loop.call_later(t + 6.0 + self.rng.random() * 0.5, self._api, i, "find", self.keys[0], None)

    # ---- scenario callbacks (run inside the loop)
    def _strategy(self, i, period):
        if i not in self.dead:
            before = {j for j in range(self.n) if self.held(i, j)}
            self.churn[i].take_step()
            gone = {j for j in before if not self.held(i, j)}
            self.stats["removed_bad"] += len(gone)
            self.loop.call_later(period, self._strategy, i, period)

    def _kill(self, i):
        if len(self.dead) < self.n // 3 and i not in self.busy:
            self.dead.add(i)
            self.nodes[i].endpoint.close()

    def _api(self, i, what, key, data):
        if i in self.dead:
            return
        if i in self.busy:
            self.queue.setdefault(i, []).append((what, key, data))     # one crawl at a time per node
            return
        ov = self.ovs[i]
        if what == "store":
            blob = ov.serialize_value(data, sign=False)
            self.blob_of_data[data] = blob
            coro = ov.store_value(key, data, sign=False)
            mode = "nodes"
        else:
            coro = ov.find_values(key)
            mode = "values"
        fut = asyncio.ensure_future(coro, loop=self.loop)
        fut.add_done_callback(lambda f, i=i: self._api_done(i, f))
        self.busy[i] = (fut, mode)

    def _api_done(self, i, fut):
        self.busy.pop(i, None)
        if not fut.cancelled() and fut.exception() is not None:
            self.stats["api_errors"] += 1
        if self.queue.get(i) and not self.stopping:
            self.loop.call_later(0.01, self._api, i, *self.queue[i].pop(0))

    # ---- observation helpers
    def held(self, y, x):
        for table in self.ovs[y].routing_tables.values():
            if table.get(self.ids[x]) is not None:
                return True
        return False

    def now_us(self):
        return int(round((self.loop.time() - self.t0) * US))

    def decode(self, ov, cls, data):
        from ipv8.messaging.payload_headers import BinMemberAuthenticationPayload
        auth, _ = ov.serializer.unpack_serializable(BinMemberAuthenticationPayload, data, offset=23)
        _ok, rem = ov._verify_signature(auth, data)
        return ov.serializer.unpack_serializable_list([cls], rem, offset=23)[0]

    def payload_class(self, mid):
        from ipv8.dht import payload as P
        return {1: P.PingRequestPayload, 2: P.PingResponsePayload, 3: P.StoreRequestPayload, 4: P.StoreResponsePayload,
                5: P.FindRequestPayload, 6: P.FindResponsePayload}[mid]

    # ---- one scheduler step
    def step(self):
        infl = self.netw.inflight
        if infl and self.rng.random() < 0.985:
            idx = 0 if self.rng.random() < 0.75 else self.rng.randrange(min(len(infl), 8))
            dg = infl[idx]
            del infl[idx]
            dst = self.by_addr.get(tuple(dg.dst))
            if dst is None or dst in self.dead or self.rng.random() < self.loss:
                dg.fate = "dropped"
                self.stats["lost"] += 1
                return True
            self.deliver(dg, dst)
            return True
        h = self.loop.next_timer()
        if h is None or h._when - self.t0 > self.duration:
            if infl:
                return self._deliver_head()
            return False
        self.stats["timers"] += 1
        try:
            self.loop.fire_next_timer()
        except MachineryError:
            raise
        except Exception as e:  # noqa: BLE001
            self.escapes.append(("timer", repr(e)))
        self.after_step(None, None, None)
        return True

    def _deliver_head(self):
        dg = self.netw.inflight.popleft()
        dst = self.by_addr.get(tuple(dg.dst))
        if dst is None or dst in self.dead:
            return True
        self.deliver(dg, dst)
        return True

    def deliver(self, dg, dst):
        src = self.by_addr.get(tuple(dg.src))
        mid = dg.data[22] if len(dg.data) > 22 else -1
        pre = None
        if src is not None and mid in REQ:
            e0 = None
            for t in self.ovs[dst].routing_tables.values():
                e0 = e0 or t.get(self.ids[src])
            pre = {"held": e0 is not None, "obj": id(e0) if e0 is not None else None,
                   "ident": self.decode(self.ovs[dst], self.payload_class(mid), dg.data).identifier}
        rec = self.active.get(dst)
        resp_event = None
        if rec is not None and mid == 6 and src is not None:
            pl = self.decode(self.ovs[dst], self.payload_class(6), dg.data)
            for k, r in enumerate(rec.outst):
                if r["ident"] == pl.identifier and self.ovs[dst].request_cache.has("find", pl.identifier):
                    if r["to"] != rec.rank[src]:
                        break           # (an answer from somebody else under the same identifier: the code accepts it)
                    resp_event = {"a": "Respond", "i": k + 1, "vals": [rec.value_id(v) for v in pl.values],
                                  "nodes": [rec.rk(nd) for nd in pl.nodes], "chk": False}
                    rec.tokens[r["to"]] = pl.token
                    del rec.outst[k]
                    break
        store_ack = False
        if rec is not None and mid == 4 and rec.store is not None:
            pl = self.decode(self.ovs[dst], self.payload_class(4), dg.data)
            store_ack = pl.identifier == rec.store["ident"] and self.ovs[dst].request_cache.has("store", pl.identifier)
        self.stats["delivered"] += 1
        try:
            self.netw.deliver(dg)
        except Exception as e:  # noqa: BLE001
            self.escapes.append(("delivery of message %d" % mid, repr(e)))
        try:
            self.loop.settle()
        except Exception as e:  # noqa: BLE001
            self.escapes.append(("after message %d" % mid, repr(e)))
        self.after_step(dst, resp_event, "StoreAck" if store_ack else None)
        if pre is not None:
            self.log_query(dst, src, mid, pre)

    # ---- crawl bookkeeping after the loop went idle
    def after_step(self, dst, resp_event, store_event):
        # new crawls
        for c in CRAWLS:
            x = next((i for i, ov in enumerate(self.ovs) if c.routing_table in ov.routing_tables.values()), None)
            if x is None or x in self.active or x not in self.busy:
                raise MachineryError("crawl that cannot be attributed to one API call")
            fut, mode = self.busy[x]
            rec = CrawlRec(self, x, c, "nodes" if c.force_nodes else "values", fut)
            rec.events.append({"a": "Find", "rt": sorted(rec.rank[self.by_pk[pk]] for pk in c._g02_rt if pk in self.by_pk),
                               "mode": rec.mode, "chk": True})
            self.active[x] = rec
            self.stats["crawls"] += 1
        fresh = bool(CRAWLS)
        del CRAWLS[:]
        # what the nodes sent
        infl = self.netw.inflight
        new = [dg for dg in infl if dg.seq > self.seen_seq]
        if infl:
            self.seen_seq = max(self.seen_seq, max(dg.seq for dg in infl))
        for dg in new:
            x = self.by_addr.get(tuple(dg.src))
            rec = self.active.get(x)
            if rec is None or len(dg.data) < 23:
                continue
            mid = dg.data[22]
            to = self.by_addr.get(tuple(dg.dst))
            if mid == 5:
                pl = self.decode(self.ovs[x], self.payload_class(5), dg.data)
                if pl.target == rec.target:
                    kind, task = "find", rec.rank.get(to, -1)
                else:
                    j = next((k for k in range(self.n) if self.ids[k] == pl.target), None)
                    kind, task = "punct", rec.rank.get(j, -1)
                rec.outst.append({"to": rec.rank.get(to, -1), "kind": kind, "task": task, "ident": pl.identifier})
                rec.nreq += 1
            elif mid == 3 and rec.mode == "values" and rec.store is None:
                pl = self.decode(self.ovs[x], self.payload_class(3), dg.data)
                if pl.target == rec.target:
                    r = rec.rank.get(to, -1)
                    rec.store = {"to": r, "vals": [rec.value_id(v) for v in pl.values], "ident": pl.identifier,
                                 "tok": r if rec.tokens.get(r) == pl.token else -1}
        # events of the crawls
        for x, rec in list(self.active.items()):
            ov = self.ovs[x]
            ev = []
            if x == dst and resp_event is not None:
                ev += [resp_event, {"a": "Drain", "chk": True}]
            elif x == dst and store_event is not None:
                ev.append({"a": store_event, "chk": True})
            else:
                gone = [r for r in rec.outst if not ov.request_cache.has("find", r["ident"])]
                if gone:
                    if gone != rec.outst[:len(gone)]:
                        raise MachineryError("find requests expired out of order")
                    rec.outst = rec.outst[len(gone):]
                    ev += [{"a": "Expire", "chk": False} for _ in gone]
                    ev[-1]["chk"] = True
                elif rec.store is not None and not rec.store.get("closed") \
                        and not ov.request_cache.has("store", rec.store["ident"]):
                    ev.append({"a": "StoreExpire", "chk": True})
            if ev or (fresh and rec.events and rec.events[-1]["a"] == "Find" and "s" not in rec.events[-1]):
                proj = rec.project()
                target = ev[-1] if ev else rec.events[-1]
                target["s"] = proj
                rec.events.extend(ev)
                if any(e["a"] in ("StoreAck", "StoreExpire") for e in ev) and rec.store is not None:
                    rec.store["closed"] = True
                if proj["phase"] == "done":
                    self.finish(x, rec)

    def finish(self, x, rec):
        rec.done = True
        for e in rec.events:
            e.setdefault("s", None)
        self.finished.append(rec)
        del self.active[x]

    # ---- per pair request log
    def log_query(self, y, x, mid, pre):
        key = (y, x)
        p = self.pairs.setdefault(key, {"t": None, "held": False, "obj": None, "events": []})
        now = self.now_us()
        if p["t"] is not None and now > p["t"]:
            p["events"].append({"a": "t", "d": min(now - p["t"], 1_000_000_000)})
        p["t"] = now
        held_after = self.held(y, x)
        # was it answered?  (a response to this identifier from y to x among the datagrams in flight)
        answered = False
        for dg in self.netw.inflight:
            if tuple(dg.src) == tuple(self.nodes[y].address) and tuple(dg.dst) == tuple(self.nodes[x].address) \
                    and len(dg.data) > 22 and dg.data[22] == mid + 1:
                if self.decode(self.ovs[y], self.payload_class(mid + 1), dg.data).identifier == pre["ident"]:
                    answered = True
        counted = answered
        if mid == 3 and not answered and held_after:
            node = next(t.get(self.ids[x]) for t in self.ovs[y].routing_tables.values() if t.get(self.ids[x]) is not None)
            counted = bool(node.last_queries) and abs(node.last_queries[-1] - self.loop.time()) < 1e-9
        entry = None
        for t in self.ovs[y].routing_tables.values():
            entry = entry or t.get(self.ids[x])
        if p["held"] and (not pre["held"] or (p["obj"] is not None and pre["obj"] != p["obj"])):
            p["events"].append({"a": "x"})          # the entry vanished since the last request (dropped as BAD)
            p["held"] = False
        p["obj"] = id(entry) if entry is not None else None
        if counted and not held_after:
            p["events"].append({"a": "n"})          # answered although the requester does not fit in the table
            self.stats["not_admitted"] += 1
            return
        p["events"].append({"a": "q", "out": "served" if counted else "refused"})
        self.stats["served" if counted else "refused"] += 1
        p["held"] = held_after if counted else p["held"]

    # ---- run
    def run(self, max_steps=400000):
        steps = 0
        while steps < max_steps and self.step():
            steps += 1
        self.stats["steps"] = steps
        self.stopping = True
        self.stats["virtual_seconds"] = round(self.loop.time() - self.t0, 1)
        for ov in self.ovs:
            ov.cancel_all_pending_tasks()
            ov.request_cache.cancel_all_pending_tasks()
        for x, (fut, _m) in list(self.busy.items()):
            fut.cancel()
        try:
            self.loop.settle()
        except Exception:  # noqa: BLE001
            pass
        # cancel the scenario's own timers
        for h in list(self.loop._scheduled):
            h.cancel()
        return self

    def crawl_traces(self):
        out = []
        for rec in self.finished + [r for r in self.active.values() if len(r.events) > 1]:     # unfinished ones: a prefix
            evs = []
            for e in rec.events:
                e = dict(e)
                if e.get("s") is None:
                    e["chk"] = False
                    e["s"] = {}
                evs.append(e)
            out.append({"node": rec.x, "mode": rec.mode, "finished": rec.done, "events": evs})
        return out

    def pair_traces(self, min_queries=3):
        out = []
        for (y, x), p in sorted(self.pairs.items()):
            if sum(1 for e in p["events"] if e["a"] in "qn") >= min_queries:
                out.append({"server": y, "client": x, "events": p["events"]})
        return out
