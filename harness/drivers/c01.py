"""C01 - signed handlers run only for authentic, untampered datagrams.

specs/Auth.tla     : abstract datagrams, honest signing, the adversary's mutation actions, Run/Drop of the receive
                     path; invariants AuthOnly / NoForgedVerified / OverlaySeparation / HonestAttribution; the
                     hand-written table of authenticated message ids of every shipped overlay.
specs/AuthTrace.tla: binding T.  Real datagrams are captured from protocol runs of every shipped overlay class on the
                     simulated network (ids the scenarios do not produce are packed with the overlay's own ezr_pack),
                     mutated (every byte position, every truncation, extension, key substitution, foreign signature,
                     splices, prefix / message-id swaps, replay into the other overlays) and handed to the production
                     receive path (endpoint.notify_listeners) of a receiving node.  The driver abstracts each datagram
                     by itself (key at byte 23, signature checked with the ipv8_rust_tunnels primitive directly) and
                     logs what the real code did (handler entered - seen through the closure cell of the decorator -,
                     peer handed to it, sends, new verified peers).  TLC validates every event against Auth.tla.
Histories          : Auth.tla also carries the verified-peer table as "key -> addresses" (book), the source address of
                     every delivery, acquaintances made before the window (Acquaint) and restarts of the node; a
                     rejected datagram must leave the table alone (RejectInert / Drop), a valid one may change the entry
                     of the key that signed it only (BookLegit / Run).  The driver reads the real Network after every
                     delivery (key -> Peer.addresses) and logs it with the source address.  Receiver states: fresh,
                     acquainted (honest sender put into the Network beforehand), and SESSIONS: one receiving node lives
                     through a history made by the real code (the honest sender and then the adversary introduce
                     themselves with their own valid introduction-requests from their own addresses), then the forgeries
                     arrive from the honest sender's, the adversary's and a third address, then the valid ones, then the
                     core forgeries again - the node is never reset, TLC follows the table through the whole trace.
Records / residents: Auth.tla's `noted` = whatever an overlay keeps about a key outside the verified-peer table.  A RESIDENT
                     receiving node is one of four real nodes that ran the protocol scenario among themselves (routing
                     table, stored values and peers, tokens, request caches as the real code left them); the network
                     then falls silent and the mutation families of the datagrams it had received arrive, and once more
                     after 65 s of virtual time (timeouts fired).  harness/c01_notes.py reads every Peer / Node object
                     and every container entry filed under a key (serialized key, mid, node id) from the live object
                     graph before and after every delivery: deliver.touched.  Drop demands touched = {} (RejectInert),
                     a handler-less change for an authenticated id is a Run that needs a valid signature (NotesLegit).
Key memory / crowds: Auth.tla's `kres` = what the serialized form of a key resolves to (ECCrypto.key_from_public_bin);
                     KeyResolution: the identity, whatever was parsed before.  A CROWD session: introductions, then
                     thousands of valid copies of a capture under ever new keys of the adversary's, then the capture
                     (naming the honest key) and its copies (naming the previous key of the crowd) signed with every
                     key of the crowd; `probe` events log what the known keys resolve to.  The keys of a crowd share
                     the abstract names c0..c3 (a quotient: signer and carried key of one datagram never share one).
"""
from __future__ import annotations

import json
import multiprocessing
import os
import random
import shutil
import struct
from concurrent.futures import ThreadPoolExecutor

from ..common import Ctx, setup_repo_path
from ..tlc import MachineryError, parse_value, run_tlc, scratch_dir

PID = "C01"
ATTACKER_SRC = ("6.6.6.6", 6666)
OTHER_SRC = ("7.7.7.7", 7777)       # a third address: neither the honest sender's nor the adversary's
CLASS_NAMES = ["DiscoveryCommunity", "DHTCommunity", "DHTDiscoveryCommunity", "TunnelCommunity",
               "HiddenTunnelCommunity", "PexCommunity", "IdentityCommunity", "AttestationCommunity"]
MC_ACTIONS = ["Send", "InjectAny", "Noop", "FlipPrefix", "FlipMsgId", "FlipKey", "SubstKeyKeepSig", "FlipBody",
              "FlipSig", "Truncate", "StripAuth", "Extend", "Resign", "SpliceBody", "SpliceSig", "Run", "Drop"]
CROWD_ACTIONS = ["Send", "InjectAny", "Run", "Drop", "Acquaint", "Restart"]
HIST_ACTIONS = ["Send", "InjectAny", "Noop", "FlipKey", "SubstKeyKeepSig", "FlipSig", "Resign", "Run", "Drop",
                "Acquaint", "Restart"]
NO_CONTENT = {"prefix": "p?", "msgid": 256, "key": "nokey", "body": "b?"}
NO_SIG = {"kind": "none", "signer": "nokey", "covers": NO_CONTENT}
GARBAGE = {"kind": "garbage", "signer": "nokey", "covers": NO_CONTENT}
BLANK = dict(NO_CONTENT, sig=NO_SIG)


# =====================================================================================================
# the world of one worker process: loop, overlay classes, keys
# =====================================================================================================
class World:
    def __init__(self):
        setup_repo_path()
        from .. import vloop
        self.vloop = vloop
        self.loop = vloop.install(vloop.VLoop())
        from .. import nodes, simnet
        self.nodes, self.simnet = nodes, simnet
        from ipv8.attestation.identity.community import IdentityCommunity
        from ipv8.attestation.wallet.community import AttestationCommunity
        from ipv8.dht.community import DHTCommunity
        from ipv8.dht.discovery import DHTDiscoveryCommunity
        from ipv8.keyvault.crypto import default_eccrypto
        from ipv8.messaging.anonymization.community import TunnelCommunity
        from ipv8.messaging.anonymization.hidden_services import HiddenTunnelCommunity
        from ipv8.messaging.anonymization.pex import PexCommunity
        from ipv8.peerdiscovery.community import DiscoveryCommunity
        self.classes = {c.__name__: c for c in (DiscoveryCommunity, DHTCommunity, DHTDiscoveryCommunity,
                                                TunnelCommunity, HiddenTunnelCommunity, PexCommunity,
                                                IdentityCommunity, AttestationCommunity)}
        self.kwargs = {"PexCommunity": {"info_hash": b"\x07" * 20},
                       "IdentityCommunity": {"working_directory": ":memory:"},
                       "AttestationCommunity": {"working_directory": ":memory:"}}
        self.ec = default_eccrypto
        self.keys = {}        # name -> private key
        self.pubs = {}        # name -> public key bin
        self.keyname = {}     # public key bin -> name

    def make_keys(self):
        for name, curve in (("h1", "curve25519"), ("h2", "very-low"), ("h3", "curve25519"), ("rcv", "curve25519"),
                            ("att", "curve25519"), ("att2", "very-low")):
            k = self.ec.generate_key(curve)
            self.keys[name] = k
            self.pubs[name] = k.pub().key_to_bin()
            self.keyname[k.pub().key_to_bin()] = name
        # public keys of strangers (nobody the receiver ever met, private halves thrown away): abstract key "kx"
        self.strangers = {True: self.ec.generate_key("curve25519").pub().key_to_bin(),
                          False: self.ec.generate_key("very-low").pub().key_to_bin()}

    def new_net(self, drop_all=False):
        net = self.simnet.attach(self.loop, self.simnet.SimNet(self.loop))
        if drop_all:
            net.policy = lambda dg: []
        return net

    def prefix_of(self, cname):
        """The real 22 byte prefix of a shipped overlay class (from a throw-away instance)."""
        if not hasattr(self, "_prefixes"):
            self._prefixes = {}
            net = self.new_net(True)
            for cn, cls in self.classes.items():
                n = self.nodes.Node(net)
                ov = n.add(cls, **self.kwargs.get(cn, {}))
                self._prefixes[cn] = ov.get_prefix()
                self.loop.run_until_complete(ov.unload())
        return self._prefixes[cname]


# =====================================================================================================
# observation of handler entry without source hooks: the closure cell that holds the decorated function
# =====================================================================================================
SPYLOG = []
_SPIED = {}     # id(parent wrapper) -> True


def _make_spy(inner):
    def spy(self, peer, *args, **kwargs):
        SPYLOG.append((self, inner.__name__, peer))
        return inner(self, peer, *args, **kwargs)
    spy._c01spy = True
    spy.__name__ = getattr(inner, "__name__", "handler")
    return spy


def install_spies(ov):
    """-> {msgid: True if the entry of the decorated function is observable, False for hand-written handlers}"""
    spyable = {}
    for msgid, h in enumerate(ov.decode_map):
        if h is None:
            continue
        f = getattr(h, "__func__", h)
        chain = [f]
        while hasattr(chain[-1], "__wrapped__"):
            chain.append(chain[-1].__wrapped__)
        if len(chain) == 1:
            spyable[msgid] = False
            continue
        inner, parent = chain[-1], chain[-2]
        if id(parent) not in _SPIED:
            done = False
            for cell in parent.__closure__ or ():
                try:
                    if cell.cell_contents is inner:
                        cell.cell_contents = _make_spy(inner)
                        done = True
                except ValueError:
                    pass
            if not done:
                raise MachineryError("cannot find the closure cell of %s in its decorator" % inner.__qualname__)
            _SPIED[id(parent)] = True
        spyable[msgid] = True
    return spyable


# =====================================================================================================
# receiving node
# =====================================================================================================
class Receiver:
    def __init__(self, world, cname, acquainted=()):
        self.w, self.cname, self.acquainted = world, cname, tuple(acquainted)
        self.ov = None
        self.builds = 0
        self.build()

    def build(self):
        w = self.w
        if self.ov is not None:
            w.loop.run_until_complete(self.ov.unload())
        from ipv8.peer import Peer
        self.net = w.new_net(drop_all=True)
        self.node = w.nodes.Node(self.net, key=w.keys["rcv"])
        self.ov = self.node.add(w.classes[self.cname], **w.kwargs.get(self.cname, {}))
        self.spyable = install_spies(self.ov)
        for keybin, addr in self.acquainted:      # the receiver already knows these peers as verified
            p = Peer(keybin, w.simnet.UDPv4Address(*addr))
            self.ov.network.add_verified_peer(p)
            self.ov.network.discover_services(p, [self.ov.community_id])
        self.builds += 1
        self._tables_now = self._records_now = None

    def tables(self):
        """-> (keys of the verified peers, the verified-peer table as {key bin: frozenset of (ip, port)}: where the
        node believes each key lives) in one pass over the real Network"""
        from ..c01_notes import keybin
        nw = self.ov.network
        ver = set(nw.verified_by_public_key_bin)
        out, seen = {}, set()
        for src in (nw.verified_peers, list(nw.verified_by_public_key_bin.values())):
            for p in list(src):
                if id(p) in seen:
                    continue
                seen.add(id(p))
                kb = keybin(p.public_key)
                ver.add(kb)
                addrs = set(p.addresses.values())
                pref = p.address
                if pref != ("0.0.0.0", 0):
                    addrs.add(pref)
                prev = out.get(kb)
                out[kb] = frozenset(addrs) if prev is None else prev | addrs
        return ver, out

    def verified(self):
        return self.tables()[0]

    def book(self):
        return self.tables()[1]

    def records(self):
        """What the overlay keeps about each key anywhere in its object graph: {key name: digest} (c01_notes)."""
        from .. import c01_notes
        names = dict(self.w.keyname)
        for kb in self.w.strangers.values():
            names.setdefault(kb, "kx")
        # lazily maintained, derived data (Network.reverse_service_lookup: "cache of service_id -> [Peer]") is brought
        # up to date through the public read API first: a handler that merely READS the peers must not look like a change
        nw = self.ov.network
        for service in list(getattr(nw, "reverse_service_lookup", ())):
            nw.get_peers_for_service(service)
        return c01_notes.key_records(self.ov, names)

    def deliver(self, data, src, keep=False, notes=False):
        """-> dict(entered: [(handler name, peer)], sent: n, newv: [key bins], crashed: str|None, book: table after,
        touched: [key names whose records differ before / after]  (only with notes=True))
        keep = the receiver lives on with whatever the delivery did to it (sessions: histories of deliveries)"""
        n0 = None
        if notes:
            # Every fourth delivery gets an instant of its own (a record that is stamped with the current time must
            # show).  What ANY arrival from this source address does, whatever its bytes (Community.on_packet refreshes
            # the liveness of the peer known at the address), is not an effect of the datagram: its first 22 bytes
            # alone (the prefix that routes it to the overlay, nothing else) arrive from the same address first.
            # (Same address, same prefix and same instant as the last delivery: that has happened already.)
            self._nnotes = getattr(self, "_nnotes", 0) + 1
            if self._nnotes % 4 == 1:
                self.w.loop._vt += 0.001
            mark = (tuple(src), bytes(data[:22]), self.w.loop.time())
            if getattr(self, "_records_now", None) is None or self._records_mark != mark:
                try:
                    self.node.sim_endpoint.notify_listeners((self.w.simnet.UDPv4Address(*src), bytes(data[:22])))
                except Exception:  # noqa: BLE001
                    pass
                if self.w.loop._ready:
                    self.w.loop.settle()
                self._records_now = self.records()
                self._tables_now = None
            n0 = self._records_now
        del SPYLOG[:]
        w0 = len(self.net.wire)
        if keep and getattr(self, "_tables_now", None) is not None:
            v0, b0 = self._tables_now      # (a node that lives on: nothing happened to it since the last delivery)
        else:
            v0, b0 = self.tables()
        crashed = None
        try:
            self.node.sim_endpoint.notify_listeners((self.w.simnet.UDPv4Address(*src), bytes(data)))
        except Exception as e:  # noqa: BLE001  (robustness of the receive path is C03's business)
            crashed = type(e).__name__
        if self.w.loop._ready:
            self.w.loop.settle()
        entered = [(name, peer) for (o, name, peer) in SPYLOG if o is self.ov]
        sent = len(self.net.wire) - w0
        v1, b1 = self._tables_now = self.tables()
        newv = sorted(v1 - v0)
        out = {"entered": entered, "sent": sent, "newv": newv, "crashed": crashed, "book": b1, "rebuilt": False,
               "touched": []}
        if notes:
            from .. import c01_notes
            n1 = self._records_now = self.records()
            self._records_mark = (tuple(src), bytes(data[:22]), self.w.loop.time())
            out["touched"] = c01_notes.touched(n0, n1)
        if (entered or sent or newv or SPYLOG or b1 != b0) and not keep:
            self.build()      # never reuse a receiver whose state a delivery has touched
            out["rebuilt"] = True
        return out

    def close(self):
        self.w.loop.run_until_complete(self.ov.unload())


class Resident(Receiver):
    """A receiving node that took part in the protocol scenario itself (routing table, stored peers, tokens, request
    caches ... as the real code left them).  It is never rebuilt."""

    def __init__(self, world, cname, node, net):
        self.w, self.cname, self.acquainted = world, cname, ()
        self.node, self.net, self.ov = node, net, node.overlay
        self.builds = 1
        self.spyable = install_spies(self.ov)

    def build(self):
        raise MachineryError("a resident receiving node cannot be rebuilt")

    def close(self):
        pass


# =====================================================================================================
# corpus
# =====================================================================================================
class Capture:
    __slots__ = ("cname", "msgid", "data", "src", "sender", "origin")

    def __init__(self, cname, msgid, data, src, sender, origin):
        self.cname, self.msgid, self.data, self.src, self.sender, self.origin = cname, msgid, data, src, sender, origin


def synth_table(world, cname):
    """Authenticated messages the scenarios do not produce: packed by the overlay's own ezr_pack / _ez_pack."""
    from ipv8.messaging.payload_headers import BinMemberAuthenticationPayload, GlobalTimeDistributionPayload

    def dist(ov, pid, payload):
        auth = BinMemberAuthenticationPayload(ov.my_peer.public_key.key_to_bin())
        return ov._ez_pack(ov.get_prefix(), pid, [auth, GlobalTimeDistributionPayload(ov.claim_global_time()), payload])

    t = {}
    far = ("80.9.9.9", 8090)
    t[246] = lambda ov: ov.create_introduction_request(world.simnet.UDPv4Address(*far))
    t[234] = lambda ov: ov.create_introduction_request(world.simnet.UDPv4Address(*far), new_style=True)
    t[245] = lambda ov: ov.create_introduction_response(ov.my_estimated_lan, world.simnet.UDPv4Address(*far), 77)
    t[233] = lambda ov: ov.create_introduction_response(ov.my_estimated_lan, world.simnet.UDPv4Address(*far), 77,
                                                        new_style=True)
    t[249] = lambda ov: ov.create_puncture(ov.my_estimated_lan, ov.my_estimated_wan, 77)
    t[231] = lambda ov: ov.create_puncture(ov.my_estimated_lan, ov.my_estimated_wan, 77, new_style=True)
    if cname == "DiscoveryCommunity":
        t[1] = lambda ov: ov.create_similarity_request(ov.my_peer)
        t[2] = lambda ov: ov.create_similarity_response(77, ov.my_peer)
    if cname in ("DHTCommunity", "DHTDiscoveryCommunity"):
        from ipv8.dht.payload import (FindRequestPayload, FindResponsePayload, PingRequestPayload,
                                      PingResponsePayload, StoreRequestPayload, StoreResponsePayload)
        t[1] = lambda ov: ov.ezr_pack(1, PingRequestPayload(11))
        t[2] = lambda ov: ov.ezr_pack(2, PingResponsePayload(11))
        t[3] = lambda ov: ov.ezr_pack(3, StoreRequestPayload(12, b"t" * 20, b"k" * 20, [b"value"]))
        t[4] = lambda ov: ov.ezr_pack(4, StoreResponsePayload(12))
        t[5] = lambda ov: ov.ezr_pack(5, FindRequestPayload(13, ov.my_estimated_lan, b"k" * 20, 0, False))
        t[6] = lambda ov: ov.ezr_pack(6, FindResponsePayload(13, b"t" * 20, [b"value"], []))
    if cname in ("TunnelCommunity", "HiddenTunnelCommunity"):
        from ipv8.messaging.anonymization.payload import DestroyPayload
        t[8] = lambda ov: ov.ezr_pack(8, DestroyPayload(4711, 0))
    if cname == "DHTDiscoveryCommunity":
        from ipv8.dht.payload import (ConnectPeerRequestPayload, ConnectPeerResponsePayload, StorePeerRequestPayload,
                                      StorePeerResponsePayload)
        t[7] = lambda ov: ov.ezr_pack(7, StorePeerRequestPayload(17, b"t" * 20, b"k" * 20))
        t[8] = lambda ov: ov.ezr_pack(8, StorePeerResponsePayload(17))
        t[9] = lambda ov: ov.ezr_pack(9, ConnectPeerRequestPayload(18, ov.my_estimated_lan, b"k" * 20))
        t[10] = lambda ov: ov.ezr_pack(10, ConnectPeerResponsePayload(18, []))
    if cname == "IdentityCommunity":
        from ipv8.attestation.identity.payload import (AttestPayload, DisclosePayload, MissingResponsePayload,
                                                       RequestMissingPayload)
        t[1] = lambda ov: ov.ezr_pack(1, DisclosePayload(b"metadata", b"tokens", b"attestations", b"authorities"))
        t[2] = lambda ov: ov.ezr_pack(2, AttestPayload(b"a" * 96))
        t[3] = lambda ov: ov.ezr_pack(3, RequestMissingPayload(0))
        t[4] = lambda ov: ov.ezr_pack(4, MissingResponsePayload(b"t" * 64))
    if cname == "AttestationCommunity":
        from ipv8.attestation.wallet.payload import (AttestationChunkPayload, ChallengePayload,
                                                     ChallengeResponsePayload, RequestAttestationPayload,
                                                     VerifyAttestationRequestPayload)
        t[1] = lambda ov: dist(ov, 1, VerifyAttestationRequestPayload(b"h" * 20))
        t[2] = lambda ov: dist(ov, 2, AttestationChunkPayload(b"h" * 20, 0, b"chunk-data"))
        t[3] = lambda ov: dist(ov, 3, ChallengePayload(b"h" * 20, b"challenge"))
        t[4] = lambda ov: dist(ov, 4, ChallengeResponsePayload(b"h" * 20, b"response"))
        t[5] = lambda ov: dist(ov, 5, RequestAttestationPayload(
            json.dumps({"attribute": "age", "public_key": "", "id_format": "id_metadata"}).encode()))
    return t


def capture_corpus(world, cname, auth_ids, per_id):
    """Run protocol scenarios of three honest nodes (keys h1, h2, h3) and take the datagrams from the wire."""
    import asyncio
    w = world
    cls, kw = w.classes[cname], w.kwargs.get(cname, {})
    net = w.new_net()
    ns = []
    for kn in ("h1", "h2", "h3"):
        n = w.nodes.Node(net, key=w.keys[kn])
        n.add(cls, **kw)
        ns.append(n)
    a, b, c = (n.overlay for n in ns)

    async def scenario():
        w.nodes.introduce_all(ns)                          # 246 / 245 / 250 / 249
        await asyncio.sleep(1)
        for x, y in ((0, 1), (1, 2), (2, 0), (1, 0)):      # 234 / 233 / 232 / 231
            ox = ns[x].overlay
            ox.endpoint.send(ns[y].address, ox.create_introduction_request(ns[y].address, new_style=True))
        await asyncio.sleep(1)
        for ov in (a, b, c):
            for p in ov.get_peers():
                p.new_style_intro = True
        for x, y in ((0, 1), (1, 2), (2, 0), (1, 0)):
            ox = ns[x].overlay
            ox.endpoint.send(ns[y].address, ox.create_introduction_request(ns[y].address, new_style=True))
        await asyncio.sleep(1)
        if cname in ("DHTCommunity", "DHTDiscoveryCommunity"):
            for ov, key in ((a, b"k" * 20), (b, b"l" * 20)):
                try:
                    await ov.store_value(key, b"value-of-" + key[:1], sign=True)
                    await ov.find_values(key)
                except Exception:  # noqa: BLE001
                    pass
            if cname == "DHTDiscoveryCommunity":
                for ov, other in ((b, a), (a, b)):
                    try:
                        await ov.store_peer()
                        await other.connect_peer(ov.my_peer.mid)
                    except Exception:  # noqa: BLE001
                        pass
        await asyncio.sleep(1)

    w.loop.run_until_complete(scenario())
    sender_of = {n.sim_endpoint: kn for n, kn in zip(ns, ("h1", "h2", "h3"))}
    prefix = a.get_prefix()
    by_id = {}
    intros = {}       # honest sender -> (a valid introduction-request of his, the address it came from): histories
    for dg in net.wire:
        if dg.data[:22] == prefix and len(dg.data) > 23 and dg.data[22] == 246 and dg.sender in sender_of:
            intros.setdefault(sender_of[dg.sender], (dg.data, tuple(dg.src)))
    for ov, kn, n in ((a, "h1", ns[0]), (b, "h2", ns[1]), (c, "h3", ns[2])):
        if kn not in intros:
            intros[kn] = (ov.create_introduction_request(w.simnet.UDPv4Address("80.9.9.9", 8090)), tuple(n.address))
    for dg in net.wire:
        if dg.data[:22] == prefix and len(dg.data) > 23 and dg.data[22] in auth_ids and dg.sender in sender_of:
            by_id.setdefault(dg.data[22], []).append(
                Capture(cname, dg.data[22], dg.data, dg.src, sender_of[dg.sender], "captured"))
    syn = synth_table(w, cname)
    for mid in sorted(auth_ids):
        if mid not in by_id and mid in syn:
            for ov, kn, n in ((a, "h1", ns[0]), (b, "h2", ns[1]), (c, "h3", ns[2])):
                try:
                    data = syn[mid](ov)
                except Exception as e:  # noqa: BLE001
                    raise MachineryError("cannot pack message %d of %s: %r" % (mid, cname, e)) from e
                by_id.setdefault(mid, []).append(Capture(cname, mid, data, tuple(n.address), kn, "synthesised"))
    # choose per id: different senders first (h1 = curve25519, h2 = sect163k1, h3 = curve25519), distinct bytes
    chosen = {}
    for mid, caps in sorted(by_id.items()):
        order = []
        pref = ("h1", "h2", "h3") if mid % 3 else ("h2", "h1", "h3")
        for kn in pref:
            order += [cp for cp in caps if cp.sender == kn]
        seen, pick = set(), []
        for cp in order:
            if cp.data in seen:
                continue
            if len(pick) < per_id and (cp.sender not in [p.sender for p in pick] or len(pick) >= 3):
                pick.append(cp)
                seen.add(cp.data)
        for cp in order:                                   # fill up with further instances of the same senders
            if len(pick) >= per_id:
                break
            if cp.data not in seen:
                pick.append(cp)
                seen.add(cp.data)
        chosen[mid] = pick
    pool = [cp for caps in by_id.values() for cp in caps]
    for ov in (a, b, c):
        w.loop.run_until_complete(ov.unload())
    # the adversary is an ordinary participant too: his own, valid introduction-request from his own address
    for kn in ("att", "att2"):
        n = w.nodes.Node(w.new_net(drop_all=True), key=w.keys[kn], ip=ATTACKER_SRC[0], port=ATTACKER_SRC[1])
        ov = n.add(cls, **kw)
        intros[kn] = (ov.create_introduction_request(w.simnet.UDPv4Address("80.9.9.9", 8090)), ATTACKER_SRC)
        w.loop.run_until_complete(ov.unload())
    return chosen, pool, intros


RESIDENT_SILENCE = 65      # seconds of virtual time without any traffic before the forgeries arrive a second time
CROWD = {"quick": 2200, "thorough": 9000}      # keys in a crowd (a history longer than any memory of 2048 / 8192 keys)
CROWD_SHORT = 200          # keys in a crowd around a message that puts every one of them into the verified-peer table
CROWD_NAMES = 4            # the keys of a crowd share the abstract names c0..c3 (neighbours never share one)


def resident_world(w, cname, auth_ids):
    """Four real nodes - h1, h2, h3 and the receiving node (key rcv) - run the protocol scenario among themselves.
    -> (Resident, {msgid: Capture sent to the receiving node by an honest one (or packed by h1's overlay)}, pool)"""
    import asyncio
    cls, kw = w.classes[cname], w.kwargs.get(cname, {})
    net = w.new_net()
    ns = []
    for kn in ("h1", "h2", "h3", "rcv"):
        n = w.nodes.Node(net, key=w.keys[kn])
        n.add(cls, **kw)
        ns.append(n)

    async def scenario():
        w.nodes.introduce_all(ns)
        await asyncio.sleep(1)
        for x in range(4):
            for y in range(4):
                if x != y:
                    ox = ns[x].overlay
                    ox.endpoint.send(ns[y].address, ox.create_introduction_request(ns[y].address, new_style=True))
        await asyncio.sleep(1)
        if cname in ("DHTCommunity", "DHTDiscoveryCommunity"):
            for i, n in enumerate(ns):
                try:
                    await n.overlay.store_value(bytes([107 + i]) * 20, b"value-%d" % i, sign=True)
                    await n.overlay.find_values(bytes([107 + i]) * 20)
                except Exception:  # noqa: BLE001
                    pass
            if cname == "DHTDiscoveryCommunity":
                for n in ns:
                    try:
                        await n.overlay.store_peer()
                    except Exception:  # noqa: BLE001
                        pass
                for n in ns:
                    for m in ns:
                        if n is not m:
                            try:
                                await n.overlay.connect_peer(m.overlay.my_peer.mid)
                            except Exception:  # noqa: BLE001
                                pass
        await asyncio.sleep(1)

    w.loop.run_until_complete(scenario())
    net.policy = lambda dg: []            # from now on nobody hears anybody: the forgeries are all that arrives
    rnode = ns[3]
    sender_of = {n.sim_endpoint: kn for n, kn in zip(ns, ("h1", "h2", "h3"))}
    prefix = rnode.overlay.get_prefix()
    by_id = {}
    for dg in net.wire:
        if dg.data[:22] == prefix and len(dg.data) > 23 and dg.data[22] in auth_ids and dg.sender in sender_of \
                and tuple(dg.dst) == tuple(rnode.address):
            by_id.setdefault(dg.data[22], []).append(
                Capture(cname, dg.data[22], dg.data, tuple(dg.src), sender_of[dg.sender], "captured"))
    syn = synth_table(w, cname)
    for mid in sorted(auth_ids):
        if mid not in by_id and mid in syn:
            n = ns[mid % 3]
            try:
                data = syn[mid](n.overlay)
            except Exception as e:  # noqa: BLE001
                raise MachineryError("cannot pack message %d of %s: %r" % (mid, cname, e)) from e
            by_id[mid] = [Capture(cname, mid, data, tuple(n.address), ("h1", "h2", "h3")[mid % 3], "synthesised")]
    pool = [cp for caps in by_id.values() for cp in caps]
    caps = {}
    for mid, cs in by_id.items():      # the last one an honest node sent (its request cache may still be open)
        caps[mid] = cs[-1]
    return Resident(w, cname, rnode, net), caps, pool


def crowd_plan(w, cap, intros, size, register=True):
    """-> (history, deliveries) of a crowd session around one capture: the honest sender and the adversary introduce
    themselves; `size` valid copies of the capture arrive, each under a new key of the adversary's; then, signed with
    every key of the crowd in turn, the capture itself (it names the honest sender's key) and the copy that names the
    previous key of the crowd; the key vault is asked what the known keys resolve to before and after."""
    d = cap.data
    p = parse(d)
    n, bs, S = p.n, p.bstart, p.siglen
    nacl = p.keybytes.startswith(b"LibNaCLPK:")
    att = "att" if nacl else "att2"
    keys = [w.ec.generate_key("curve25519" if nacl else "very-low") for _ in range(size)]
    bins = [k.pub().key_to_bin() for k in keys]
    for i, kb in enumerate(bins):
        if register:
            w.keyname[kb] = "c%d" % (i % CROWD_NAMES)
    history = [["send", intros[cap.sender][0].hex(), list(cap.src)],
               ["inject", intros[att][0].hex(), list(ATTACKER_SRC)]]
    known = [w.pubs[kn].hex() for kn in ("h1", "h2", "h3", "rcv", "att", "att2")]
    subs = [d[:23] + varlen_key(kb) + d[bs:n - S] for kb in bins]
    hints = ["pk:" + kb.hex() for kb in bins]
    src = list(ATTACKER_SRC)
    out = [["probe", known]]
    for i, k in enumerate(keys):          # the crowd: valid datagrams, each signed by the key it carries
        out.append([[["SubstKeyKeepSig", (subs[i] + d[n - S:]).hex(), None],
                     ["Resign", (subs[i] + k.signature(subs[i])).hex(), hints[i]]], src])
        if i == size // 2:                # in between the honest sender is heard again
            out.append([[["Noop", d.hex(), None]], list(cap.src)])
    for i, k in enumerate(keys):          # the honest sender's key in the datagram, a key of the crowd under it
        out.append([[["Resign", (d[:n - S] + k.signature(d[:n - S])).hex(), hints[i]]],
                    src if i % 2 else list(cap.src)])
    for i, k in enumerate(keys):          # the previous key of the crowd in the datagram, this one under it
        j = i - 1 if i else size - 1
        if j % CROWD_NAMES == i % CROWD_NAMES or (i % 8 and i < size - 64):      # (a sample, and the latest 64)
            continue
        out.append([[["SubstKeyKeepSig", (subs[j] + d[n - S:]).hex(), None],
                     ["Resign", (subs[j] + k.signature(subs[j])).hex(), hints[i]]], src])
    out.append(["probe", known])
    out.append([[["Noop", d.hex(), None]], list(cap.src)])
    out.append([[["Resign", (d[:n - S] + w.keys[att].signature(d[:n - S])).hex(), att]], src])
    return history, out


# =====================================================================================================
# the driver's own reading of a datagram (independent of lazy_community / keyvault)
# =====================================================================================================
class Parsed:
    __slots__ = ("n", "prefix", "msgid", "keybytes", "pk", "bstart", "siglen", "body", "sig")


_PK_CACHE = {}


def rust_key(keybytes):
    if keybytes is None:
        return None
    if keybytes not in _PK_CACHE:
        from ipv8_rust_tunnels import PublicKey
        try:
            _PK_CACHE[keybytes] = PublicKey(keybytes)
        except Exception:  # noqa: BLE001
            _PK_CACHE[keybytes] = None
        if len(_PK_CACHE) > 20000:
            _PK_CACHE.clear()
    return _PK_CACHE.get(keybytes)


def parse(data):
    p = Parsed()
    n = p.n = len(data)
    p.prefix = data[:22] if n >= 22 else None
    p.msgid = data[22] if n >= 23 else None
    p.keybytes = p.pk = p.sig = None
    p.bstart = 25
    p.siglen = 0
    if n >= 25:
        klen = struct.unpack(">H", data[23:25])[0]
        if n >= 25 + klen:
            p.keybytes = data[25:25 + klen]
            p.bstart = 25 + klen
    p.pk = rust_key(p.keybytes)
    if p.pk is not None:
        p.siglen = p.pk.get_signature_length()
        if n >= p.bstart + p.siglen:
            p.body, p.sig = data[p.bstart:n - p.siglen], data[n - p.siglen:]
        else:
            p.body = data[p.bstart:]
    else:
        p.body = data[25:] if n > 25 else b""
    return p


def verifies(pk, data, siglen):
    if pk is None or len(data) <= siglen:
        return False
    try:
        return bool(pk.verify(data[len(data) - siglen:], data[:len(data) - siglen]))
    except Exception:  # noqa: BLE001
        return False


class Abstractor:
    """Concrete bytes -> the abstract datagram of Auth.tla, relative to one base capture (and one splice donor)."""

    def __init__(self, world, prefix_names, base, donor=None, orig_src=None):
        self.w, self.prefix_names = world, prefix_names
        self.orig_src = tuple(orig_src) if orig_src is not None else None
        self.base_p = parse(base)
        self.donor_p = parse(donor) if donor is not None else None
        self.base_d = None
        self.donor_d = None
        self.base_d = self.abstract(base)
        if donor is not None:
            self.donor_d = self.abstract(donor)

    def keyname(self, p):
        if p.keybytes is None or p.pk is None:
            return "nokey"
        return self.w.keyname.get(p.keybytes, "kx")

    def content(self, data, p=None):
        p = p or parse(data)
        body = "b1"
        if p.n < 23:
            body = "b?"
        elif p.body == self.base_p.body:
            body = "b0"
        elif self.donor_p is not None and p.body == self.donor_p.body:
            body = "b2"
        return {"prefix": self.prefix_names.get(p.prefix, "p?"), "msgid": 256 if p.msgid is None else p.msgid,
                "key": self.keyname(p), "body": body}

    def abstract(self, data, signer_hint=None):
        p = parse(data)
        c = self.content(data, p)
        sig = None
        if p.sig is not None and verifies(p.pk, data, p.siglen):
            sig = {"kind": "sig", "signer": c["key"], "covers": dict(c)}       # valid under the carried key
        if sig is None:
            for q, d in ((self.base_p, self.base_d), (self.donor_p, self.donor_d)):
                if q is not None and d is not None and q.sig and p.n > len(q.sig) and data[-len(q.sig):] == q.sig:
                    sig = d["sig"]                                            # the unchanged signature of a known datagram
                    break
        if sig is None and signer_hint is not None:                            # the adversary says who signed: confirm
            if signer_hint.startswith("pk:"):                                  # (one key of a crowd: its serialized form)
                pkbin = bytes.fromhex(signer_hint[3:])
                signer_hint = self.w.keyname[pkbin]
            else:
                pkbin = self.w.pubs[signer_hint]
            pk = rust_key(pkbin)
            if verifies(pk, data, pk.get_signature_length()):
                sig = {"kind": "sig", "signer": signer_hint, "covers": dict(c)}
        if sig is None:
            sig = GARBAGE if p.sig is not None else NO_SIG
        d = dict(c)
        d["sig"] = sig
        return d

    def addrname(self, addr):
        """Abstract address of Auth.tla: where the honest sender of the base capture lives, the adversary's, other."""
        t = tuple(addr)
        return "a_orig" if t == self.orig_src else "a_att" if t == tuple(ATTACKER_SRC) else "a_x"

    def bookabs(self, book, final=None):
        """Network.verified_peers (key bin -> addresses) -> sorted [[key name, address name], ...]"""
        carried = parse(final).keybytes if final is not None else None
        out = set()
        for kb, addrs in book.items():
            kn = self.w.keyname.get(kb) or ("kx" if kb == carried or kb in self.w.strangers.values() else "ky")
            for a in addrs:
                out.add((kn, self.addrname(a)))
        return [list(x) for x in sorted(out)]

    def peername(self, peer, data):
        """Name of the key of the Peer object the handler received."""
        try:
            kb = peer.public_key.key_to_bin()
        except Exception:  # noqa: BLE001
            return "nokey"                      # the handler got an address, not a Peer
        p = parse(data)
        if p.keybytes is not None and kb == p.keybytes:
            return self.keyname(p)
        return self.w.keyname.get(kb, "ky")


# =====================================================================================================
# mutations
# =====================================================================================================
def varlen_key(kb):
    return struct.pack(">H", len(kb)) + kb


class Recipe:
    __slots__ = ("steps", "src", "target", "state", "valid", "core")

    def __init__(self, steps, src="att", target=None, valid=False, core=False):
        self.steps = steps      # [(mutation name, bytes, signer hint)]  each applied on top of the previous one
        self.src = src          # "orig" | "att" | "other" : the source address the datagram is delivered from
        self.target = target    # overlay class that receives it (None = the class of the capture)
        self.valid = valid      # carries a valid signature of its carried key (sessions deliver these last)
        self.core = core        # forgery families that sessions deliver again after the valid ones


def src_addr(r_src, cap):
    return cap.src if r_src == "orig" else OTHER_SRC if r_src == "other" else ATTACKER_SRC


def mutations(w, cap, donor, tier, rng, state, other_prefixes, registered, light, step=8):
    """All mutated variants of one capture. `light` = sparse byte-level families (second receiver state in quick)."""
    d = cap.data
    p = parse(d)
    n, bs, S = p.n, p.bstart, p.siglen
    out = [Recipe([("Noop", d, None)], "orig", valid=True), Recipe([("Noop", d, None)], "att", valid=True)]
    curve25519 = p.keybytes.startswith(b"LibNaCLPK:")
    att = "att" if curve25519 else "att2"
    attkey = w.keys[att]
    step = step if light else 1
    bits = range(8) if (tier == "thorough" and not light) else None

    def region(i):
        return ("FlipPrefix" if i < 22 else "FlipMsgId" if i == 22 else "FlipKey" if i < bs else
                "FlipBody" if i < n - S else "FlipSig")
    # (a) a flipped bit at every byte position
    for i in range(0, n, step):
        for bit in (bits if bits is not None else [(i * 5 + rng.randrange(8)) % 8]):
            m = bytearray(d)
            m[i] ^= 1 << bit
            out.append(Recipe([(region(i), bytes(m), None)], "att" if (i + bit) % 2 else "orig"))
    # (b) every truncation length
    for m in range(0, n, step):
        out.append(Recipe([("Truncate", d[:m], None)], "att" if m % 2 else "orig"))
    out.append(Recipe([("Truncate", d[:n - S], None)]))          # exactly the signature cut off
    # (c) extensions
    out.append(Recipe([("Extend", d + b"\x00", None)]))
    out.append(Recipe([("Extend", d + bytes(rng.randrange(256) for _ in range(S)), None)]))
    out.append(Recipe([("FlipBody", d + d[n - S:], None)]))      # the old signature again behind the datagram
    # (d) whole-signature replacements
    for filler in (b"\x00" * S, b"\xff" * S, bytes(rng.randrange(256) for _ in range(S))):
        out.append(Recipe([("FlipSig", d[:n - S] + filler, None)], core=filler[:1] == b"\x00"))
    out.append(Recipe([("FlipSig", d[:n - S] + bytes(rng.randrange(256) for _ in range(S)), None)], "other"))
    # (e) key substitution, signature kept (same curve: same lengths)
    for kn in ("h1", "h2", "h3", "rcv", att):
        kb = w.keys[kn].pub().key_to_bin()
        if kb != p.keybytes and kb.startswith(b"LibNaCLPK:") == curve25519:
            out.append(Recipe([("SubstKeyKeepSig", d[:23] + varlen_key(kb) + d[bs:], None)], core=kn == att))
    # (f) signature from another key over the unchanged content
    out.append(Recipe([("Resign", d[:n - S] + attkey.signature(d[:n - S]), att)], core=True))
    out.append(Recipe([("Resign", d[:n - S] + attkey.signature(d[:n - S]), att)], "orig"))
    out.append(Recipe([("Resign", d[:n - S] + attkey.signature(d[:n - S]), att)], "other"))
    # (g) the adversary's own, valid message: key substituted AND re-signed (handler may run, peer = attacker)
    sub = d[:23] + varlen_key(attkey.pub().key_to_bin()) + d[bs:n - S]
    own = sub + attkey.signature(sub)
    out.append(Recipe([("SubstKeyKeepSig", sub + d[n - S:], None), ("Resign", own, att)], valid=True))
    out.append(Recipe([("SubstKeyKeepSig", sub + d[n - S:], None), ("Resign", own, att)], "orig", valid=True))   # spoofed source address
    # (h) altered body, then re-signed by the adversary under the honest key's name
    if n - S > bs:
        fb = bytearray(d)
        fb[bs + (n - S - bs) // 2] ^= 0x10
        fb = bytes(fb)
        out.append(Recipe([("FlipBody", fb, None), ("Resign", fb[:n - S] + attkey.signature(fb[:n - S]), att)],
                          core=True))
    # (h') the key of a stranger (nobody the receiver ever met) in the header, signed by the adversary's own key
    wkb = w.strangers[curve25519]
    if len(wkb) == len(p.keybytes):
        named = d[:23] + varlen_key(wkb) + d[bs:n - S]
        for src in ("att", "orig"):
            out.append(Recipe([("FlipKey", named + d[n - S:], None), ("Resign", named + attkey.signature(named), att)],
                              src, core=src == "att"))
    # (i) splices with a second honest datagram of the same overlay
    if donor is not None:
        q = parse(donor.data)
        if q.body != p.body:
            out.append(Recipe([("SpliceBody", d[:bs] + q.body + d[n - S:], None)]))
        if q.siglen == S and q.sig != p.sig:
            out.append(Recipe([("SpliceSig", d[:n - S] + q.sig, None)]))
    # (j) the unsigned twin: no key, no signature (what a handler registered as unsigned would accept)
    out.append(Recipe([("StripAuth", d[:23] + p.body, None)]))
    out.append(Recipe([("FlipKey", d[:23] + p.body + p.sig, None)]))      # key field cut out, signature kept
    # (k) message-id swap to every id the receiving overlay registers
    for m2 in registered:
        if m2 != p.msgid:
            out.append(Recipe([("FlipMsgId", d[:22] + bytes([m2]) + d[23:], None)]))
    # (l) replay into every other overlay class, as it is and with the prefix swapped to theirs
    if not light:
        for cn, pfx in other_prefixes.items():
            out.append(Recipe([("Noop", d, None)], "orig", cn))
            if pfx != p.prefix:
                out.append(Recipe([("FlipPrefix", pfx + d[22:], None)], "att", cn))
    for r in out:
        r.state = state
    return out


def observe(ab, steps, final, res, target, auth_table, src):
    """What the driver logs for one delivery: the abstract mutation steps and the deliver event."""
    steps_ev, frm = [], "base"
    for (name, data, hint) in steps:
        steps_ev.append({"k": "mut", "name": name, "from": frm, "d": ab.abstract(data, hint)})
        frm = "cur"
    dfin = steps_ev[-1]["d"]
    is_auth = dfin["msgid"] in auth_table[target]
    newv = [ab.w.keyname.get(kb) or ("kx" if kb == parse(final).keybytes else "ky") for kb in res["newv"]]
    entered = bool(res["entered"])
    peer = "nokey"
    touched = sorted(set(res.get("touched") or ()))
    if res["entered"]:
        peer = ab.peername(res["entered"][0][1], final)
    elif is_auth and (res["sent"] or newv or touched):
        # hand-written handler (no decorated inner function), or code that runs before the decorated function is
        # reached: its effects (datagrams sent, verified peers, records kept about a key) show that it ran
        entered = True
        peer = newv[0] if newv else dfin["key"]
    elif not is_auth and (res["sent"] or newv or touched):
        entered = True
    return steps_ev, {"k": "deliver", "o": target, "entered": entered, "peer": peer, "newv": newv,
                      "src": ab.addrname(src), "book": ab.bookabs(res["book"], final), "touched": touched}


def abs_valid(d):
    return d["sig"]["kind"] == "sig" and d["sig"]["signer"] == d["key"] and \
        d["sig"]["covers"] == {k: d[k] for k in ("prefix", "msgid", "key", "body")}


def group_key(steps_ev, dev, book_before):
    """Deliveries with the same key are the same step of Auth.tla: one event in the trace stands for all of them.
    The source address of a delivery that ran no handler and left the table alone does not matter to the spec."""
    inert = not dev["entered"] and not dev["newv"] and dev["book"] == book_before
    return json.dumps([steps_ev, dict(dev, src="*") if inert else dev, book_before], sort_keys=True)


def head_events(ab, cname, donor_cname, acquainted=()):
    """acquaintances of the receiving overlays (history), send of the splice donor (if it is a valid honest
    datagram) and send / inject of the base capture"""
    valid = abs_valid
    events = [{"k": "acq", "o": o, "key": key, "src": addr} for (o, key, addr) in acquainted]
    if ab.donor_d is not None and valid(ab.donor_d):
        events.append({"k": "send", "o": donor_cname, "d": ab.donor_d})
    events.append({"k": "send" if valid(ab.base_d) else "inject", "o": cname, "d": ab.base_d})
    return [full(e, cname, "base") for e in events]


def full(e, target, frm="cur"):
    e = dict(e)
    for k, v in (("o", target), ("entered", False), ("peer", "nokey"), ("newv", []), ("name", ""), ("from", frm),
                 ("src", "a_x"), ("book", []), ("key", "nokey"), ("d", BLANK), ("touched", []), ("kres", [])):
        e.setdefault(k, v)
    return e


# =====================================================================================================
# session: a history of deliveries to ONE receiving node, then forged input (state is never reset)
# =====================================================================================================
class StrangersInTable(Exception):
    """The verified-peer table of a resident node holds keys that nobody in the scenario owns."""


def probe_keys(w, ab, keybins):
    """Ask the real key vault what each serialized key resolves to (variable kres of Auth.tla): [[name, name of the
    key object that ECCrypto.key_from_public_bin returns], ...]"""
    out = []
    for kb in keybins:
        nm = w.keyname.get(kb)
        if nm is None:
            continue
        try:
            got = w.ec.key_from_public_bin(kb).key_to_bin()
        except Exception:  # noqa: BLE001
            continue
        out.append([nm, nm if got == kb else w.keyname.get(got, "ky")])
    return out


def run_session(w, cname, ab, donor_cname, history, deliveries, auth_table, stats=None, rcv=None, notes=True):
    """history: [[kind "send"|"inject", datagram hex, src]] valid datagrams that make their senders verified peers;
    deliveries: [[[[mutation, hex, signer hint], ...], src]] or ["probe", [key hex, ...]] (what do these serialized
    keys resolve to now?).  rcv = a resident receiving node (its verified-peer table as it stands is the history:
    acquaintances).  -> (events of one trace, one record per delivery)"""
    own = rcv is None
    if own:
        rcv = Receiver(w, cname)
    events, records = [], []
    try:
        for kind, hx, src in history:
            data = bytes.fromhex(hx)
            d = ab.abstract(data)
            if not abs_valid(d) or (kind == "send") != (d["key"] in ("h1", "h2", "h3")):
                raise MachineryError("session history of %s: %s of a datagram that is not a valid one: %s" % (cname, kind, d))
            res = rcv.deliver(data, tuple(src), keep=True, notes=notes)
            _steps, dev = observe(ab, [("Noop", data, None)], data, res, cname, auth_table, tuple(src))
            if [d["key"], ab.addrname(src)] not in dev["book"] or not dev["entered"]:
                raise MachineryError("session history of %s: the valid introduction-request of %s did not make him a "
                                     "verified peer at his address: %s" % (cname, d["key"], dev))
            events.append(full({"k": kind, "d": d}, cname, "base"))
            events.append(full(dict(dev, d=d), cname))
        acq = []
        if not own:
            acq = [(cname, k, a) for (k, a) in ab.bookabs(rcv.book())]
            if any(k not in ("h1", "h2", "h3", "att", "att2") for (_o, k, _a) in acq):
                # (only on a tree that breaks the property: an earlier trace of this node shows how they got in)
                raise StrangersInTable("resident node of %s knows keys outside the scenario: %s" % (cname, acq))
        book_now = events[-1]["book"] if events else sorted([k, a] for (_o, k, a) in acq)
        events += head_events(ab, cname, donor_cname, acq)
        seen = {}
        for pos, item in enumerate(deliveries):
            if item[0] == "probe":
                pairs = probe_keys(w, ab, [bytes.fromhex(hx) for hx in item[1]])
                records.append({"probe": pairs, "emitted": True, "first_event": len(events) + 1, "n_events": 1,
                                "book_before": book_now, "mname": "probe"})
                events.append(full({"k": "probe", "kres": pairs}, cname))
                continue
            steps_hex, src = item
            steps = [(nm, bytes.fromhex(hx), hint) for nm, hx, hint in steps_hex]
            final = steps[-1][1]
            res = rcv.deliver(final, tuple(src), keep=True, notes=notes)
            steps_ev, dev = observe(ab, steps, final, res, cname, auth_table, tuple(src))
            mname = "+".join(st[0] for st in steps)
            rec = {"dev": dev, "res": res, "mname": mname, "final": final, "dfin": steps_ev[-1]["d"],
                   "book_before": book_now, "emitted": False}
            if stats is not None:
                stats["deliveries"] += 1
                stats["session_deliveries"] = stats.get("session_deliveries", 0) + 1
                stats["crashes"] += 1 if res["crashed"] else 0
                stats["entered"] += 1 if dev["entered"] else 0
                bm = stats["by_mutation"].setdefault(mname, [0, 0])
                bm[0] += 1
                bm[1] += 1 if dev["entered"] else 0
            gkey = group_key(steps_ev, dev, book_now)
            if gkey in seen:          # same datagram, same table before and after: the event is in the trace already
                rec["same_as"] = seen[gkey]
            else:
                seen[gkey] = pos
                rec.update(emitted=True, first_event=len(events) + 1, n_events=len(steps_ev) + 1)
                events += [full(e, cname) for e in steps_ev]
                events.append(full(dict(dev, d=steps_ev[-1]["d"]), cname))
            book_now = dev["book"]
            records.append(rec)
    finally:
        if own:
            rcv.close()
    return events, records


# =====================================================================================================
# one overlay class: capture, mutate, deliver, record
# =====================================================================================================
def class_job(args):
    cname, tier, seed, auth_table, prefix_table, sabotage, limit_ids = args[:7]
    families = args[7] if len(args) > 7 else ("fresh", "acquainted", "session", "resident")
    options = args[8] if len(args) > 8 else {}
    w = World()
    w.make_keys()
    rng = random.Random("%s-%s" % (seed, cname))
    auth_ids = set(auth_table[cname])
    if limit_ids:
        auth_ids &= set(limit_ids)
    per_id = 1 if tier == "quick" else 3
    chosen, pool, intros = capture_corpus(w, cname, auth_ids, per_id)
    # names of the real prefixes according to the protocol table (overlays sharing a community id share a name)
    prefix_names = {}
    for cn in CLASS_NAMES:
        prefix_names.setdefault(w.prefix_of(cn), prefix_table[cn])
    if sabotage == "nocheck":      # negative control on the REAL code: the validity check is switched off
        from ipv8.lazy_community import EZPackOverlay
        orig = EZPackOverlay._verify_signature
        EZPackOverlay._verify_signature = lambda self, auth, data: (True, orig(self, auth, data)[1])
    if sabotage == "anyknown":     # negative control on the REAL code: a signature of ANY verified peer is accepted
        from ipv8.lazy_community import EZPackOverlay
        orig = EZPackOverlay._verify_signature

        def any_known(self, auth, data):
            ok, remainder = orig(self, auth, data)
            for peer in list(self.network.verified_peers):
                n = w.ec.get_signature_length(peer.public_key)
                ok = ok or w.ec.is_valid_signature(peer.public_key, data[:-n], data[-n:])
            return ok, remainder
        EZPackOverlay._verify_signature = any_known
    if sabotage == "earlybook":    # negative control on the REAL code: the entry of the carried key is touched
        from ipv8.lazy_community import EZPackOverlay      # before the verdict on the signature is known
        orig = EZPackOverlay._verify_signature

        def early_book(self, auth, data):
            known = self.network.verified_by_public_key_bin.get(auth.public_key_bin)
            if known:
                known.add_address(w.simnet.UDPv4Address("9.9.9.9", 9999))
            return orig(self, auth, data)
        EZPackOverlay._verify_signature = early_book
    if sabotage == "earlynote":    # negative control on the REAL code: what the node records about the carried key
        from ipv8.lazy_community import EZPackOverlay      # (a liveness metric) is refreshed before the verdict is known
        orig = EZPackOverlay._verify_signature

        def early_note(self, auth, data):
            known = self.network.verified_by_public_key_bin.get(auth.public_key_bin)
            if known:
                known.last_response += 1
            return orig(self, auth, data)
        EZPackOverlay._verify_signature = early_note
    if sabotage == "stalekeys":    # negative control on the REAL code: a ring of 64 parsed keys whose index is never
        from ipv8.keyvault.crypto import ECCrypto          # cleaned up (the bytes of an overwritten key keep their slot)
        orig_parse = ECCrypto.key_from_public_bin
        ring, index, head = [None] * 64, {}, [0]

        def stale_parse(self, string):
            slot = index.get(string)
            if slot is None:
                slot = head[0]
                head[0] = (slot + 1) % len(ring)
                ring[slot] = orig_parse(self, string)
                index[string] = slot
            return ring[slot]
        ECCrypto.key_from_public_bin = stale_parse
    receivers = {}

    def receiver(cn, state, cap):
        key = (cn, state)
        acq = ()
        if state == "acquainted":
            acq = ((w.keys[cap.sender].pub().key_to_bin(), cap.src),)
            key = (cn, state, cap.sender, cap.src)
        if key not in receivers:
            receivers[key] = Receiver(w, cn, acq)
        return receivers[key]

    probe = receiver(cname, "fresh", None)
    registered = [i for i, h in enumerate(probe.ov.decode_map) if h is not None]
    stats = {"deliveries": 0, "entered": 0, "crashes": 0, "by_mutation": {}, "baseline_entered": {},
             "captured": {}, "synthesised": {}, "missing_ids": sorted(auth_ids - set(chosen)),
             "unregistered_auth_ids": sorted(i for i in auth_ids if probe.ov.decode_map[i] is None),
             "handwritten": sorted(i for i in auth_ids if probe.spyable.get(i) is False),
             "signed_but_not_in_table": []}
    other_prefixes = {cn: w.prefix_of(cn) for cn in CLASS_NAMES if cn != cname}
    traces, examples = [], []

    def file_session(state, mid, events, records, deliveries, meta):
        """one trace of a receiving node that lives through all its deliveries + one example per distinct event"""
        for pos, rec in enumerate(records):
            if not rec["emitted"]:
                examples[records[rec["same_as"]]["example"]]["count"] += 1
                continue
            rec["example"] = len(examples)
            if "probe" in rec:
                examples.append({"overlay": cname, "capture_overlay": cname, "msgid": mid, "state": state,
                                 "mutation": "probe", "datagram": "", "src": [], "count": 1,
                                 "observed": {"key_resolution": rec["probe"]}, "abstract": {"msgid": mid},
                                 "acquainted": False, "first_event": rec["first_event"], "steps": [],
                                 "n_events": 1, "trace": len(traces), "session_pos": pos})
                continue
            dev, res = rec["dev"], rec["res"]
            examples.append({"overlay": cname, "capture_overlay": cname, "msgid": mid, "state": state,
                             "mutation": rec["mname"], "datagram": rec["final"].hex(), "src": deliveries[pos][1],
                             "count": 1,
                             "observed": {"entered": [e[0] for e in res["entered"]], "sent": res["sent"],
                                          "new_verified": dev["newv"], "peer": dev["peer"], "src": dev["src"],
                                          "verified_peer_table": dev["book"],
                                          "verified_peer_table_before": rec["book_before"],
                                          "records_changed": dev["touched"]},
                             "abstract": rec["dfin"], "acquainted": False, "first_event": rec["first_event"],
                             "steps": deliveries[pos][0], "n_events": rec["n_events"], "trace": len(traces),
                             "session_pos": pos})
        traces.append({"overlay": cname, "msgid": mid, "state": state, "events": events, "meta": meta})

    for mid in sorted(chosen) if set(families) & {"fresh", "acquainted", "session"} else ():
        for ci, cap in enumerate(chosen[mid]):
            stats[cap.origin == "captured" and "captured" or "synthesised"].setdefault(str(mid), 0)
            stats[cap.origin == "captured" and "captured" or "synthesised"][str(mid)] += 1
            donors = [x for x in pool if x.data != cap.data and x.sender != cap.sender] or \
                     [x for x in pool if x.data != cap.data]
            # prefer a donor of the same message id (a body that unpacks) signed with the same curve
            same = [x for x in donors if x.msgid == cap.msgid]
            donor = (same or donors or [None])[rng.randrange(len(same or donors or [None]))]
            ab = Abstractor(w, prefix_names, cap.data, donor.data if donor else None, cap.src)
            meta = {"base": cap.data.hex(), "base_src": list(cap.src), "sender": cap.sender,
                    "origin": cap.origin, "donor": donor.data.hex() if donor else None,
                    "donor_overlay": donor.cname if donor else cname,
                    "keys": {kb.hex(): kn for kb, kn in w.keyname.items()},
                    "strangers": [kb.hex() for kb in w.strangers.values()]}
            for state in [st for st in ("fresh", "acquainted") if st in families]:
                light = tier == "quick" and state == "acquainted"
                groups = {}
                acq = []
                if state == "acquainted":      # every receiving overlay of this trace knows the honest sender already
                    acq = [(cn, cap.sender, "a_orig") for cn in [cname] + ([] if light else sorted(other_prefixes))]
                events = head_events(ab, cname, donor.cname if donor else cname, acq)
                recs = mutations(w, cap, donor, tier, rng, state, other_prefixes, registered, light)
                for r in recs:
                    target = r.target or cname
                    rcv = receiver(target, state, cap)
                    final = r.steps[-1][1]
                    src = src_addr(r.src, cap)
                    res = rcv.deliver(final, src)
                    stats["deliveries"] += 1
                    if res["crashed"]:
                        stats["crashes"] += 1
                    steps_ev, dev = observe(ab, r.steps, final, res, target, auth_table, src)
                    dfin, entered, peer, newv = steps_ev[-1]["d"], dev["entered"], dev["peer"], dev["newv"]
                    mname = "+".join(s[0] for s in r.steps)
                    bm = stats["by_mutation"].setdefault(mname, [0, 0])
                    bm[0] += 1
                    bm[1] += 1 if entered else 0
                    stats["entered"] += 1 if entered else 0
                    if mname == "Noop" and target == cname:
                        stats["baseline_entered"].setdefault(str(mid), 0)
                        stats["baseline_entered"][str(mid)] += 1 if entered else 0
                    gkey = group_key(steps_ev, dev, [[cap.sender, "a_orig"]] if state == "acquainted" else [])
                    if gkey not in groups:
                        groups[gkey] = len(examples)
                        examples.append({"overlay": target, "capture_overlay": cname, "msgid": mid, "state": state,
                                         "mutation": mname, "datagram": final.hex(), "src": list(src), "count": 0,
                                         "observed": {"entered": [e[0] for e in res["entered"]], "sent": res["sent"],
                                                      "new_verified": newv, "peer": peer, "src": dev["src"],
                                                      "verified_peer_table": dev["book"],
                                                      "verified_peer_table_before":
                                                          [[cap.sender, "a_orig"]] if state == "acquainted" else []},
                                         "abstract": dfin, "acquainted": state == "acquainted", "first_event": None,
                                         "steps": [[nm, dt.hex(), hint] for (nm, dt, hint) in r.steps],
                                         "n_events": len(steps_ev) + 1})
                        ex = groups[gkey]
                        examples[ex]["first_event"] = len(events) + 1      # 1-based index in the trace
                        events += [full(e, target) for e in steps_ev]
                        events.append(full(dict(dev, d=dfin), target))
                        if res["rebuilt"]:
                            events.append(full({"k": "restart"}, target))
                        examples[ex]["trace"] = len(traces)
                    examples[groups[gkey]]["count"] += 1
                traces.append({"overlay": cname, "msgid": mid, "state": state, "events": events, "meta": meta})

            if "session" not in families:
                continue
            # ---- session: ONE receiving node lives through a history of deliveries (the honest sender and the
            # adversary both introduce themselves with their own valid datagrams), then the forgeries arrive
            att = "att" if parse(cap.data).keybytes.startswith(b"LibNaCLPK:") else "att2"
            history = [["send", intros[cap.sender][0].hex(), list(cap.src)],
                       ["inject", intros[att][0].hex(), list(ATTACKER_SRC)]]
            recs = mutations(w, cap, donor, tier, rng, "session", other_prefixes, registered, True, step=16)
            recs = [r for r in recs if not r.valid] + [r for r in recs if r.valid] + [r for r in recs if r.core]
            deliveries = [[[[nm, dt.hex(), hint] for (nm, dt, hint) in r.steps], list(src_addr(r.src, cap))] for r in recs]
            events, records = run_session(w, cname, ab, donor.cname if donor else cname, history, deliveries,
                                          auth_table, stats, notes=tier != "quick")
            file_session("session", mid, events, records, deliveries,
                         dict(meta, history=history, session_deliveries=deliveries))

    # ---- residents: the receiving node took part in the protocol scenario itself (four real nodes: routing table,
    # stored peers, tokens, request caches as the real code left them), then the forgeries arrive; once more after
    # a minute of silence (timeouts have fired).  Everything the node records about any key is compared before and
    # after every delivery (deliver.touched / variable `noted` of Auth.tla).
    if "resident" in families:
        res_rcv, res_caps, res_pool = resident_world(w, cname, auth_ids)
        plan = [(mid, cap, False) for mid, cap in sorted(res_caps.items())]
        plan += [(mid, cap, True) for mid, cap in sorted(res_caps.items())]
        for mid, cap, late in plan:
            if late and not stats.get("resident_silence"):
                w.loop.advance(RESIDENT_SILENCE)
                res_rcv._tables_now = res_rcv._records_now = None
                stats["resident_silence"] = RESIDENT_SILENCE
            donors = [x for x in res_pool if x.data != cap.data and x.sender != cap.sender] or \
                     [x for x in res_pool if x.data != cap.data]
            same = [x for x in donors if x.msgid == cap.msgid]
            donor = (same or donors or [None])[rng.randrange(len(same or donors or [None]))]
            ab = Abstractor(w, prefix_names, cap.data, donor.data if donor else None, cap.src)
            meta = {"base": cap.data.hex(), "base_src": list(cap.src), "sender": cap.sender, "origin": cap.origin,
                    "donor": donor.data.hex() if donor else None, "donor_overlay": cname,
                    "keys": {kb.hex(): kn for kb, kn in w.keyname.items()},
                    "strangers": [kb.hex() for kb in w.strangers.values()], "seed": seed, "tier": tier}
            recs = mutations(w, cap, donor, tier, rng, "resident", other_prefixes, registered, True,
                             step=48 if tier == "quick" else 8)
            if late:
                recs = [r for r in recs if r.core or r.steps[-1][0] == "Resign"]
            else:
                recs = [r for r in recs if not r.valid] + [r for r in recs if r.valid] + [r for r in recs if r.core]
            deliveries = [[[[nm, dt.hex(), hint] for (nm, dt, hint) in r.steps], list(src_addr(r.src, cap))] for r in recs]
            try:
                events, records = run_session(w, cname, ab, cname, [], deliveries, auth_table, stats, rcv=res_rcv)
            except StrangersInTable as e:
                stats["resident_stopped"] = str(e)      # the traces so far are judged; no verdict without a violation
                break
            stats["resident_deliveries"] = stats.get("resident_deliveries", 0) + len(deliveries)
            file_session("resident", mid, events, records, deliveries, dict(meta, late=late))

    # ---- crowds: a long history of valid datagrams under ever new keys (all of them the adversary's), then datagrams
    # that carry the honest sender's key - or the previous key of the crowd - signed with each key of the crowd
    if "crowd" in families:
        order = sorted(chosen)
        first = options.get("crowd_first", order[0])
        order = [m for m in order if m >= first] + [m for m in order if m < first]

        def crowd_cap(mid):
            return ([cp for cp in chosen[mid] if cp.sender != "h2"] or chosen[mid])[0]

        def grows(mid):
            """does a valid copy of this message under a new key enter the verified-peer table? (three new keys)"""
            cap = crowd_cap(mid)
            _h, dl = crowd_plan(w, cap, intros, 3, register=False)
            rcv = Receiver(w, cname)
            try:
                for item in dl:
                    if item[0] != "probe" and item[0][-1][0] == "Resign" and len(item[0]) == 2:
                        rcv.deliver(bytes.fromhex(item[0][-1][1]), tuple(item[1]), keep=True)
                return len(rcv.book()) > 0
            finally:
                rcv.close()

        # the long crowd goes around the first message (from the seed's choice on) that leaves the table alone - reading
        # a table of thousands of entries after every delivery is quadratic -, a short one around the seed's choice
        size = options.get("crowd") or CROWD[tier]
        plan = []
        if grows(order[0]):
            plan.append((order[0], min(size, CROWD_SHORT)))
            calm = next((m for m in order[1:] if not grows(m)), None)
            if calm is not None:
                plan.append((calm, size))
        else:
            plan.append((order[0], size))
        for mid, n_keys in plan:
            cap = crowd_cap(mid)
            ab = Abstractor(w, prefix_names, cap.data, None, cap.src)
            meta = {"base": cap.data.hex(), "base_src": list(cap.src), "sender": cap.sender, "origin": cap.origin,
                    "donor": None, "donor_overlay": cname, "strangers": [kb.hex() for kb in w.strangers.values()],
                    "seed": seed, "tier": tier, "crowd": n_keys}
            history, deliveries = crowd_plan(w, cap, intros, n_keys)
            meta["keys"] = {kb.hex(): kn for kb, kn in w.keyname.items() if not kn.startswith("c")}
            events, records = run_session(w, cname, ab, cname, history, deliveries, auth_table, stats, notes=False)
            stats["crowd_deliveries"] = stats.get("crowd_deliveries", 0) + len(deliveries)
            stats.setdefault("crowds", []).append([mid, n_keys])
            file_session("crowd", mid, events, records, deliveries, dict(meta, history=history))
    for rcv in receivers.values():
        rcv.close()
    stats["receiver_builds"] = sum(r.builds for r in receivers.values())
    stats.setdefault("session_deliveries", 0)
    # decorated-as-signed handlers that the protocol table does not list (informational)
    for i in registered:
        h = probe.ov.decode_map[i]
        q = getattr(getattr(getattr(h, "__func__", h), "__code__", None), "co_qualname", "")
        if i not in auth_table[cname] and q.startswith(("lazy_wrapper.<locals>", "lazy_wrapper_wd.<locals>")):
            stats["signed_but_not_in_table"].append(i)
    return {"cname": cname, "traces": traces, "examples": examples, "stats": stats}


# =====================================================================================================
# TLC
# =====================================================================================================
def read_tables(output):
    i = output.find('<< "AuthTable"')
    if i < 0:
        raise MachineryError("Auth.tla did not print its protocol table")
    j = output.find(">>", i)
    depth, k = 0, i
    while k < len(output):          # find the matching >>
        if output.startswith("<<", k):
            depth += 1
            k += 2
            continue
        if output.startswith(">>", k):
            depth -= 1
            k += 2
            if depth == 0:
                j = k
                break
            continue
        k += 1
    val = parse_value(output[i:j])
    auth = {k: sorted(v) for k, v in val[1].items()}
    pfx = dict(val[2])
    return auth, pfx


def validate(traces, tag, ctx=None):
    """-> (ok, tid, l, result)"""
    tmp = scratch_dir("c01t-")
    try:
        path = os.path.join(tmp, "traces.json")
        with open(path, "w", encoding="utf-8") as f:
            json.dump([{"events": t["events"]} for t in traces], f)
        r = run_tlc("AuthTrace.tla", "AuthTrace.cfg", env={"TRACE_FILE": path}, coverage=False)
    finally:
        shutil.rmtree(tmp, ignore_errors=True)
    if ctx is not None:
        ctx.add_tlc(tag, r)
    if r.ok:
        return True, None, None, r
    import re
    tids = re.findall(r"^/\\ tid = (\d+)", r.output, re.M)
    ls = re.findall(r"^/\\ l = (\d+)", r.output, re.M)
    return False, int(tids[-1]) if tids else None, int(ls[-1]) if ls else None, r


def validate_controls(groups):
    """groups: [(name, traces)] -> {name: True iff Auth.tla rejects at least one trace of the group}.
    One TLC run for all of them (-continue: every rejected trace is reported with its tid)."""
    import re
    flat, owner = [], []
    for name, traces in groups:
        for t in traces:
            flat.append(t)
            owner.append(name)
    tmp = scratch_dir("c01c-")
    try:
        path = os.path.join(tmp, "traces.json")
        with open(path, "w", encoding="utf-8") as f:
            json.dump([{"events": t["events"]} for t in flat], f)
        r = run_tlc("AuthTrace.tla", "AuthTrace.cfg", env={"TRACE_FILE": path}, coverage=False, continue_=True)
    finally:
        shutil.rmtree(tmp, ignore_errors=True)
    rejected = {int(x) for x in re.findall(r"^/\\ tid = (\d+)", r.output, re.M)}
    fired = {name: False for name, _ in groups}
    for tid in rejected:
        if 1 <= tid <= len(owner):
            fired[owner[tid - 1]] = True
    return fired


def merge_parts(parts):
    """Jobs of the same overlay class -> one result per class (trace indexes of the examples shifted)."""
    by = {}
    for p in parts:
        r = by.get(p["cname"])
        if r is None:
            by[p["cname"]] = p
            continue
        shift = len(r["traces"])
        for ex in p["examples"]:
            ex["trace"] += shift
        r["traces"] += p["traces"]
        r["examples"] += p["examples"]
        a, b = r["stats"], p["stats"]
        for k in ("deliveries", "entered", "crashes", "receiver_builds", "session_deliveries"):
            a[k] += b[k]
        for k in ("resident_deliveries", "crowd_deliveries"):
            a[k] = a.get(k, 0) + b.get(k, 0)
        if b.get("resident_stopped"):
            a["resident_stopped"] = b["resident_stopped"]
        for k in ("baseline_entered", "captured", "synthesised"):
            for i, v in b[k].items():
                a[k][i] = a[k].get(i, 0) + v
        for k in ("missing_ids", "unregistered_auth_ids", "handwritten", "signed_but_not_in_table"):
            a[k] = sorted(set(a[k]) | set(b[k]))
        for m, v in b["by_mutation"].items():
            w = a["by_mutation"].setdefault(m, [0, 0])
            w[0] += v[0]
            w[1] += v[1]
    return [by[cn] for cn in CLASS_NAMES if cn in by]


def describe(ex, ev, violated):
    """-> (signature, description) of a deliver event that Auth.tla rejects"""
    if not ex:
        return "event", "rejected deliver event %s" % ev
    obs = ex["observed"]
    if ev["k"] == "probe":
        wrong = [q for q in ev["kres"] if q[0] != q[1]]
        return "%s:%s:keymemory" % (ex["overlay"], ex["abstract"]["msgid"]), (
            "after a long history of valid datagrams under many different keys (a crowd of the adversary's keys, "
            "receiving overlay %s) ECCrypto.key_from_public_bin resolves the serialized key of %s to the key object of "
            "another key (%s): Auth.tla demands kres[k] = k whatever was parsed before (KeyResolution) - signatures "
            "made by that other key will be accepted for datagrams that carry this one [%s]" % (
                ex["overlay"], [q[0] for q in wrong], wrong, violated))
    if ex["state"] in ("resident", "session") and obs.get("records_changed") and not obs.get("entered"):
        return "%s:%s:%s:records" % (ex["overlay"], ex["abstract"]["msgid"], ex["mutation"]), (
            "a datagram (%s of message %d) without a valid signature of the key it carries changed what %s records about "
            "%s (receiving node in state '%s': every Peer / Node object and every entry filed under a key, anywhere "
            "in the overlay, compared before and after; no decorated handler function was entered) - code of an "
            "authenticated handler ran with effect before the verdict on the signature: abstract datagram %s, observed %s "
            "[%s]" % (ex["mutation"], ex["abstract"]["msgid"], ex["overlay"], obs["records_changed"], ex["state"],
                      json.dumps(ex["abstract"], sort_keys=True), json.dumps(obs, sort_keys=True), violated))
    tail = "abstract datagram %s, receiver state %s, observed %s [%s]" % (
        json.dumps(ex["abstract"], sort_keys=True), ex["state"], json.dumps(obs, sort_keys=True), violated)
    sig = "%s:%s:%s" % (ex["overlay"], ex["abstract"]["msgid"], ex["mutation"])
    if not ev["entered"] and obs.get("verified_peer_table") != obs.get("verified_peer_table_before"):
        return sig + ":table", (
            "a datagram (%s of message %d) that %s rejected (no handler ran) changed the verified-peer table of the node "
            "from %s to %s - an entry was attributed to a datagram that Auth.tla does not allow to have any effect: %s" % (
                ex["mutation"], ex["abstract"]["msgid"], ex["overlay"], obs.get("verified_peer_table_before"),
                obs.get("verified_peer_table"), tail))
    return sig, ("handler of authenticated message %d of %s ran for a datagram (%s) in a way that Auth.tla does not allow "
                 "(signature not valid under the carried key over everything, peer other than the carried key, or the "
                 "verified-peer entry of another key changed): %s" % (
                     ex["abstract"]["msgid"], ex["overlay"], ex["mutation"], tail))


def example_at(res_examples, trace_index, l):
    best = None
    for ex in res_examples:
        if ex.get("trace") == trace_index and ex["first_event"] <= l < ex["first_event"] + ex["n_events"]:
            best = ex
    return best


def _job_main(conn, job):
    try:
        out = ("ok", class_job(job))
    except MachineryError as e:
        out = ("machinery", str(e))
    except BaseException as e:  # noqa: BLE001
        import traceback
        out = ("error", "%r\n%s" % (e, traceback.format_exc()[-1500:]))
    try:
        conn.send(out)
    finally:
        conn.close()


class JobRunner:
    """One forked process per delivery job (fresh interpreter state for every job), at most `nproc` at a time.
    A worker that dies without an answer (e.g. killed by the kernel under memory pressure) is noticed - its pipe
    closes - and the job is started again once; multiprocessing.Pool would wait for it forever."""

    def __init__(self, nproc):
        self.nproc = nproc
        self.mp = multiprocessing.get_context("fork")
        self.running = {}     # job index -> (process, connection)

    def _start(self, i, job):
        parent, child = self.mp.Pipe(duplex=False)
        p = self.mp.Process(target=_job_main, args=(child, job), daemon=True)
        p.start()
        child.close()
        self.running[i] = (p, parent)

    def run_all(self, jobs, timeout):
        import time as _time
        from multiprocessing.connection import wait
        deadline = _time.monotonic() + timeout
        pending = list(range(len(jobs)))
        tries = [0] * len(jobs)
        results = [None] * len(jobs)
        while pending or self.running:
            while pending and len(self.running) < self.nproc:
                i = pending.pop(0)
                tries[i] += 1
                self._start(i, jobs[i])
            if _time.monotonic() > deadline:
                raise MachineryError("delivery jobs did not finish within %ss" % timeout)
            ready = wait([c for (_p, c) in self.running.values()], timeout=5)
            for i in [i for i, (_p, c) in self.running.items() if c in ready]:
                p, c = self.running.pop(i)
                try:
                    kind, val = c.recv()
                except (EOFError, OSError):
                    kind, val = "died", "worker process ended without a result (exit code %s)" % p.exitcode
                c.close()
                p.join(timeout=10)
                if kind == "ok":
                    results[i] = val
                elif kind == "died" and tries[i] < 2:
                    pending.insert(0, i)
                elif kind == "machinery":
                    raise MachineryError(val)
                else:
                    raise MachineryError("delivery job for %s %s failed: %s" % (jobs[i][0], jobs[i][6], val))
        return results

    def terminate(self):
        for p, c in self.running.values():
            try:
                p.kill()
                c.close()
            except Exception:  # noqa: BLE001
                pass
        self.running.clear()


def run(tier, seed, replay=None):
    ctx = Ctx(PID, tier, seed, "model_checking")
    ctx.cov["rule"] = ("TLC: every behaviour of Auth.tla (honest sends x adversary mutations x deliveries to every overlay) "
                       "for small constants. Binding: one evaluation = one real (mutated) datagram handed to "
                       "endpoint.notify_listeners of a real overlay and abstracted into a deliver event; TLC validates "
                       "every distinct event against Run/Drop of Auth.tla with the hand-written table; non-trivial = "
                       "distinct (overlay class, message id, receiver state, mutation, abstract datagram, outcome) groups; "
                       "every deliver event carries the source address and the verified-peer table (key -> addresses) "
                       "read from the real Network afterwards; sessions = histories of deliveries into one receiving "
                       "node (honest and adversarial introductions first, forged input afterwards); residents = the "
                       "receiving node took part in a protocol scenario of four real nodes, every record it keeps about "
                       "any key is compared before / after each delivery (deliver.touched), forgeries arrive again after "
                       "65 s of silence; crowds = thousands of valid datagrams under new keys, then forgeries signed by "
                       "each of them (+ probes of ECCrypto.key_from_public_bin: kres)")
    ctx.assumptions += ["signature primitives of ipv8_rust_tunnels are trusted (used directly by the driver to decide validity)",
                        "mutations are the finite family listed in DESIGN.md over real captures, not all byte strings",
                        "entry of hand-written handlers (no decorated inner function: DiscoveryCommunity 246) is "
                        "observed through their effects (datagrams sent, verified peers added)",
                        "cells of (Hidden)TunnelCommunity (decode_map_private) are protected by circuit keys: not covered",
                        "addresses are abstracted to three names (the honest sender's, the adversary's, any other): a "
                        "change between two 'other' addresses is not seen",
                        "histories are introductions (message 246) of the honest sender and of the adversary followed by "
                        "the mutation families; the scenario of the resident nodes (introductions, DHT store / find, "
                        "store-peer / connect-peer) followed by the mutation families, again after 65 s; crowds of "
                        "%d (quick) / %d (thorough) keys: a memory of parsed keys larger than that is not wrapped" % (
                            CROWD["quick"], CROWD["thorough"]),
                        "records about a key = Peer / Node objects and container entries filed under its serialized form, "
                        "mid or node id, found by walking the overlay's object graph (endpoint, settings, tasks excluded); "
                        "state that is not filed under a key (counters, unkeyed caches, circuits) is not compared",
                        "what ANY datagram with the overlay's prefix does on arrival from a source address (Community."
                        "on_packet refreshes last_response of the peer known at that address) is applied by a 22 byte "
                        "datagram from the same address before each comparison: it is not an effect of the datagram's "
                        "content; derived caches (Network.reverse_service_lookup) are refreshed through the read API",
                        "the keys of a crowd share four abstract names: a change of one crowd key's entry by another "
                        "crowd key of the same name is not seen",
                        "in the quick tier three of the eight overlay classes get a crowd (the others with the next seeds) and the "
                        "long crowd goes around a message that does not enter the verified-peer table"]
    if replay:
        return run_replay(ctx, replay)
    pool = JobRunner(min(16, os.cpu_count() or 2))
    try:
        return _run(ctx, tier, seed, pool)
    finally:
        pool.terminate()


def _run(ctx, tier, seed, pool):
    import time as _time
    t0, timing = _time.monotonic(), {}
    # ---- specification level: the model, its deviations (negative controls), the protocol table
    tp = ThreadPoolExecutor(5)
    tp2 = ThreadPoolExecutor(2)
    f_nc = tp.submit(run_tlc, "Auth.tla", "Auth_nocheck.cfg", coverage=False)      # also prints the protocol table
    f_mc = tp.submit(run_tlc, "Auth.tla", "Auth_mc.cfg" if tier == "quick" else "Auth_big.cfg", timeout=6000)
    f_sp = tp.submit(run_tlc, "Auth.tla", "Auth_splice.cfg")
    # histories: acquaintances, two deliveries, source addresses, the verified-peer table (key -> addresses)
    f_hi = tp.submit(run_tlc, "Auth.tla", "Auth_hist.cfg", timeout=6000)
    f_extra = {}
    if tier != "quick":      # deeper instances: three mutations on one datagram; two honest datagrams and two mutations
        f_extra = {"hist2": tp2.submit(run_tlc, "Auth.tla", "Auth_hist2.cfg", timeout=6000),      # two deliveries
                   "deep": tp2.submit(run_tlc, "Auth.tla", "Auth_deep.cfg", timeout=6000),
                   "splice2": tp2.submit(run_tlc, "Auth.tla", "Auth_splice2.cfg", timeout=6000)}
    # crowds: several keys of the adversary's, an acquaintance, two deliveries; the key memory (kres) and the records
    f_cr = tp.submit(run_tlc, "Auth.tla", "Auth_crowd.cfg", timeout=6000)
    f_pa = tp.submit(run_tlc, "Auth.tla", "Auth_partial.cfg", coverage=False)
    f_he = tp.submit(run_tlc, "Auth.tla", "Auth_hist_early.cfg", coverage=False)
    f_ht = tp.submit(run_tlc, "Auth.tla", "Auth_hist_trust.cfg", coverage=False)
    f_hn = tp.submit(run_tlc, "Auth.tla", "Auth_hist_note.cfg", coverage=False)
    f_cs = tp.submit(run_tlc, "Auth.tla", "Auth_crowd_stale.cfg", coverage=False)
    r_nc = f_nc.result()
    auth_table, prefix_table = read_tables(r_nc.output)
    timing["protocol_table_read"] = round(_time.monotonic() - t0, 1)
    if sorted(auth_table) != sorted(CLASS_NAMES):
        raise MachineryError("protocol table of Auth.tla does not list the shipped overlay classes: %s" % sorted(auth_table))

    # ---- implementation level: one job per overlay class (+ the sabotaged run used as negative control)
    chunk = 6 if tier == "quick" else 2
    jobs = []
    for cn in CLASS_NAMES:
        ids = sorted(auth_table[cn])
        jobs += [(cn, tier, seed, auth_table, prefix_table, None, ids[i:i + chunk]) for i in range(0, len(ids), chunk)]
    jobs.sort(key=lambda j: -sum(1 for i in j[6] if i < 200))      # own messages are the longest: start them first
    for ci, cn in enumerate(CLASS_NAMES):      # one crowd per overlay class, around another message id for every seed
        if tier == "quick" and (ci + seed) % 4 not in (0, 1) or tier == "quick" and ci >= 4 and (ci + seed) % 4 == 1:
            continue      # (quick: three of the eight classes, others with the next seed)
        ids = sorted(auth_table[cn])
        picks = [ids[(seed * 5 + ci * 3) % len(ids)]] if tier == "quick" else ids[ci % 2::2]
        jobs += [(cn, tier, seed, auth_table, prefix_table, None, None, ("crowd",), {"crowd_first": mid}) for mid in picks]
    jobs.sort(key=lambda j: 0 if "crowd" in (j[7] if len(j) > 7 else ()) else 1)      # the longest jobs first
    n_main = len(jobs)
    jobs.append(("DHTCommunity", "quick", seed, auth_table, prefix_table, "stalekeys", None, ("crowd",),
                 {"crowd": 200, "crowd_first": 1}))
    jobs.append(("DHTCommunity", "quick", seed, auth_table, prefix_table, "earlynote", [1, 3], ("resident",)))
    jobs.append(("DHTCommunity", "quick", seed, auth_table, prefix_table, "earlybook", [1], ("acquainted", "session")))
    jobs.append(("DHTCommunity", "quick", seed, auth_table, prefix_table, "anyknown", [1, 246], ("session",)))
    jobs.append(("DHTCommunity", "quick", seed, auth_table, prefix_table, "nocheck", [1, 3, 246], ("fresh",)))
    parts = pool.run_all(jobs, timeout=6000)
    timing["delivery_jobs_done"] = round(_time.monotonic() - t0, 1)
    sabotaged = parts.pop()
    sabotaged_known = parts.pop()
    sabotaged_early = parts.pop()
    sabotaged_note = parts.pop()
    sabotaged_stale = parts.pop()
    if len(parts) != n_main:
        raise MachineryError("delivery jobs: %d results for %d jobs" % (len(parts), n_main))
    results = merge_parts(parts)

    r_mc, r_sp, r_pa, r_hi, r_he, r_ht = (f.result() for f in (f_mc, f_sp, f_pa, f_hi, f_he, f_ht))
    r_cr, r_hn, r_cs = (f.result() for f in (f_cr, f_hn, f_cs))
    tp.shutdown()
    tp2.shutdown()
    timing["model_checking_done"] = round(_time.monotonic() - t0, 1)
    timing["tlc_wall"] = {k: round(r.wall, 1) for k, r in (("mc", r_mc), ("splice", r_sp), ("hist", r_hi), ("nocheck", r_nc),
                                                            ("partial", r_pa), ("hist_early", r_he), ("hist_trust", r_ht),
                                                            ("crowd", r_cr), ("hist_note", r_hn), ("crowd_stale", r_cs))}
    for tag, r in [("mc", r_mc), ("splice", r_sp), ("hist", r_hi), ("crowd", r_cr)] + \
            [(k, f.result()) for k, f in f_extra.items()]:
        if not r.ok:
            raise MachineryError("Auth.tla (%s): TLC reports %s on the specification itself" % (tag, r.violated))
        ctx.add_tlc(tag, r)
    taken = {a: r_mc.coverage.get(a, (0, 0))[1] + r_sp.coverage.get(a, (0, 0))[1] for a in MC_ACTIONS}
    taken.update({"hist:" + a: r_hi.coverage.get(a, (0, 0))[1] for a in HIST_ACTIONS})
    taken.update({"crowd:" + a: r_cr.coverage.get(a, (0, 0))[1] for a in CROWD_ACTIONS})
    if any(v == 0 for v in taken.values()):
        raise MachineryError("vacuous model: actions never taken: %s" % [a for a, v in taken.items() if v == 0])
    ctx.control("spec that updates the verified-peer entry of the carried key before the signature verdict violates "
                "BookLegit / RejectInert", r_he.violated in ("BookLegit", "RejectInert"))
    ctx.control("spec that refreshes what the node records about the carried key before the signature verdict violates "
                "NotesLegit / RejectInert", r_hn.violated in ("NotesLegit", "RejectInert"))
    ctx.control("spec with a memory of parsed keys whose index goes stale (a key parsed earlier resolves to one parsed "
                "later) violates an invariant",
                r_cs.violated in ("AuthOnly", "NoForgedVerified", "HonestAttribution", "BookLegit", "NotesLegit"))
    ctx.control("spec that accepts a signature of the key known at the source address violates an invariant",
                r_ht.violated in ("AuthOnly", "NoForgedVerified", "HonestAttribution", "BookLegit"))
    ctx.control("spec with the validity check deleted violates an invariant",
                r_nc.violated in ("AuthOnly", "NoForgedVerified", "OverlaySeparation", "HonestAttribution"))
    ctx.control("spec whose signature does not cover prefix and message id violates an invariant",
                r_pa.violated in ("AuthOnly", "OverlaySeparation", "HonestAttribution"))
    ctx.cov["exhaustive"] = True
    ctx.note("protocol_table", auth_table)

    # ---- vacuity of the corpus
    per_class = {}
    for res in results:
        st = res["stats"]
        per_class[res["cname"]] = {k: st[k] for k in ("deliveries", "entered", "crashes", "captured", "synthesised",
                                                      "handwritten", "receiver_builds", "signed_but_not_in_table",
                                                      "session_deliveries")}
        per_class[res["cname"]].update({k: st.get(k, 0) for k in ("resident_deliveries", "crowd_deliveries")})
        per_class[res["cname"]]["by_mutation"] = {k: {"deliveries": v[0], "handler_ran": v[1]}
                                                  for k, v in sorted(st["by_mutation"].items())}
    ctx.note("deliveries", per_class)

    # ---- trace validation: every distinct event against Auth.tla
    alltraces, owner = [], []
    for ri, res in enumerate(results):
        for ti, t in enumerate(res["traces"]):
            alltraces.append(t)
            owner.append((ri, ti))
    ctl_pool = ThreadPoolExecutor(1)
    try:      # (on a tree that breaks the property the accepted events that the controls corrupt may not exist)
        controls = ctl_pool.submit(validate_controls,
                                   control_traces(alltraces, auth_table, sabotaged, sabotaged_known, sabotaged_early,
                                                  sabotaged_note, sabotaged_stale))
    except (MachineryError, StopIteration) as e:
        controls = e if isinstance(e, MachineryError) else MachineryError("no trace to make a negative control from")
    live = list(range(len(alltraces)))
    rounds = 0
    while live and rounds < 5:
        rounds += 1
        ok, tid, l, r = validate([alltraces[i] for i in live], "trace%d" % rounds, ctx)
        if ok:
            break
        if not isinstance(tid, int) or not isinstance(l, int):
            raise MachineryError("AuthTrace: TLC reports %s without a trace position:\n%s" % (r.violated, r.output[-1500:]))
        gi = live[tid - 1]
        ri, ti = owner[gi]
        res = results[ri]
        ev = alltraces[gi]["events"][l - 1] if r.violated == "TraceAccepted" else alltraces[gi]["events"][max(0, l - 2)]
        ex = example_at(res["examples"], ti, l if r.violated == "TraceAccepted" else l - 1)
        if ev["k"] not in ("deliver", "probe"):
            raise MachineryError("AuthTrace rejects a %s event of the driver's own abstraction (%s, trace of %s id %s): %s" % (
                ev["k"], r.violated, res["cname"], alltraces[gi]["msgid"], json.dumps(ev)[:600]))
        sig, what = describe(ex, ev, r.violated)
        ctx.violation(sig, what, dict(ex, **alltraces[gi]["meta"]) if ex else None)
        # drop the whole trace (one capture in one receiver state) and look for further, different violations
        live.remove(gi)
    timing["trace_validation_done"] = round(_time.monotonic() - t0, 1)
    ctx.note("timing", timing)
    ngroups = 0
    for res in results:
        for ex in res["examples"]:
            ngroups += 1
            ctx.nontrivial((ex["overlay"], ex["capture_overlay"], ex["msgid"], ex["state"], ex["mutation"],
                            json.dumps(ex["abstract"], sort_keys=True), json.dumps(ex["observed"], sort_keys=True)))
        ctx.evaluated(res["stats"]["deliveries"])
    ctx.traces(len(alltraces))
    ctx.note("trace_events", {"traces": len(alltraces), "events": sum(len(t["events"]) for t in alltraces),
                              "distinct_groups": ngroups, "tlc_rounds": rounds})
    for res in results[:3]:
        for ex in res["examples"]:
            if ex["mutation"] in ("Resign", "SubstKeyKeepSig+Resign", "FlipBody") and ex["state"] == "fresh":
                ctx.sample({k: ex[k] for k in ("overlay", "msgid", "mutation", "observed", "abstract", "count")})
                break

    if not ctx.violations:
        # valid datagrams must reach their handlers, otherwise nothing above means anything
        for res in results:
            st = res["stats"]
            if st.get("resident_stopped"):
                raise MachineryError(st["resident_stopped"] + " - and no trace shows how they got there")
            if st["unregistered_auth_ids"]:
                raise MachineryError("%s does not register the authenticated ids %s of the protocol table" % (
                    res["cname"], st["unregistered_auth_ids"]))
            if st["missing_ids"]:
                raise MachineryError("no datagram for the authenticated ids %s of %s" % (st["missing_ids"], res["cname"]))
            for mid in auth_table[res["cname"]]:
                if not res["stats"]["baseline_entered"].get(str(mid)):
                    raise MachineryError("vacuous corpus: the unmodified datagrams of %s id %d never reach the handler" % (
                        res["cname"], mid))
        # ---- negative controls of the binding (validated while the main validation was running)
        if isinstance(controls, MachineryError):
            raise controls
        for name, fired in controls.result().items():
            ctx.control(name, fired)
    ctl_pool.shutdown()
    return ctx.finish()


def control_traces(alltraces, auth_table, sabotaged, sabotaged_known, sabotaged_early, sabotaged_note, sabotaged_stale):
    """-> [(what must be rejected, traces)] : sabotaged real code and corrupted copies of accepted traces"""
    out = [("real code that refreshes a liveness metric of the carried key's peer before the signature verdict is "
            "rejected (resident receiving nodes: everything recorded about a key is compared)",
            [t for t in sabotaged_note["traces"] if t["state"] == "resident"]),
           ("real code with a ring of 64 parsed keys whose index is never cleaned up is rejected in a crowd of 200 keys",
            [t for t in sabotaged_stale["traces"] if t["state"] == "crowd"])]
    # residents: a rejected forgery that changes what the node records about the key it names
    resid = next((t for t in alltraces if t["state"] == "resident" and t["overlay"] == "DHTDiscoveryCommunity"), None) or \
        next(t for t in alltraces if t["state"] == "resident")
    bad = json.loads(json.dumps(resid))
    for e in bad["events"]:
        if e["k"] == "deliver" and not e["entered"] and e["d"]["key"] in ("h1", "h2", "h3") and not e["touched"]:
            e["touched"] = [e["d"]["key"]]
            del bad["events"][bad["events"].index(e) + 1:]
            break
    else:
        raise MachineryError("no rejected forgery at a resident node to corrupt")
    out.append(("resident trace in which a rejected forgery changes a record of the key it names is rejected", [bad]))
    # crowds: a datagram naming the honest key under a signature of a key of the crowd runs the handler; a stale key
    crowd = next(t for t in alltraces if t["state"] == "crowd")
    bad = json.loads(json.dumps(crowd))
    for e in bad["events"]:
        if e["k"] == "deliver" and not e["entered"] and e["d"]["key"] in ("h1", "h2", "h3") \
                and e["d"]["sig"]["kind"] == "sig" and e["d"]["sig"]["signer"].startswith("c"):
            e["entered"], e["peer"] = True, e["d"]["key"]
            del bad["events"][bad["events"].index(e) + 1:]
            break
    else:
        raise MachineryError("no forgery signed by a key of the crowd to corrupt")
    out.append(("crowd trace in which a datagram naming the honest key, signed by a key of the crowd, runs the handler "
                "is rejected", [bad]))
    bad = json.loads(json.dumps(crowd))
    for e in bad["events"]:
        if e["k"] == "probe" and e["kres"]:
            e["kres"][0] = [e["kres"][0][0], "c1"]
            del bad["events"][bad["events"].index(e) + 1:]
            break
    else:
        raise MachineryError("no probe of the key vault to corrupt")
    out.append(("crowd trace in which the serialized key of the honest sender resolves to a key of the crowd is "
                "rejected", [bad]))
    out += [("real code with EZPackOverlay._verify_signature forced to True is rejected", sabotaged["traces"]),
           ("real code that accepts a signature made by ANY verified peer is rejected in the sessions (history: the "
            "adversary introduced himself first)", [t for t in sabotaged_known["traces"] if t["state"] == "session"]),
           ("real code that touches the verified-peer entry of the carried key before the signature verdict is "
            "rejected (acquainted receivers and sessions)",
            [t for t in sabotaged_early["traces"] if t["state"] != "fresh"])]
    good = next(t for t in alltraces if t["overlay"] == "DiscoveryCommunity" and t["state"] == "fresh")
    bad = json.loads(json.dumps(good))
    for e in bad["events"]:
        if e["k"] == "deliver" and not e["entered"] and e["d"]["sig"]["kind"] == "garbage" \
                and e["d"]["msgid"] in auth_table["DiscoveryCommunity"] and e["d"]["prefix"] == "p_DiscoveryCommunity":
            e["entered"], e["peer"] = True, e["d"]["key"]
            del bad["events"][bad["events"].index(e) + 1:]
            break
    else:
        raise MachineryError("no garbage-signature event to corrupt")
    out.append(("trace claiming a handler ran for a garbage signature is rejected", [bad]))
    bad = json.loads(json.dumps(good))
    for e in bad["events"]:
        if e["k"] == "deliver" and e["entered"] and e["d"]["msgid"] in auth_table["DiscoveryCommunity"]:
            e["peer"] = "h3" if e["peer"] != "h3" else "h1"
            del bad["events"][bad["events"].index(e) + 1:]
            break
    else:
        raise MachineryError("no accepted event to corrupt")
    out.append(("trace in which the handler got a peer other than the carried key is rejected", [bad]))
    # sessions: a rejected forgery that names the honest sender's key re-points his verified-peer entry
    sess = next(t for t in alltraces if t["overlay"] == "DHTCommunity" and t["state"] == "session")
    bad = json.loads(json.dumps(sess))
    for e in bad["events"]:
        if e["k"] == "deliver" and not e["entered"] and e["src"] == "a_att" and e["d"]["key"] in ("h1", "h2", "h3") \
                and [e["d"]["key"], "a_orig"] in e["book"] and [e["d"]["key"], "a_att"] not in e["book"]:
            e["book"] = sorted([p for p in e["book"] if p != [e["d"]["key"], "a_orig"]] + [[e["d"]["key"], "a_att"]])
            del bad["events"][bad["events"].index(e) + 1:]
            break
    else:
        raise MachineryError("no rejected forgery in a session to corrupt")
    out.append(("session trace in which a rejected forgery moves the verified-peer entry of the key it names to the "
                "adversary's address is rejected", [bad]))
    # sessions: the adversary's own valid datagram changes the entry of somebody else
    bad = json.loads(json.dumps(sess))
    for e in bad["events"]:
        if e["k"] == "deliver" and e["entered"] and e["peer"] in ("att", "att2") and e["d"]["key"] == e["peer"] \
                and any(p[0] in ("h1", "h2", "h3") and p[1] == "a_orig" for p in e["book"]):
            e["book"] = sorted([p[0], "a_att"] if p[0] in ("h1", "h2", "h3") else p for p in e["book"])
            del bad["events"][bad["events"].index(e) + 1:]
            break
    else:
        raise MachineryError("no accepted datagram of the adversary in a session to corrupt")
    out.append(("session trace in which a valid datagram of the adversary's own key changes the verified-peer entry "
                "of another key is rejected", [bad]))
    return out


def run_replay(ctx, path):
    """Deliver the concrete datagram of a replay file again to the real overlay and let TLC judge the event."""
    with open(path, encoding="utf-8") as f:
        rep = json.load(f)["replay"]
    r0 = run_tlc("Auth.tla", "Auth_nocheck.cfg", coverage=False)
    auth_table, prefix_table = read_tables(r0.output)
    if rep.get("state") in ("resident", "crowd"):
        # these histories are made by the real code itself (a protocol scenario among four nodes / thousands of new
        # keys): the scenario is run again (new keys, same seed) around the recorded message id
        state, mid = rep["state"], rep["msgid"]
        out = class_job((rep["overlay"], rep.get("tier") or ctx.tier, rep.get("seed") or 0, auth_table, prefix_table, None,
                         [mid] if state == "resident" else None, (state,),
                         {"crowd_first": mid, "crowd": rep.get("crowd")}))
        from .. import vloop as _vl
        _vl.uninstall()
        ok, tid, l, r = validate(out["traces"], "replay", ctx)
        ctx.evaluated(out["stats"]["deliveries"])
        ctx.traces(len(out["traces"]))
        print("replay %s msgid=%s state=%s: %d deliveries into one receiving node, %d traces -> %s" % (
            rep["overlay"], mid, state, out["stats"]["deliveries"], len(out["traces"]),
            "accepted by Auth.tla" if ok else "REJECTED by Auth.tla (%s, trace %s event %s)" % (r.violated, tid, l)))
        if not ok:
            if not isinstance(tid, int) or not isinstance(l, int):
                raise MachineryError("replay: TLC reports %s without a trace position" % r.violated)
            t = out["traces"][tid - 1]
            ev = t["events"][min(l, len(t["events"])) - 1]
            if ev["k"] not in ("deliver", "probe") and r.violated == "TraceAccepted":
                raise MachineryError("replay: the driver's abstraction of the datagram is not a step of Auth.tla")
            ex = example_at(out["examples"], tid - 1, l)
            sig, what = describe(ex, ev, r.violated)
            ctx.violation("replay:" + sig, what + " (scenario run again)", rep)
        return ctx.finish()
    w = World()
    w.make_keys()
    w.keyname = {bytes.fromhex(k): v for k, v in rep["keys"].items()}     # the key names of the recorded run
    w.pubs = {v: k for k, v in w.keyname.items()}
    prefix_names = {}
    for cn in CLASS_NAMES:
        prefix_names.setdefault(w.prefix_of(cn), prefix_table[cn])
    for hx in rep.get("strangers", []):
        w.strangers[len(w.strangers)] = bytes.fromhex(hx)
    base = bytes.fromhex(rep["base"])
    donor = bytes.fromhex(rep["donor"]) if rep.get("donor") else None
    src = tuple(rep["src"])
    ab = Abstractor(w, prefix_names, base, donor, tuple(rep.get("base_src") or src))
    if rep.get("state") == "session":
        # the whole history of the session up to the recorded delivery, into one receiving node
        deliveries = rep["session_deliveries"][:rep["session_pos"] + 1]
        events, records = run_session(w, rep["overlay"], ab, rep.get("donor_overlay") or rep["capture_overlay"],
                                      rep["history"], deliveries, auth_table)
        res, dev = records[-1]["res"], records[-1]["dev"]
        steps_ev = [{"d": records[-1]["dfin"]}]
    else:
        acq = ((parse(base).keybytes, tuple(rep.get("base_src") or src)),) if rep.get("acquainted") else ()
        rcv = Receiver(w, rep["overlay"], acq)
        steps = [(nm, bytes.fromhex(hx), hint) for nm, hx, hint in rep["steps"]]
        final = steps[-1][1]
        res = rcv.deliver(final, src)
        rcv.close()
        steps_ev, dev = observe(ab, steps, final, res, rep["overlay"], auth_table, src)
        events = head_events(ab, rep["capture_overlay"], rep.get("donor_overlay") or rep["capture_overlay"],
                             [(rep["overlay"], rep["sender"], "a_orig")] if rep.get("acquainted") else [])
        events += [full(e, rep["overlay"]) for e in steps_ev] + [full(dev, rep["overlay"])]
    ok, _tid, l, r = validate([{"events": events}], "replay", ctx)
    ctx.evaluated(1)
    ctx.traces(1)
    print("replay %s msgid=%s mutation=%s state=%s: handler entered=%s sent=%d new_verified=%s peer=%s src=%s "
          "verified-peer table=%s -> %s" % (
              rep["overlay"], dev and steps_ev[-1]["d"]["msgid"], rep["mutation"], rep.get("state"),
              [e[0] for e in res["entered"]], res["sent"], dev["newv"], dev["peer"], dev["src"], dev["book"],
              "accepted by Auth.tla" if ok else "REJECTED by Auth.tla (%s, event %s)" % (r.violated, l)))
    w.vloop.uninstall()
    if not ok:
        if events[min(l, len(events)) - 1]["k"] != "deliver" and r.violated == "TraceAccepted":
            raise MachineryError("replay: the driver's abstraction of the datagram is not a step of Auth.tla")
        ctx.violation("replay:%s:%s:%s" % (rep["overlay"], steps_ev[-1]["d"]["msgid"], rep["mutation"]),
                      "delivery with an effect (handler run / verified-peer table) that Auth.tla does not allow (replayed)", rep)
    return ctx.finish()
