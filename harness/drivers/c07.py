"""C07 - TunnelEndpoint send routing.

specs/TunnelEndpoint.tla has two layers: the abstract one (StepAllowed: what any step may hand to the raw socket,
send over which circuit, keep in the queue - written from the property statement) and the implementation one (one
action per call of the pinned code).  TLC checks the four invariants and that every implementation step is an
allowed abstract step (ImplRefinesAbs) for every interleaving of 7 events.

binding R: the dumped state graph (all paths of a short depth + an edge cover of the deeper graph) and TLC-simulated
  deep behaviours are executed on a real TunnelEndpoint over a recording endpoint, real Community objects that opt in
  through settings.anonymize, and a real TunnelCommunity whose circuits table holds real Circuit/Hop objects; after
  every action the observed raw sends, send_data calls, queue and circuits table are compared with the TLC state.
binding T: seeded random histories (length 200, 3 overlays, up to 3 hops, real create_circuit) are recorded from the
  same objects and validated by TLC against the abstract layer only (specs/TunnelEndpointTrace.tla).
life cycle: overlay INSTANCES come and go on the shared endpoint (spec: insts / asked, actions Load / Unload, sends by
  instance - loaded, replaced or already unloaded).  Who asked for anonymity is bookkept by the abstract layer from the
  calls alone (Community(anonymize=..), explicit set_anonymity, unload = no request), never read from the endpoint's
  switch.  R: every path of 3 events with a life-cycle event followed by a send (TunnelEndpoint_lc3.cfg), the simulated
  deep behaviours load/unload as well; exhaustive TLC run TunnelEndpoint_lc5.cfg; T: the random histories construct
  further real Community instances and run the real Community.unload().
how a circuit ends: a circuit is taken down by Circuit.close() or by the real TunnelCommunity.remove_circuit() task,
  with / without a reason text, remove_now, destroy (spec: CircuitClosing(i, way), CloseWays); remove_circuit leaves it
  in the table until its remove_tunnel_delay timer fires (spec: due, RemovalDue; here: exactly that timer of the step
  loop is fired, the clock moves to its deadline); Expire = the clock moves by max_time_inactive and the real
  do_remove() takes the idle circuits down.  The abstract truth "taken down" is the harness's knowledge of the call it
  made (for Expire: of the remove_circuit tasks do_remove started), what the object reports (Circuit.state) is
  compared with the implementation layer (st, StateFollowsClose).
  R: every path of 3 events (and of 4 events with a due removal timer; thorough: every path of 4) that starts from a
  ready circuit and has a take-down followed by an anonymised send (TunnelEndpoint_rm4.cfg; thorough also rm3.cfg);
  the d4 graph and the simulated behaviours take circuits down through the API as well; exhaustive TLC run
  TunnelEndpoint_rm6.cfg (thorough rm7); T: the random histories use every way, let removals become due and expire.
A replay that leaves the implementation layer is handed to the abstract layer as well: only what the abstract layer
rejects is a violation; a mere difference in behaviour the statement leaves open is reported as a note.
"""
from __future__ import annotations

import asyncio
import concurrent.futures
import json
import os
import random
import re
import shutil
import time

from ..common import Ctx, setup_repo_path
from ..replay import all_paths, diff_states, edge_cover
from ..tlc import FrozenDict, MachineryError, parse_dot, parse_simulate_file, run_tlc, scratch_dir
from ..vloop import StepLoop, install, uninstall

PID = "C07"
QCAP = 100
LABELS = ("A", "B", "C")
SITUATIONS = ["plain", "anon_detached", "anon_ready_circuit", "anon_ready_circuit_after_backlog", "anon_no_circuit",
              "anon_no_circuit_backlog_over_capacity", "open_shared_prefix", "anon_sender_unloaded", "anon_sibling_unloaded",
              "anon_replacement_of_unloaded", "anon_circuit_in_removal_window", "anon_after_removal_due",
              "anon_circuit_expired_in_removal_window"]
CLOSE_WAYS = ("close", "closeR", "remove", "removeR", "removeNow", "removeD")
LIFECYCLE = ("Load", "Unload")
MAX_INSTANCES = 7            # per recorded history
_MARK = re.compile(rb"<C07-PKT-(\d{8})>")


def marker(k):
    return b"<C07-PKT-%08d>" % k


# ---------------------------------------------------------------------------------------------------
# the real world
# ---------------------------------------------------------------------------------------------------
class Lib:
    """Imports from the repository under test + long lived helpers (keys, peers, application overlay classes)."""

    def __init__(self):
        from ipv8.community import Community, CommunitySettings
        from ipv8.keyvault.crypto import default_eccrypto
        from ipv8.messaging.anonymization import tunnel
        from ipv8.messaging.anonymization.community import TunnelCommunity, TunnelSettings
        from ipv8.messaging.anonymization.crypto import TunnelCrypto
        from ipv8.messaging.anonymization.endpoint import TunnelEndpoint
        from ipv8.messaging.interfaces.endpoint import Endpoint
        from ipv8.peer import Peer
        from ipv8.peerdiscovery.network import Network
        self.TunnelEndpoint, self.TunnelCommunity, self.TunnelSettings = TunnelEndpoint, TunnelCommunity, TunnelSettings
        self.CommunitySettings, self.Network, self.Peer = CommunitySettings, Network, Peer
        self.Circuit, self.Hop = tunnel.Circuit, tunnel.Hop
        self.EXIT_IPV8, self.EXIT_BT, self.RELAY = (tunnel.PEER_FLAG_EXIT_IPV8, tunnel.PEER_FLAG_EXIT_BT,
                                                    tunnel.PEER_FLAG_RELAY)
        self.CLOSING = tunnel.CIRCUIT_STATE_CLOSING

        class RecordingEndpoint(Endpoint):
            """The 'raw socket': remembers every datagram handed to it."""

            def __init__(self):
                super().__init__()
                self.sent = []

            def assert_open(self):
                pass

            def is_open(self):
                return True

            def get_address(self):
                return ("10.0.0.1", 7000)

            def send(self, socket_address, packet):
                self.sent.append((socket_address, bytes(packet)))

            async def open(self):
                return True

            def close(self):
                return None

            def reset_byte_counters(self):
                pass

        self.RecordingEndpoint = RecordingEndpoint
        self.apps = {}
        for i, lab in enumerate(LABELS):
            self.apps[lab] = type("App" + lab, (Community,), {"community_id": bytes([0xA0 + i]) * 20})
        gen = default_eccrypto.generate_key
        self.me = Peer(gen("curve25519"), ("10.0.0.1", 7000))
        self.exit_peer = Peer(gen("curve25519"), ("10.9.0.1", 9001))
        self.relay_peer = Peer(gen("curve25519"), ("10.9.0.2", 9002))
        self.hop_peers = [Peer(gen("curve25519"), ("10.8.0.%d" % (i + 1), 8000 + i)) for i in range(8)]
        self.session_keys = [TunnelCrypto.generate_session_keys(bytes([i + 1]) * 32) for i in range(4)]


class World:
    """One node: TunnelEndpoint over a recording endpoint, application overlays, a TunnelCommunity.

    attached at start  = wiring of ipv8_service: the TunnelEndpoint is the endpoint of every overlay including the
                         TunnelCommunity, whose __init__ registers itself with it (one hop).
    detached at start  = wiring of produce_anonymized_endpoint: the TunnelCommunity lives on another endpoint and is
                         registered later with set_tunnel_community().
    """

    exceptions = [0, None]       # exceptions raised by the code under test: count, first

    def __init__(self, lib, loop, insts, attached, cand, circs0=()):
        """insts: [(label, anonymize)] - the overlay instances built at the start, in this order.
        circs0: circuits (model records) that exist when the behaviour starts."""
        self.lib, self.loop = lib, loop
        self.rec = lib.RecordingEndpoint()
        self.tep = lib.TunnelEndpoint(self.rec)
        self.recs = [self.rec] if attached else [self.rec, lib.RecordingEndpoint()]
        self.net = lib.Network()
        self.labels = sorted({lab for lab, _ in insts})
        self.inst, self.inst_lab = [], []          # instance i of the model = self.inst[i - 1]

        def build():
            tc_ep = self.tep if attached else self.recs[1]
            self.tc = lib.TunnelCommunity(lib.TunnelSettings(my_peer=lib.me, endpoint=tc_ep, network=self.net))
            for lab, a in insts:
                self._construct(lab, a)
        loop.call(build)
        self.prefix = {lab: self.inst[self.inst_lab.index(lab)].get_prefix() for lab in self.labels}
        self.app_prefixes = set(self.prefix.values())
        self.set_candidates(cand)
        # observation points named by the property: TunnelCommunity.send_data / create_circuit (wrapped, still real)
        self.send_data_calls = []
        self.create_calls = 0
        real_send_data, real_create = self.tc.send_data, self.tc.create_circuit

        def send_data(target, circuit_id, dest_address, source_address, data):
            self.send_data_calls.append((target, circuit_id, dest_address, source_address, bytes(data)))
            return real_send_data(target, circuit_id, dest_address, source_address, data)

        def create_circuit(goal_hops, *a, **k):
            self.create_calls += 1
            return real_create(goal_hops, *a, **k)
        self.tc.send_data = send_data
        self.tc.create_circuit = create_circuit
        self.cid_of = {}      # real circuit id -> model circuit id (order of appearance)
        self.closed = set()   # real ids of circuits the environment has closed
        self.pkts = {}        # packet id -> (label, dest, bytes)
        self.by_bytes = {}
        self.nsent = 0
        self.next_real_cid = 1000
        self._raw_pos = [0 for _ in self.recs]
        self._sd_pos = 0
        self.removals = []    # (real circuit id, remove_circuit task) in the order the calls were made
        self.ndue = 0         # removal timers fired so far
        for n, c in enumerate(circs0):
            if c["closing"] or c["st"]:
                raise MachineryError("C07: initial circuits of a behaviour are not closing")
            self.add_circuit(c["goal"])
            for _ in range(c["len"]):
                self.hop_added(n + 1, c["flag"])

    def _construct(self, lab, anonymize):
        lib = self.lib
        self.inst.append(lib.apps[lab](lib.CommunitySettings(my_peer=lib.me, endpoint=self.tep, network=self.net,
                                                             anonymize=bool(anonymize))))
        self.inst_lab.append(lab)

    def cleanup(self):
        def cancel():
            for o in [self.tc, self.tc.request_cache, *self.inst]:
                o.cancel_all_pending_tasks()
        self.loop.call(cancel)
        self.loop.drain()
        self.loop._scheduled.clear()
        self.loop._timer_cancelled_count = 0

    # ---- actions
    def real(self, fn, *a, **k):
        """Call into the code under test; an exception it raises is remembered, not propagated (the statement says
        nothing about exceptions: a send() that raises has dropped its packet)."""
        try:
            return self.loop.call(fn, *a, **k)
        except Exception as e:  # noqa: BLE001
            World.exceptions[0] += 1
            if World.exceptions[1] is None:
                World.exceptions[1] = "%s in %s: %s" % (type(e).__name__, getattr(fn, "__qualname__", fn), e)
            return None

    def set_candidates(self, cand):
        self.cand = cand
        self.tc.candidates.clear()
        if cand:
            self.tc.candidates[self.lib.exit_peer] = [self.lib.EXIT_IPV8]
            self.tc.candidates[self.lib.relay_peer] = [self.lib.RELAY]

    def send(self, i):
        """Instance i (loaded or not) sends a packet of its overlay through its endpoint."""
        lab = self.inst_lab[i - 1]
        self.nsent += 1
        k = self.nsent
        dest = ("10.1.%d.%d" % ((k >> 8) & 255, k & 255), 2000 + (k % 50000))
        pkt = self.prefix[lab] + b"\x42" + marker(k)
        self.pkts[k] = (lab, dest, pkt)
        self.by_bytes[(dest, pkt)] = k
        self.real(self.inst[i - 1].endpoint.send, dest, pkt)
        return k

    def set_anon(self, lab, value):
        self.real(self.inst[self.inst_lab.index(lab)].endpoint.set_anonymity, self.prefix[lab], value)

    def load(self, lab, anonymize):
        """Another real Community instance with the same community id on the same endpoint."""
        self.loop.call(self._construct, lab, anonymize)

    def unload(self, i):
        """The real (async) Community.unload() of instance i, run to completion."""
        ov, loop = self.inst[i - 1], self.loop
        # only the unload itself and this instance's own tasks run: what the other overlays and the TunnelCommunity
        # have pending (their periodic tasks were never started in this world) stays where it is
        own = {id(t) for t in ov._pending_tasks.values()}  # noqa: SLF001
        foreign = {id(h) for h in loop._ready if id(getattr(h._callback, "__self__", None)) not in own}  # noqa: SLF001
        fut = loop.call(lambda: asyncio.ensure_future(ov.unload()))
        for _ in range(100000):
            h = next((h for h in loop._ready if id(h) not in foreign), None)  # noqa: SLF001
            if h is None:
                break
            loop.run_ready(h)
        if not fut.done():
            raise MachineryError("C07: Community.unload() did not finish without the clock moving")
        if fut.exception() is not None:
            e = fut.exception()
            World.exceptions[0] += 1
            if World.exceptions[1] is None:
                World.exceptions[1] = "%s in Community.unload: %s" % (type(e).__name__, e)

    def attach(self, hops):
        if hops == 1:
            self.real(self.tep.set_tunnel_community, self.tc)          # the default, as communication_manager does
        else:
            self.real(self.tep.set_tunnel_community, self.tc, hops)

    def detach(self):
        self.real(self.tep.set_tunnel_community, None)

    def add_circuit(self, goal):
        lib = self.lib
        self.next_real_cid += 7
        c = self.loop.call(lib.Circuit, self.next_real_cid, goal)
        c.unverified_hop = lib.Hop(lib.hop_peers[len(self.cid_of) % 4], flags=[lib.RELAY])
        self.tc.circuits[c.circuit_id] = c

    def circuit_at(self, i):
        return list(self.tc.circuits.values())[i - 1]

    def hop_added(self, i, flag):
        lib = self.lib
        c = self.circuit_at(i)
        n = len(c.hops)
        peer = c.unverified_hop.peer if c.unverified_hop else lib.hop_peers[n % 4]
        flags = [lib.RELAY, lib.EXIT_IPV8] if flag else [lib.RELAY, lib.EXIT_BT]
        c.unverified_hop = None
        self.real(c.add_hop, lib.Hop(peer, lib.session_keys[n % 4], flags))
        if len(c.hops) < c.goal_hops:
            c.unverified_hop = lib.Hop(lib.hop_peers[4 + (n + 1) % 4], flags=[lib.RELAY])

    def _run_new(self, before):
        """Run the ready handles that were not queued `before` (the task step / done callbacks just caused); what
        the overlays had pending before (their periodic tasks never start in this world) stays where it is."""
        loop = self.loop
        for _ in range(100000):
            h = next((h for h in loop._ready if id(h) not in before), None)  # noqa: SLF001
            if h is None:
                return
            loop.run_ready(h)
        raise MachineryError("C07: ready queue does not empty")

    def closing(self, i, way="closeR"):
        """The circuit is taken down: on the object, or by the real remove_circuit() task run up to its sleep."""
        c = self.circuit_at(i)
        rid = c.circuit_id
        if way == "close":
            self.real(c.close)
        elif way == "closeR":
            self.real(c.close, "C07")
        else:
            a, k = {"remove": ((rid,), {}), "removeR": ((rid, "C07"), {}),
                    "removeNow": ((rid,), {"remove_now": True}),
                    "removeD": ((rid, "C07"), {"destroy": 1})}[way]
            before = {id(h) for h in self.loop._ready}  # noqa: SLF001
            t = self.real(self.tc.remove_circuit, *a, **k)
            self._run_new(before)
            if t is not None:
                self.removals.append((rid, t))
        self.closed.add(rid)

    def pending_removals(self):
        return [(rid, t) for rid, t in self.removals if not t.done()]

    def removal_due(self):
        """remove_tunnel_delay has passed for the earliest pending remove_circuit(): exactly its timer fires."""
        pend = self.pending_removals()
        if not pend:
            raise IndexError("no removal is pending")
        rid, t = pend[0]
        waiter = getattr(t, "_fut_waiter", None)
        h = next((h for h in self.loop.timers()
                  if waiter is not None and any(a is waiter for a in (h._args or ()))), None)  # noqa: SLF001
        if h is None:
            raise IndexError("the pending removal does not wait for a timer")
        before = {id(x) for x in self.loop._ready}  # noqa: SLF001
        self.loop.fire_timer(h)
        self._run_new(before)
        self.ndue += 1
        return rid

    def expire(self):
        """max_time_inactive passes without incoming traffic, then the periodic clean-up (the real do_remove) runs.
        -> real ids of the circuits it took down (for which it started remove_circuit)."""
        while self.pending_removals():           # remove_tunnel_delay is shorter: those timers fire on the way
            self.removal_due()
        self.loop._vt += self.tc.settings.max_time_inactive + 1  # noqa: SLF001  (no other timer fires: see assumptions)
        known = set(self.tc._pending_tasks)  # noqa: SLF001
        before = {id(h) for h in self.loop._ready}  # noqa: SLF001
        self.real(self.tc.do_remove)
        down = []
        for name, t in list(self.tc._pending_tasks.items()):  # noqa: SLF001
            frame = getattr(getattr(t, "get_coro", lambda: None)(), "cr_frame", None)
            if name in known or frame is None or frame.f_code.co_name != "remove_circuit":
                continue
            rid = frame.f_locals.get("circuit_id")
            self.removals.append((rid, t))
            self.closed.add(rid)
            down.append(rid)
        self._run_new(before)
        self.set_candidates(self.cand)           # do_remove forgets candidates that are no verified peers
        return down

    def removed(self, i):
        self.tc.circuits.pop(self.circuit_at(i).circuit_id)

    # ---- observation (everything since the previous call)
    def observe_circuits(self):
        lib = self.lib
        circs = []
        for rid, c in self.tc.circuits.items():
            hops = c.hops
            circs.append({"goal": c.goal_hops, "len": len(hops), "closing": rid in self.closed or c.state == lib.CLOSING,
                          "flag": bool(hops) and lib.EXIT_IPV8 in (hops[-1].flags or []), "rid": rid})
        return circs

    def observe(self):
        lib = self.lib
        circs = []
        for rid, c in self.tc.circuits.items():
            if rid not in self.cid_of:
                self.cid_of[rid] = len(self.cid_of) + 1
            hops = c.hops
            circs.append(FrozenDict(id=self.cid_of[rid], goal=c.goal_hops, len=len(hops),
                                    closing=(rid in self.closed or c.state == lib.CLOSING),
                                    flag=bool(hops) and lib.EXIT_IPV8 in (hops[-1].flags or []),
                                    st=c.state == lib.CLOSING))
        out = []
        # the raw socket(s): a datagram that carries an application prefix, or an application packet in clear
        for n, ep in enumerate(self.recs):
            for dest, data in ep.sent[self._raw_pos[n]:]:
                if data[:22] in self.app_prefixes:
                    out.append(FrozenDict(k="raw", pkt=self.by_bytes.get((dest, data), 0), cid=0))
                elif _MARK.search(data):
                    out.append(FrozenDict(k="raw", pkt=0, cid=0))
            self._raw_pos[n] = len(ep.sent)
        # tunnel data: calls of TunnelCommunity.send_data
        for target, rcid, dest, src, data in self.send_data_calls[self._sd_pos:]:
            c = self.tc.circuits.get(rcid)
            cid = self.cid_of.get(rcid, 0)
            # "carried as tunnel data over a circuit": addressed to the first hop of that circuit, no origin address
            if c is None or not c.hop or tuple(target) != tuple(c.hop.address) or tuple(src) != ("0.0.0.0", 0):
                cid = 0
            out.append(FrozenDict(k="tun", pkt=self.by_bytes.get((dest, data), 0), cid=cid))
        self._sd_pos = len(self.send_data_calls)
        queue = tuple(self.by_bytes.get((tuple(a), bytes(p)), 0) for a, p in self.tep.send_queue)
        return {"anon": FrozenDict({lab: bool(self.tep.settings.get(self.prefix[lab], False)) for lab in self.labels}),
                "attached": self.tep.tunnel_community is not None,
                "hopsCfg": self.tep.hops,
                "circuits": tuple(circs), "ncirc": len(self.cid_of),
                "due": tuple(self.cid_of.get(rid, 0) for rid, _t in self.pending_removals()),
                "queue": queue, "nsent": self.nsent, "out": tuple(out)}


def event_json(act, args, proj):
    e = {"a": act, "circs": [dict(c) for c in proj["circuits"]], "queue": list(proj["queue"]),
         "out": [dict(o) for o in proj["out"]]}
    e.update(args)
    return e


def trace_header(insts, attached, hops, circs=()):
    """insts: [(label, asked for anonymity at construction)] in order of construction; circs: the table at the start."""
    return {"insts": [{"p": lab, "req": bool(a)} for lab, a in insts], "attached": bool(attached), "hops": int(hops),
            "circs": [dict(c) for c in circs]}


def insts_of(st):
    return [(r["p"], r["req"]) for r in st["insts"]]


# ---------------------------------------------------------------------------------------------------
# binding R: behaviours of the implementation layer executed on the real objects
# ---------------------------------------------------------------------------------------------------
class Replayer:
    def __init__(self, ctx, lib, loop):
        self.ctx, self.lib, self.loop = ctx, lib, loop
        self.nops = self.nwalks = 0
        self.seen_actions = {}
        self.divergent = []       # walks that left the implementation layer (with their abstract-format trace)

    def run_walk(self, st0, steps, tag):
        """steps: [(name, args, src_state, dst_state)].  True when the real objects stayed on the model.
        After the first difference the remaining actions are still executed (a wrong switch only shows at a later
        send) and the whole observed history goes to the abstract layer."""
        w = World(self.lib, self.loop, insts_of(st0), st0["attached"], st0["cand"], st0["circuits"])
        events, labels, ev_label = [], [], []
        first = None
        try:
            d = diff_states(st0, w.observe())
            if d:
                first = (["<node built>"], d)
            for name, args, src, dst in steps:
                labels.append("%s(%s)" % (name, ",".join(str(a) for a in args)))
                self.seen_actions[name] = self.seen_actions.get(name, 0) + 1
                try:
                    proj, evs = self.apply(w, name, args, src, dst)
                except (IndexError, KeyError, AttributeError):
                    if first is None:
                        raise
                    labels.pop()
                    break                      # the circuits table is no longer the model's: stop here
                events.extend(evs)
                ev_label.extend([len(labels)] * len(evs))
                self.nops += 1
                if first is None:
                    d = diff_states(dst, proj)
                    if d:
                        first = (list(labels), d)
            if first is not None:
                tr = trace_header(insts_of(st0), st0["attached"], st0["hopsCfg"], st0["circuits"])
                tr["events"] = events
                self.divergent.append({"trace": tr, "labels": first[0], "all_labels": labels, "diff": first[1],
                                       "tag": tag, "cand": st0["cand"], "ev_label": ev_label,
                                       "circs0": [dict(c) for c in st0["circuits"]]})
            return first is None
        finally:
            self.nwalks += 1
            w.cleanup()

    def apply(self, w, name, args, src, dst):
        """Execute one model action. -> (projection to compare with dst, abstract-format events)."""
        if name in ("SendAnon", "SendPlain"):
            k = w.send(args[0])
            proj = w.observe()
            return proj, [event_json("send", {"i": args[0], "p": w.inst_lab[args[0] - 1], "pkt": k}, proj)]
        if name == "FillQueue":
            evs, outs, proj = [], (), None
            for _ in range(dst["nsent"] - src["nsent"]):
                k = w.send(args[0])
                proj = w.observe()
                outs += proj["out"]
                evs.append(event_json("send", {"i": args[0], "p": w.inst_lab[args[0] - 1], "pkt": k}, proj))
            proj["out"] = outs
            return proj, evs
        if name == "Load":
            w.load(args[0], args[1])
            proj = w.observe()
            return proj, [event_json("load", {"p": args[0], "v": bool(args[1])}, proj)]
        if name == "Unload":
            w.unload(args[0])
            proj = w.observe()
            return proj, [event_json("unload", {"i": args[0]}, proj)]
        if name == "ToggleAnon":
            v = not src["anon"][args[0]]
            w.set_anon(args[0], v)
            proj = w.observe()
            return proj, [event_json("setanon", {"p": args[0], "v": v}, proj)]
        if name == "Attach":
            w.attach(args[0])
            proj = w.observe()
            return proj, [event_json("attach", {"h": args[0]}, proj)]
        if name == "Detach":
            w.detach()
            proj = w.observe()
            return proj, [event_json("detach", {}, proj)]
        if name == "AddCircuit":
            w.add_circuit(args[0])
        elif name == "HopAdded":
            w.hop_added(args[0], args[1])
        elif name == "CircuitClosing":
            w.closing(args[0], args[1] if len(args) > 1 else "closeR")
        elif name == "RemovalDue":
            w.removal_due()
        elif name == "Expire":
            w.expire()
        elif name == "CircuitRemoved":
            w.removed(args[0])
        else:
            raise MachineryError("C07: unknown model action %r" % name)
        proj = w.observe()
        return proj, [event_json("env", {}, proj)]


def steps_of(g, walk):
    return [(g.edges[ei][1], g.edges[ei][2], g.states[g.edges[ei][0]], g.states[g.edges[ei][3]]) for ei in walk]


def dumped_graph(ctx, cfgname, tag, lifecycle=False, removal=False):
    tmp = scratch_dir("c07-")
    try:
        dot = os.path.join(tmp, "g.dot")
        r = run_tlc("TunnelEndpoint.tla", cfgname, dump=dot)
        if not r.ok:
            raise MachineryError("TunnelEndpoint %s: TLC reports %s on the specification itself" % (cfgname, r.violated))
        ctx.add_tlc(tag, r)
        check_coverage(r, cfgname, lifecycle)
        if removal and (r.coverage.get("RemovalDue", (0, 0))[1] == 0 or r.coverage.get("Expire", (0, 0))[1] == 0):
            raise MachineryError("TunnelEndpoint %s: RemovalDue / Expire never taken" % cfgname)
        return parse_dot(dot)
    finally:
        shutil.rmtree(tmp, ignore_errors=True)


def lifecycle_then_send(steps):
    """A life-cycle event that is followed by a send of an instance with the same prefix: what loading / unloading
    did to the routing of that overlay becomes observable."""
    for n, (name, args, src, _dst) in enumerate(steps):
        if name in LIFECYCLE:
            p = args[0] if name == "Load" else src["insts"][args[0] - 1]["p"]
            for name2, args2, src2, _ in steps[n + 1:]:
                if (name2.startswith("Send") or name2 == "FillQueue") and src2["insts"][args2[0] - 1]["p"] == p:
                    return True
    return False


def replay_lifecycle(ctx, rp, cfgname, tag, depth, every):
    """Every path of `depth` events of the life-cycle configuration that contains Load / Unload (the others are the
    paths of the plain configuration).  quick (every=False): those in which a send of the same overlay follows the
    life-cycle event (the configuration starts without circuit candidates and, at this depth, without circuits)."""
    g = cfgname if not isinstance(cfgname, str) else dumped_graph(ctx, cfgname, tag, lifecycle=True)
    ops0, walks0, div0 = rp.nops, rp.nwalks, len(rp.divergent)
    npaths, kinds = 0, {}
    for init, walk in all_paths(g, depth):
        names = [g.edges[e][1] for e in walk]
        if not any(n in LIFECYCLE for n in names):
            continue
        steps = steps_of(g, walk)
        if not every and not lifecycle_then_send(steps):
            continue
        rp.run_walk(g.states[init], steps, tag + ":paths")
        ctx.nontrivial((tag, tuple(walk)))
        npaths += 1
        key = ">".join(n for n in names if n in LIFECYCLE or n.startswith("Send"))
        kinds[key] = kinds.get(key, 0) + 1
        if npaths == 1:
            ctx.sample({"replayed_lifecycle_walk": ["%s(%s)" % (g.edges[e][1], ",".join(map(str, g.edges[e][2])))
                                                    for e in walk],
                        "initial": {k: v for k, v in g.states[init].items() if k in ("insts", "attached", "cand")}})
        if len(rp.divergent) > div0 + 20:
            break
    for need in ("Unload>SendAnon", "Load>Unload>SendAnon", "Load>SendAnon"):
        if not kinds.get(need) and len(rp.divergent) == div0:
            raise MachineryError("C07: no replayed life-cycle path of the shape %s" % need)
    ctx.note("replay_" + tag, {"graph_states": len(g.states), "graph_edges": len(g.edges), "all_paths_depth": depth,
                               "paths_with_lifecycle_event": npaths, "only_with_later_send": not every,
                               "real_operations": rp.nops - ops0, "walks": rp.nwalks - walks0,
                               "shapes": dict(sorted(kinds.items(), key=lambda kv: -kv[1])[:12])})


def ViaRemove(way):  # noqa: N802  (name of the operator in TunnelEndpoint.tla)
    return way.startswith("remove")


def closing_then_send(steps):
    """A circuit is taken down and an overlay whose switch is on sends afterwards: whether the circuit still counts
    as ready for the endpoint becomes observable. -> the way it was taken down (None: no such pair)."""
    for n, (name, args, src, dst) in enumerate(steps):
        if name == "CircuitClosing" or (name == "Expire" and dst["due"]):
            for name2, _a, _s, _d in steps[n + 1:]:
                if name2 in ("SendAnon", "FillQueue"):
                    return args[1] if name == "CircuitClosing" else "expire"
    return None


def replay_removal(ctx, rp, cfgname, tag, depth, select):
    """Every path of `depth` events of the end-of-circuit configuration (starts with a ready circuit, every way of
    taking it down, removal timers) that takes a circuit down.  select = "all": every one of them; "send": those in
    which an anonymised send follows the take-down; "send+due": those of them in which a removal timer fires."""
    g = cfgname if not isinstance(cfgname, str) else dumped_graph(ctx, cfgname, tag, removal=True)
    ops0, walks0, div0 = rp.nops, rp.nwalks, len(rp.divergent)
    npaths, kinds, ways = 0, {}, {}
    for init, walk in all_paths(g, depth):
        names = [g.edges[e][1] for e in walk]
        if "CircuitClosing" not in names and "Expire" not in names:
            continue
        steps = steps_of(g, walk)
        way = closing_then_send(steps)
        if select != "all" and (way is None or (select == "send+due" and "RemovalDue" not in names)):
            continue
        rp.run_walk(g.states[init], steps, tag + ":paths")
        ctx.nontrivial((tag, tuple(walk)))
        npaths += 1
        ways[way] = ways.get(way, 0) + 1
        key = ">".join(n for n in names if n in ("CircuitClosing", "RemovalDue", "CircuitRemoved", "Expire") or
                       n.startswith("Send"))
        kinds[key] = kinds.get(key, 0) + 1
        if npaths == 1:
            ctx.sample({"replayed_removal_walk": ["%s(%s)" % (g.edges[e][1], ",".join(map(str, g.edges[e][2])))
                                                  for e in walk],
                        "initial": {k: v for k, v in g.states[init].items() if k in ("insts", "attached", "circuits")}})
        if len(rp.divergent) > div0 + 20:
            break
    if len(rp.divergent) == div0:
        missing = [w for w in CLOSE_WAYS + ("expire",) if not ways.get(w) and (select != "send+due" or ViaRemove(w))]
        missing += [k for k in (("CircuitClosing>SendAnon", "CircuitClosing>RemovalDue>SendAnon") if depth == 3 else
                                ("CircuitClosing>SendAnon>RemovalDue>SendAnon",)) if not kinds.get(k)]
        if missing:
            raise MachineryError("C07: no replayed end-of-circuit path for %s" % missing)
    ctx.note("replay_" + tag, {"graph_states": len(g.states), "graph_edges": len(g.edges), "all_paths_depth": depth,
                               "paths_taking_a_circuit_down": npaths, "selected": select,
                               "real_operations": rp.nops - ops0, "walks": rp.nwalks - walks0,
                               "ways_followed_by_a_send": {str(k): v for k, v in ways.items()},
                               "shapes": dict(sorted(kinds.items(), key=lambda kv: -kv[1])[:12])})


def replay_graph(ctx, rp, cfgname, tag, paths_depth, cover_ops):
    g = cfgname if not isinstance(cfgname, str) else dumped_graph(ctx, cfgname, tag)
    ops0, walks0, div0 = rp.nops, rp.nwalks, len(rp.divergent)
    covered = set()
    npaths = 0
    if paths_depth:
        for init, walk in all_paths(g, paths_depth):
            rp.run_walk(g.states[init], steps_of(g, walk), tag + ":paths")
            covered.update(walk)
            ctx.nontrivial((tag, tuple(walk)))
            npaths += 1
            if len(rp.divergent) > div0 + 20:
                break
    ncover = 0
    if cover_ops != 0 and len(rp.divergent) <= div0 + 20:
        for init, walk in edge_cover(g, max_ops=cover_ops, seed=ctx.seed):
            if all(e in covered for e in walk):
                continue
            rp.run_walk(g.states[init], steps_of(g, walk), tag + ":cover")
            covered.update(walk)
            ctx.nontrivial((tag, tuple(walk)))
            ncover += 1
            if ncover <= 1:
                ctx.sample({"replayed_walk": [("%s(%s)" % (g.edges[e][1], ",".join(map(str, g.edges[e][2])))) for e in walk],
                            "initial": {k: v for k, v in g.states[init].items() if k in ("anon", "attached", "cand")}})
            if len(rp.divergent) > div0 + 20:
                break
    ctx.note("replay_" + tag, {"graph_states": len(g.states), "graph_edges": len(g.edges),
                               "all_paths_depth": paths_depth, "paths": npaths, "cover_walks": ncover,
                               "real_operations": rp.nops - ops0, "walks": rp.nwalks - walks0,
                               "edges_covered": len(covered), "complete_edge_cover": len(covered) == len(g.edges)})


def simulated_behaviours(seed, num, depth):
    """Deep behaviours of the implementation layer (TLC -simulate, loading and unloading instances as well)."""
    tmp = scratch_dir("c07s-")
    try:
        base = os.path.join(tmp, "sim")
        r = run_tlc("TunnelEndpoint.tla", "TunnelEndpoint_sim.cfg", simulate="file=%s,num=%d" % (base, num),
                    depth=depth, seed=seed + 7, coverage=False, workers=1)
        if r.violated:
            raise MachineryError("TunnelEndpoint_sim: TLC reports %s on the specification itself" % r.violated)
        out = []
        for f in sorted(f for f in os.listdir(tmp) if f.startswith("sim")):
            path = os.path.join(tmp, f)
            with open(path, encoding="utf-8") as fh:
                text = re.sub(r"\n=+\s*$", "\n", fh.read())      # the module's closing line is not part of a state
            with open(path, "w", encoding="utf-8") as fh:
                fh.write(text)
            beh = parse_simulate_file(path)
            if len(beh) >= 2:
                out.append(beh)
        return out
    finally:
        shutil.rmtree(tmp, ignore_errors=True)


def replay_simulated(ctx, rp, behaviours, depth):
    """... executed on the real objects."""
    n = 0
    seen = {}
    for beh in behaviours:
        steps = [(beh[i][0], beh[i][1], beh[i - 1][2], beh[i][2]) for i in range(1, len(beh))]
        rp.run_walk(beh[0][2], steps, "simulate")
        ctx.nontrivial(("sim", tuple((s[0], s[1]) for s in steps)))
        for st in steps:
            seen[st[0]] = seen.get(st[0], 0) + 1
        n += 1
        if n == 1:
            ctx.sample({"simulated_behaviour_first_steps": ["%s%s" % (s[0], list(s[1])) for s in steps[:12]]})
    missing = [a for a in LIFECYCLE + ("CircuitClosing", "RemovalDue", "Expire") if not seen.get(a)]
    if missing:
        raise MachineryError("C07: simulated behaviours never took %s" % missing)
    ctx.note("replay_simulate", {"behaviours": n, "depth": depth, "actions": seen})


def check_coverage(r, cfgname, lifecycle=False):
    need = ["SendAnon", "SendPlain", "FillQueue", "ToggleAnon", "Attach", "Detach", "AddCircuit", "HopAdded",
            "CircuitClosing", "CircuitRemoved", "RemovalDue"] + (list(LIFECYCLE) if lifecycle else [])
    if "lc3.cfg" in cfgname:                 # the short life-cycle paths are made without circuits
        need = [a for a in need if "Circuit" not in a and a not in ("HopAdded", "RemovalDue")]
    missing = [a for a in need if r.coverage.get(a, (0, 0))[1] == 0]
    if missing:
        raise MachineryError("TunnelEndpoint %s: actions never taken: %s" % (cfgname, missing))


# ---------------------------------------------------------------------------------------------------
# binding T: random histories of the real objects judged by the abstract layer
# ---------------------------------------------------------------------------------------------------
class Asked:
    """The abstract bookkeeping of TunnelEndpoint.tla (KindOf / ...AfterLoad / ...AfterSet / ...AfterUnload) mirrored in
    Python - only to name the situation a recorded send was made in (vacuity check) and to pick the event a negative
    control falsifies.  The verdict on a history is always TLC's."""

    def __init__(self, insts):
        self.lab = [lab for lab, _ in insts]
        self.req = [bool(a) for _, a in insts]
        self.loaded = [True for _ in insts]
        self.asked = {}
        for lab, a in insts:
            self.asked[lab] = self.asked.get(lab, False) or bool(a)

    def load(self, lab, a):
        self.lab.append(lab)
        self.req.append(bool(a))
        self.loaded.append(True)
        if a:
            self.asked[lab] = True

    def unload(self, i):
        self.loaded[i - 1] = False

    def set(self, lab, v):
        self.asked[lab] = bool(v)
        self.req = [bool(v) if l == lab else r for l, r in zip(self.lab, self.req)]

    def kind(self, i):
        return "anon" if self.req[i - 1] else ("open" if self.asked[self.lab[i - 1]] else "plain")

    def lifecycle_situations(self, i):
        """For a sender that asked: which unloads happened around it."""
        lab, out = self.lab[i - 1], []
        if not self.loaded[i - 1]:
            out.append("anon_sender_unloaded")
        older = [j for j in range(i - 1) if self.lab[j] == lab and not self.loaded[j]]
        other = [j for j in range(len(self.lab)) if j != i - 1 and self.lab[j] == lab and not self.loaded[j]]
        if self.loaded[i - 1] and other:
            out.append("anon_sibling_unloaded")
        if self.loaded[i - 1] and older:
            out.append("anon_replacement_of_unloaded")
        return out


def random_history(lib, loop, rng, length, stats):
    insts = [(lab, rng.random() < 0.6) for lab in LABELS]
    attached = rng.random() < 0.5
    cand = rng.random() < 0.3
    w = World(lib, loop, insts, attached, cand)
    tr = trace_header(insts, attached, 1 if attached else 0)
    events = []
    book = Asked(insts)
    hops_pref = rng.choice([1, 1, 2, 3])
    try:
        w.observe()

        def log(act, args):
            proj = w.observe()
            events.append(event_json(act, args, proj))
            return proj

        def right_ready():
            st = w.observe_circuits()
            return w.tep.tunnel_community is not None and any(
                (not c["closing"]) and c["len"] >= c["goal"] >= 1 and c["flag"] and c["goal"] == w.tep.hops
                for c in st)

        backlog = [0]     # anonymised sends made while attached without a right ready circuit since the last flush
        gone = []         # model ids of the circuits a due removal took off the table
        expired = set()   # real ids of the circuits the idle clean-up took down

        def in_removal_window():
            """-> model id of a circuit that would be the right one, was taken down by remove_circuit() and still
            lingers in the table (its timer is pending), 0 if there is none."""
            pend = {rid for rid, _t in w.pending_removals()}
            for c in w.observe_circuits():
                if c["closing"] and c["rid"] in pend and c["len"] >= c["goal"] >= 1 and c["flag"] and \
                        c["goal"] == w.tep.hops:
                    return w.cid_of.get(c["rid"], 0), c["rid"] in expired
            return 0, False

        def send(i):
            # which situation is this (bookkeeping for the vacuity check only; the verdict is TLC's)
            kind = book.kind(i)
            if kind == "plain":
                sit = "plain"
            elif kind == "open":
                sit = "open_shared_prefix"
            elif w.tep.tunnel_community is None:
                sit = "anon_detached"
            elif right_ready():
                sit = "anon_ready_circuit_after_backlog" if backlog[0] else "anon_ready_circuit"
                backlog[0] = 0
            else:
                sit = "anon_no_circuit_backlog_over_capacity" if backlog[0] >= QCAP else "anon_no_circuit"
                backlog[0] += 1
            stats[sit] += 1
            mark = {}
            if kind == "anon":
                for extra in book.lifecycle_situations(i):
                    stats[extra] += 1
                if w.tep.tunnel_community is not None:
                    wcid, by_expiry = in_removal_window()
                    if wcid and not sit.startswith("anon_ready"):
                        stats["anon_circuit_in_removal_window"] += 1
                        mark["wcid"] = wcid
                        if by_expiry:
                            stats["anon_circuit_expired_in_removal_window"] += 1
                            mark["xcid"] = wcid
                    if gone:
                        stats["anon_after_removal_due"] += 1
                        mark["gone"] = gone[-1]
            k = w.send(i)
            proj = log("send", {"i": i, "p": w.inst_lab[i - 1], "pkt": k, **mark})
            stats["tunnel_emissions"] += sum(1 for o in proj["out"] if o["k"] == "tun")
            stats["longest_queue"] = max(stats["longest_queue"], len(proj["queue"]))
            if len(w.tc.circuits) > 6:
                # real create_circuit starts a new circuit for every queued packet: keep the table small
                w.set_candidates(False)
                while len(w.tc.circuits) > 3:
                    w.removed(rng.randrange(1, len(w.tc.circuits) + 1))
                log("env", {})

        def sender():
            """Any instance ever built: loaded ones, replaced ones, unloaded ones (late senders)."""
            n = len(w.inst)
            gone = [i for i in range(1, n + 1) if not book.loaded[i - 1]]
            if gone and rng.random() < 0.25:
                return rng.choice(gone)
            return rng.randrange(1, n + 1)

        while len(events) < length:
            x = rng.random()
            ncirc = len(w.tc.circuits)
            if x < 0.39:
                send(sender())
            elif x < 0.42:
                i = sender()
                for _ in range(rng.choice([5, 20, 70, 120])):
                    if len(events) >= length + 60:
                        break
                    send(i)
            elif x < 0.49:
                lab = rng.choice(LABELS)
                v = rng.random() < 0.6
                w.set_anon(lab, v)
                book.set(lab, v)
                log("setanon", {"p": lab, "v": v})
            elif x < 0.52:
                if len(w.inst) < MAX_INSTANCES:
                    lab = rng.choice(LABELS)
                    # mostly the configuration the overlay was started with (a reload / a replacement)
                    a = insts[LABELS.index(lab)][1] if rng.random() < 0.7 else rng.random() < 0.5
                    w.load(lab, a)
                    book.load(lab, a)
                    log("load", {"p": lab, "v": bool(a)})
            elif x < 0.555:
                live = [i for i in range(1, len(w.inst) + 1) if book.loaded[i - 1]]
                if live:
                    i = rng.choice(live)
                    w.unload(i)
                    book.unload(i)
                    log("unload", {"i": i})
            elif x < 0.61:
                h = hops_pref if rng.random() < 0.7 else rng.choice([1, 2, 3])
                w.attach(h)
                log("attach", {"h": h})
            elif x < 0.63:
                w.detach()
                log("detach", {})
            elif x < 0.705:
                if ncirc < 5:
                    w.add_circuit(hops_pref if rng.random() < 0.7 else rng.choice([1, 2, 3]))
                    log("env", {})
            elif x < 0.835:
                cands = [i for i in range(1, ncirc + 1) if len(w.circuit_at(i).hops) < w.circuit_at(i).goal_hops]
                if cands:
                    w.hop_added(rng.choice(cands), rng.random() < 0.75)
                    log("env", {})
            elif x < 0.865:
                if w.pending_removals():         # remove_tunnel_delay has passed for the earliest removal
                    rid = w.removal_due()
                    if rid in w.cid_of and rid not in w.tc.circuits:
                        gone.append(w.cid_of[rid])
                    log("env", {"what": "due"})
            elif x < 0.91:
                if ncirc:                        # taken down in any way (a closing circuit may be removed again)
                    way = rng.choice(CLOSE_WAYS)
                    stats["taken_down_" + way] = stats.get("taken_down_" + way, 0) + 1
                    w.closing(rng.randrange(1, ncirc + 1), way)
                    log("env", {"what": way})
            elif x < 0.94:
                if ncirc:
                    w.removed(rng.randrange(1, ncirc + 1))
                    log("env", {})
            elif x < 0.952:                       # nothing comes in for max_time_inactive: the clean-up runs
                was = set(w.tc.circuits)
                down = w.expire()
                expired.update(down)
                gone.extend(w.cid_of[r] for r in was - set(w.tc.circuits) if r in w.cid_of)
                stats["taken_down_expire"] = stats.get("taken_down_expire", 0) + len(down)
                log("env", {"what": "expire"})
            else:
                w.set_candidates(rng.random() < 0.5)
                log("env", {})
    finally:
        w.cleanup()
    tr["events"] = events
    return tr


def validate_traces(ctx, traces, tag, expect_reject=False):
    """-> (ok, tid, event index) of TLC's verdict on the batch."""
    tmp = scratch_dir("c07t-")
    try:
        path = os.path.join(tmp, "traces.json")
        with open(path, "w", encoding="utf-8") as f:
            json.dump(traces, f)
        r = run_tlc("TunnelEndpointTrace.tla", "TunnelEndpointTrace.cfg", env={"TRACE_FILE": path}, coverage=False)
    finally:
        shutil.rmtree(tmp, ignore_errors=True)
    if not r.ok and r.violated != "TraceAccepted":
        raise MachineryError("TunnelEndpointTrace: unexpected TLC verdict %s" % r.violated)
    if expect_reject:
        return (not r.ok), None, None
    if tag:
        ctx.add_tlc(tag, r)
    if r.ok:
        return True, None, None
    last = r.error_trace[-1][1] if r.error_trace else {}
    tid, l = last.get("tid"), last.get("l")
    if not isinstance(tid, int):
        # "violated by the initial state": TLC prints that state without a 'State n:' header
        m1, m2 = re.search(r"/\\ tid = (\d+)", r.output), re.search(r"/\\ l = (\d+)", r.output)
        if m1 and m2:
            tid, l = int(m1.group(1)), int(m2.group(1))
    return False, tid, l


def all_rejected(falsified):
    """Negative controls of the trace binding in one TLC run -> index of a falsified history that TLC accepts to its
    end (None when every one of them is rejected somewhere)."""
    tmp = scratch_dir("c07c-")
    try:
        path = os.path.join(tmp, "traces.json")
        with open(path, "w", encoding="utf-8") as f:
            json.dump(falsified, f)
        r = run_tlc("TunnelEndpointTrace.tla", "TunnelEndpointTrace_ctl.cfg", env={"TRACE_FILE": path}, coverage=False)
    finally:
        shutil.rmtree(tmp, ignore_errors=True)
    if r.ok:
        return None
    if r.violated != "NoneAccepted":
        raise MachineryError("TunnelEndpointTrace (controls): unexpected TLC verdict %s" % r.violated)
    last = r.error_trace[-1][1] if r.error_trace else {}
    tid = last.get("tid")
    if not isinstance(tid, int):
        m = re.search(r"/\\ tid = (\d+)", r.output)
        tid = int(m.group(1)) if m else 1
    return tid - 1


def judge_divergent(ctx, rp):
    """Walks that left the implementation layer: violation only if the abstract layer rejects what was observed."""
    def sig_of(d):
        return "replay:%s:%s" % (d["labels"][-1].split("(")[0], ",".join(sorted(d["diff"])))
    benign, unjudged = [], 0
    pending = list(rp.divergent)
    for _round in range(6):
        if not pending:
            break
        ok, tid, l = validate_traces(ctx, [d["trace"] for d in pending], None)
        if ok:
            benign = pending
            pending = []
            break
        if not isinstance(tid, int):
            raise MachineryError("TunnelEndpointTrace: rejected a trace without naming it")
        bad = pending[tid - 1]
        evs = bad["trace"]["events"]
        ev = evs[l - 1] if isinstance(l, int) and 0 < l <= len(evs) else None
        if ev is not None:                       # report the walk up to the rejected event only
            bad["all_labels"] = bad["all_labels"][:bad["ev_label"][l - 1]]
            bad["trace"]["events"] = evs[:l]
        ctx.violation(sig_of(bad),
                      "real TunnelEndpoint leaves TunnelEndpoint.tla after %s (%s); of the walk %s the abstract "
                      "layer rejects event %s = %s" % (" ".join(bad["labels"]), str(bad["diff"])[:400],
                                                       " ".join(bad["all_labels"]), l, json.dumps(ev)[:600]),
                      {"insts": bad["trace"]["insts"], "attached": bad["trace"]["attached"], "cand": bad["cand"],
                       "circs0": bad["circs0"],
                       "actions": bad["all_labels"], "diff": bad["diff"], "event_index": l, "trace": bad["trace"]})
        # TLC names one rejected trace per run: judge the walks with another signature in the next round
        pending = [d for d in pending if sig_of(d) != sig_of(bad)]
    else:
        unjudged = len(pending)
    if unjudged:
        ctx.note("divergent_walks_not_judged", unjudged)
    if benign:
        b = benign[0]
        ctx.note("implementation_layer_divergences",
                 {"count": len(benign), "meaning": "the code no longer behaves like the implementation layer of "
                  "TunnelEndpoint.tla, but everything observed is allowed by the abstract layer (no violation)",
                  "first": {"actions": b["labels"], "diff": b["diff"]}})
        print("NOTE C07: %d replayed walks differ from the implementation layer of TunnelEndpoint.tla in behaviour "
              "the property leaves open (first: %s: %s)" % (len(benign), " ".join(b["labels"]), str(b["diff"])[:300]))


def corrupt_after_unload(trace, what):
    """A copy of a recorded history cut after the first send of an instance that asked for anonymity and was unloaded
    itself (what = "sender") / is the live replacement of an unloaded instance (what = "replacement"), that packet
    reported on the raw socket: the history the code would record if unloading took the request back."""
    t = json.loads(json.dumps(trace))
    book = Asked([(r["p"], r["req"]) for r in t["insts"]])
    for n, e in enumerate(t["events"]):
        if e["a"] == "load":
            book.load(e["p"], e["v"])
        elif e["a"] == "unload":
            book.unload(e["i"])
        elif e["a"] == "setanon":
            book.set(e["p"], e["v"])
        elif e["a"] == "send" and book.kind(e["i"]) == "anon" and \
                ("anon_sender_unloaded" if what == "sender" else "anon_replacement_of_unloaded") in \
                book.lifecycle_situations(e["i"]):
            e["out"] = [{"k": "raw", "pkt": e["pkt"], "cid": 0}]
            e["queue"] = [q for q in e["queue"] if q != e["pkt"]]
            t["events"] = t["events"][:n + 1]
            return t
    return None


def corrupt(trace, how):
    """A copy of a recorded history with one observation falsified (negative controls of the trace binding)."""
    if how.startswith("unload-"):
        return corrupt_after_unload(trace, how[7:])
    t = json.loads(json.dumps(trace))
    if how in ("window", "gone", "expired"):
        # the packet of an anonymised send travels over the circuit that lingers in the table after remove_circuit()
        # ("window"; "expired": after the idle clean-up took it down) / that a due removal has taken off the table
        # ("gone"): the history a code would record that
        # does not treat a circuit that was taken down as not ready
        key = {"window": "wcid", "gone": "gone", "expired": "xcid"}[how]
        for n, e in enumerate(t["events"]):
            if e["a"] == "send" and e.get(key):
                e["out"] = [{"k": "tun", "pkt": e["pkt"], "cid": e[key]}]
                e["queue"] = [q for q in e["queue"] if q != e["pkt"]]
                t["events"] = t["events"][:n + 1]
                return t
        return None
    for i, e in enumerate(t["events"]):
        tun = [o for o in e["out"] if o["k"] == "tun"]
        if not tun:
            continue
        if how == "raw":            # the anonymised packet is reported on the raw socket instead
            tun[0]["k"], tun[0]["cid"] = "raw", 0
        elif how == "wrong-circuit":   # ... over a circuit that is not in the table
            tun[0]["cid"] = 999
        elif how == "still-queued":    # ... sent and still queued
            e["queue"] = [tun[0]["pkt"]] + e["queue"]
        elif how == "closing":         # ... over a circuit that was already closing when send() was called
            for ev in t["events"][max(0, i - 1):i + 1]:
                for c in ev["circs"]:
                    if c["id"] == tun[0]["cid"]:
                        c["closing"] = True
        t["events"] = t["events"][:i + 1]
        return t
    return None


def run_replay_file(ctx, lib, loop, path):
    """--replay: execute the recorded actions again on the current tree and let the abstract layer judge them."""
    with open(path, encoding="utf-8") as f:
        rep = json.load(f)["replay"]
    if "actions" not in rep:
        # a recorded history (binding T): judge the stored observations again is pointless - re-run is seeded
        raise MachineryError("C07: this replay file holds a recorded random history; re-run the tier with seed %s"
                             % rep.get("seed", "of the file"))
    if "insts" in rep:
        insts = [(r["p"], r["req"]) for r in rep["insts"]]
    else:                                    # files written before instances were modelled: one instance per prefix
        insts = sorted((k, v) for k, v in rep["initial"].items() if k in ("A", "B"))
    circs0 = rep.get("circs0", [])
    w = World(lib, loop, insts, rep["attached"], rep["cand"], circs0)
    rp = Replayer(ctx, lib, loop)
    events = []
    cur = {}                                 # the model's switch: ToggleAnon(p) calls set_anonymity(p, not cur[p])
    for lab, a in insts:
        cur[lab] = cur.get(lab, False) or bool(a)
    try:
        w.observe()
        for lab in rep["actions"]:
            m = re.match(r"(\w+)\((.*)\)$", lab)
            name = m.group(1)
            args = [x for x in m.group(2).split(",") if x != ""]
            args = [int(x) if x.isdigit() else (x == "True") if x in ("True", "False") else x for x in args]
            if name in ("SendAnon", "SendPlain", "FillQueue") and isinstance(args[0], str):
                args[0] = w.inst_lab.index(args[0]) + 1           # old files name the sender by its prefix
            src = {"anon": dict(cur), "nsent": w.nsent}
            dst = {"nsent": w.nsent + max(0, QCAP - 1 - len(w.tep.send_queue))}
            _proj, evs = rp.apply(w, name, args, src, dst)
            if name == "ToggleAnon":
                cur[args[0]] = not cur[args[0]]
            elif name == "Load" and args[1]:
                cur[args[0]] = True
            events.extend(evs)
    finally:
        w.cleanup()
    tr = trace_header(insts, rep["attached"], 1 if rep["attached"] else 0, circs0)
    tr["events"] = events
    ok, _tid, l = validate_traces(ctx, [tr], "replay")
    ctx.evaluated(len(events))
    ctx.traces(1)
    ctx.nontrivial(("replay", tuple(rep["actions"])))
    ctx.sample({"replayed_actions": rep["actions"]})
    if not ok:
        ev = events[l - 1] if isinstance(l, int) and 0 < l <= len(events) else None
        ctx.violation("replay-file:%s" % os.path.basename(path),
                      "replayed actions %s: the abstract layer rejects event %s = %s"
                      % (" ".join(rep["actions"]), l, json.dumps(ev)[:600]), rep)
    uninstall()
    return ctx.finish()


def run(tier, seed, replay=None):
    setup_repo_path()
    ctx = Ctx(PID, tier, seed, "model_checking")     # before install(): its wall clock must be the real one
    loop = install(StepLoop())
    lib = Lib()
    ctx.cov["rule"] = ("TLC enumerates every interleaving of 7 events (send by either overlay, toggle, attach/detach, "
                       "circuit added/hop added/closing/removed, queue fill) from every initial configuration, and "
                       "every interleaving of 5 (thorough 6) events that also load further overlay instances, unload "
                       "instances and let loaded, replaced and unloaded instances send, and every interleaving of 6 "
                       "(thorough 7) events after a ready circuit that is taken down in every way (Circuit.close / "
                       "remove_circuit, with and without reason, remove_now, destroy) with its removal timer; graph "
                       "walks and simulated deep behaviours are executed on the real TunnelEndpoint/Community/"
                       "TunnelCommunity/Circuit objects and compared after every action; random real histories are "
                       "judged by the abstract layer. non-trivial = distinct replayed walks and distinct recorded "
                       "histories (each contains sends)")
    ctx.assumptions += ["the wrapped endpoint is a recording stub: what reaches its send() is 'the raw socket'",
                        "circuits are brought to their states by add_hop() / close() / the real remove_circuit() "
                        "task / table removal on real Circuit objects, not by a network handshake; of the timers only the "
                        "removal timers of remove_circuit() fire (the retry timers of create_circuit never do); the "
                        "periodic do_remove runs only as the Expire event, after which the harness restores the "
                        "circuit candidates it had configured",
                        "an application never enables anonymity for the TunnelCommunity's own prefix"]
    if replay:
        return run_replay_file(ctx, lib, loop, replay)
    rng = random.Random(seed)
    phases = {}
    t_prev = [time.perf_counter(), time.process_time()]

    def phase(name):
        now = [time.perf_counter(), time.process_time()]
        phases[name] = {"wall_s": round(now[0] - t_prev[0], 1), "python_cpu_s": round(now[1] - t_prev[1], 1)}
        t_prev[:] = now

    # spec-level negative controls and the exhaustive runs are TLC processes: they overlap with the replays
    pool = concurrent.futures.ThreadPoolExecutor(8)
    spec_controls = [
        ("spec that falls back to the raw socket without tunnel community violates NoRawForAnon",
         "TunnelEndpoint_leak.cfg", lambda r: r.violated == "NoRawForAnon"),
        ("spec that ignores the circuit state violates TunnelledOnlyOverReadyRightCircuit",
         "TunnelEndpoint_anystate.cfg", lambda r: r.violated == "TunnelledOnlyOverReadyRightCircuit"),
        ("spec in which unloading an overlay instance switches anonymity of its prefix off violates NoRawForAnon",
         "TunnelEndpoint_unloadclears.cfg", lambda r: r.violated == "NoRawForAnon"),
        ("spec in which a circuit taken down without a reason text keeps reporting READY violates "
         "TunnelledOnlyOverReadyRightCircuit",
         "TunnelEndpoint_reasondecides.cfg", lambda r: r.violated == "TunnelledOnlyOverReadyRightCircuit"),
        ("spec in which a circuit taken down without a reason text keeps reporting READY violates StateFollowsClose",
         "TunnelEndpoint_reasondecides_st.cfg", lambda r: r.violated == "StateFollowsClose")]
    if tier != "quick":
        spec_controls += [
            ("spec that ignores the circuit state does not refine the abstract layer",
             "TunnelEndpoint_anystate_abs.cfg", lambda r: r.violated is not None and r.violated != "deadlock"),
            ("spec in which unloading switches anonymity off does not refine the abstract layer",
             "TunnelEndpoint_unloadclears_abs.cfg", lambda r: r.violated is not None and r.violated != "deadlock"),
            ("spec in which a circuit taken down without a reason text keeps reporting READY does not refine the "
             "abstract layer",
             "TunnelEndpoint_reasondecides_abs.cfg", lambda r: r.violated is not None and r.violated != "deadlock")]
    only_t = os.environ.get("C07_ONLY_HISTORIES") == "1"     # self-test switch: binding T on its own
    ctl_futs = []

    def start_controls():
        ctl_futs.extend((text, pool.submit(run_tlc, "TunnelEndpoint.tla", cfg, coverage=False, workers=2), pred)
                        for text, cfg, pred in spec_controls)

    def tlc_bg(cfg, **k):
        return pool.submit(run_tlc, "TunnelEndpoint.tla", cfg, **k)

    def record_histories(ntr, tlen, controls):
        """Binding T.  The histories are recorded now; TLC judges them (and, in a second run, their falsified copies =
        trace-level negative controls) beside whatever comes next."""
        stats = dict.fromkeys(SITUATIONS + ["tunnel_emissions", "longest_queue"], 0)
        traces = [random_history(lib, loop, rng, tlen, stats) for _ in range(ntr)]
        bads = [next((c for c in (corrupt(t, how) for t in traces) if c), None) for how in controls]
        fut_val = pool.submit(validate_traces, ctx, traces, "trace")
        fut_ctl = pool.submit(all_rejected, bads) if all(bads) else None
        return traces, stats, controls, bads, fut_val, fut_ctl

    def judge_histories(traces, stats, controls, bads, fut_val, fut_ctl):
        ok, tid, l = fut_val.result()
        ctx.note("recorded_histories", {"count": len(traces), "events": sum(len(t["events"]) for t in traces),
                                        "sends_by_situation": stats})
        if not ok:
            bad = traces[tid - 1] if isinstance(tid, int) else None
            ev = bad["events"][l - 1] if bad and isinstance(l, int) and l <= len(bad["events"]) else None
            what = "raw" if ev and any(o["k"] == "raw" for o in ev["out"]) and ev.get("a") == "send" else "step"
            ctx.violation("trace:%s:%s" % (ev.get("a") if ev else "?", what),
                          "recorded history of the real TunnelEndpoint is not allowed by the abstract layer of "
                          "TunnelEndpoint.tla at event %s: %s" % (l, json.dumps(ev)[:600]),
                          {"event_index": l, "trace": {**bad, "events": bad["events"][:l]} if bad else None})
        else:
            vac = [k for k in SITUATIONS if stats[k] == 0] + \
                  [w for w in CLOSE_WAYS + ("expire",) if not stats.get("taken_down_" + w)]
            if vac:
                raise MachineryError("C07: recorded histories never exercised %s" % vac)
            ctx.traces(len(traces))
            ctx.evaluated(sum(len(t["events"]) for t in traces))
            for t in traces:
                ctx.nontrivial(("trace", json.dumps(t["events"][:60], sort_keys=True)))
            first = traces[0]
            ctx.sample({"recorded_history": {"insts": first["insts"], "attached": first["attached"],
                                             "first_events": first["events"][:4]}})
            # trace-level negative controls
            texts = {"unload-sender": "history in which an unloaded overlay that asked for anonymity sends from the "
                                      "raw socket is rejected",
                     "unload-replacement": "history in which the live replacement of an unloaded anonymised overlay "
                                           "sends from the raw socket is rejected",
                     "raw": "history reporting an anonymised packet on the raw socket is rejected",
                     "wrong-circuit": "history reporting tunnel data over an unknown circuit is rejected",
                     "closing": "history reporting tunnel data over a closing circuit is rejected",
                     "still-queued": "history reporting a packet both sent and still queued is rejected",
                     "window": "history in which a packet travels over a circuit that lingers in the table after "
                               "remove_circuit() (removal timer pending) is rejected",
                     "expired": "history in which a packet travels over a circuit that the clean-up took down after "
                                "max_time_inactive (removal timer pending) is rejected",
                     "gone": "history in which a packet travels over a circuit that a due removal took off the "
                             "table is rejected"}
            if fut_ctl is None:
                raise MachineryError("C07: no recorded history to corrupt for control %r"
                                     % controls[[b is None for b in bads].index(True)])
            accepted = fut_ctl.result()
            for n, how in enumerate(controls):
                ctx.control(texts[how], n != accepted)

    rp = Replayer(ctx, lib, loop)
    exhaustive = {}          # tag -> pending exhaustive TLC run; collected after everything else was done
    if only_t:
        exhaustive["exhaustive"] = tlc_bg("TunnelEndpoint_d4.cfg")
        start_controls()
        hist = record_histories(40, 200, ("raw", "closing", "unload-sender", "unload-replacement", "window", "gone",
                                          "expired"))
        phase("record_histories")
    elif tier == "quick":
        exhaustive["exhaustive"] = tlc_bg("TunnelEndpoint_d7.cfg")
        g4 = pool.submit(dumped_graph, ctx, "TunnelEndpoint_d4.cfg", "d4")
        hist = record_histories(40, 200, ("raw", "closing", "unload-sender", "unload-replacement", "window", "gone",
                                          "expired"))
        phase("record_histories")
        g4 = g4.result()                                           # the replays wait for this one only
        exhaustive["exhaustive_lifecycle"] = tlc_bg("TunnelEndpoint_lc5.cfg")
        exhaustive["exhaustive_removal"] = tlc_bg("TunnelEndpoint_rm6.cfg")
        glc = pool.submit(dumped_graph, ctx, "TunnelEndpoint_lc3.cfg", "lc3", True)
        grm = pool.submit(dumped_graph, ctx, "TunnelEndpoint_rm4.cfg", "rm4", False, True)
        sim = pool.submit(simulated_behaviours, ctx.seed, 250, 50)
        start_controls()
        # every path of 3 events, then the seeded part of the transition cover of 4 events (same dumped graph)
        replay_graph(ctx, rp, g4, "d4", 3, 10000)
        phase("replay_paths_and_cover")
        replay_lifecycle(ctx, rp, glc.result(), "lc3", 3, every=False)
        phase("replay_lifecycle")
        # one overlay, a ready circuit at the start: take-down then send (3 events), ... and a due timer (4 events)
        replay_removal(ctx, rp, grm.result(), "rm4", 3, "send")
        replay_removal(ctx, rp, grm.result(), "rm4d", 4, "send+due")
        phase("replay_removal")
        replay_simulated(ctx, rp, sim.result(), 50)
        phase("replay_simulated")
    else:
        exhaustive["exhaustive"] = tlc_bg("TunnelEndpoint_d8.cfg", timeout=7200)
        exhaustive["exhaustive_lifecycle"] = tlc_bg("TunnelEndpoint_lc6.cfg", timeout=7200)
        exhaustive["exhaustive_removal"] = tlc_bg("TunnelEndpoint_rm7.cfg", timeout=7200)
        sim = pool.submit(simulated_behaviours, ctx.seed, 5000, 80)
        start_controls()
        hist = record_histories(300, 200, ("raw", "wrong-circuit", "closing", "still-queued", "unload-sender",
                                           "unload-replacement", "window", "gone", "expired"))
        phase("record_histories")
        replay_graph(ctx, rp, "TunnelEndpoint_d4.cfg", "d4", 4, 0)          # every path of 4 events
        phase("replay_paths")
        replay_graph(ctx, rp, "TunnelEndpoint_d5.cfg", "d5", 0, None)       # complete transition cover, 5 events
        phase("replay_cover")
        replay_lifecycle(ctx, rp, "TunnelEndpoint_lc3t.cfg", "lc3", 3, every=True)
        phase("replay_lifecycle")
        replay_removal(ctx, rp, "TunnelEndpoint_rm3.cfg", "rm3", 3, "all")       # two overlays
        replay_removal(ctx, rp, "TunnelEndpoint_rm4.cfg", "rm4", 4, "send")      # one overlay
        phase("replay_removal")
        replay_simulated(ctx, rp, sim.result(), 80)
        phase("replay_simulated")
    ctx.evaluated(rp.nops)
    ctx.traces(rp.nwalks)
    ctx.note("replay_actions_executed", rp.seen_actions)
    if rp.divergent:
        judge_divergent(ctx, rp)
        phase("judge_divergent_walks")

    judge_histories(*hist)
    phase("judge_histories")
    # the model-checking runs that went on beside all of the above
    for text, fut, pred in ctl_futs:
        ctx.control(text, pred(fut.result()))
    for tag, fut in exhaustive.items():
        r = fut.result()
        ctx.add_tlc(tag, r)
        if not r.ok:
            raise MachineryError("TunnelEndpoint (%s): TLC reports %s on the specification itself" % (tag, r.violated))
        check_coverage(r, tag, lifecycle=tag.endswith("lifecycle"))
    ctx.cov["exhaustive"] = True
    pool.shutdown()
    phase("tlc_exhaustive_wait")
    ctx.note("phases", phases)
    if World.exceptions[0]:
        ctx.note("exceptions_raised_by_the_code", {"count": World.exceptions[0], "first": World.exceptions[1]})
    uninstall()                                      # real time.time() again for the evidence file
    return ctx.finish()
