"""C04 - onion circuits deliver data intact and never expose it in transit.
Onion.tla model-checked (tamper / splice / inject / header manipulation); real circuits of 1..3 hops driven step by
step with the layer depth of every in-flight cell MEASURED on the real bytes with the real session keys, every byte
position of in-flight cells altered; all recorded executions validated by TLC against OnionTrace.tla."""
from __future__ import annotations

from ..common import Ctx, setup_repo_path
from .. import onion_check as K
from .. import onion_runs as R

PID = "C04"
NONTRIVIAL = {"Tamper", "TamperHeader", "Splice", "Inject", "AdvPlain", "SendData", "ExitReturn"}


def positions(n_bytes, tier, rng):
    hdr = list(range(0, 29))
    body = list(range(29, n_bytes))
    if tier == "quick":
        body = sorted(set([29, 30, 36, 37, n_bytes - 17, n_bytes - 16, n_bytes - 1] + rng.sample(body, min(6, len(body)))))
        body = [p for p in body if 29 <= p < n_bytes]
    elif tier == "stride":
        # long cells in the thorough tier: the first 24 and the last 24 body bytes (nonce / counter, tag) and every 16th between
        body = sorted(set(body[:24] + body[-24:] + body[::16]))
    return hdr + body


def tamper_walk(w, tier, rng, o, goal, size, p_id):
    """one circuit; for the data cell on every link (both directions): duplicate it, alter one byte of the copy,
    deliver the copy (must be inert), for every chosen byte position; then let the original through"""
    cid = K.build(w, o, goal)
    w.send_data(o, cid, p_id, size=size)
    hops = 0
    returned = False
    for _ in range(40):
        if not w.net.inflight:
            if returned:
                break
            log = w.exit_log()
            mine = [e for e in log if e["p"] == p_id]
            if not mine:
                break
            w.exit_return(mine[0]["n"], mine[0]["cid"], p_id)
            returned = True
            continue
        d = w.net.inflight[0]
        for bit, pos in enumerate(positions(len(d.data), tier, rng)):
            w.dup(d.seq)
            cp = w.net.inflight[-1]
            w.tamper_at(cp.seq, pos, bit % 8)
            if any(x.seq == cp.seq for x in w.net.inflight):
                w.deliver(cp.seq)
            # whatever the altered copy caused to be sent (a relay forwards backward cells blindly) is delivered too
            for _k in range(6):
                extra = [x for x in w.net.inflight if x.seq > cp.seq]
                if not extra:
                    break
                w.deliver(extra[0].seq)
        w.deliver(d.seq)
        hops += 1
    return cid


def extend_window(w, goal):
    """while the circuit is being extended (the owner knows only its first hop) an outsider sends the first hop, on the id
    of the link behind it, unencrypted cells that do not carry the plaintext flag: the relay wraps them on the way back.
    The owner must deliver nothing of it."""
    w.create_circuit("o", goal)
    held = None
    for _ in range(30):
        if not w.net.inflight:
            break
        d = w.net.inflight[0]
        desc = w.describe(d)
        if desc["dst"] == "o" and not desc["plain"]:
            held = d                     # the extended answer: held back, the owner stays in the window
            break
        w.deliver(d.seq)
    back = [r["cid"] for r in w.project()["relay"]["r1"] if r["dir"] == "B"]
    for c in back:
        for mt in ("data", "ping"):
            w.adv_plain("adv", "r1", c, mt)
            seq = w.net.inflight[-1].seq
            w.tamper_header(seq, "plain")
            for x in [x for x in w.net.inflight if held is None or x.seq != held.seq]:
                w.deliver(x.seq)
            for x in [x for x in w.net.inflight if held is None or x.seq != held.seq]:
                w.deliver(x.seq)
    while w.net.inflight:
        w.deliver(w.net.inflight[0].seq)
    for c in list(w.ov["o"].circuits.values()):
        if c.state == "READY":
            w.send_data("o", w.cid(c.circuit_id), 1)
    while w.net.inflight:
        w.deliver(w.net.inflight[0].seq)


def dual_stack_walk(w, goal):
    """dual-stack hosts (a DispatcherEndpoint over an IPv4 and an IPv6 interface, as ipv8_service builds them): once a
    circuit carries data, fabricated cells - unencrypted, for every id in use, of both kinds - arrive at every node on
    both of its interfaces; the tunnel layer must guard each interface alike"""
    cid = K.build(w, "o", goal)
    w.send_data("o", cid, 1)
    while w.net.inflight:
        w.deliver(w.net.inflight[0].seq)
    known = sorted(set(w.cid_map.values()))
    for n in w.names:
        for c in known:
            for mt in ("data", "ping"):
                for _both in range(2):           # _adv_put alternates between the IPv6 and the IPv4 interface
                    w.adv_plain("adv", n, c, mt)
                    while w.net.inflight:
                        w.deliver(w.net.inflight[0].seq)
            for _both in range(2):
                w.inject("adv", n, c, "data")
                while w.net.inflight:
                    w.deliver(w.net.inflight[0].seq)
    w.send_data("o", cid, 2)
    while w.net.inflight:
        w.deliver(w.net.inflight[0].seq)


def e2e_walk(w, tier, rng, g1, g2):
    """two circuits (g1 and g2 hops) that end in the same rendezvous node are linked (hidden services); data flows in
    both directions under the extra end-to-end layer; on every link a copy of the cell is altered and delivered; the
    rendezvous point - which holds the hop keys of both halves - forges cells without the end-to-end key"""
    a = K.build(w, "o", g1)
    b = K.build(w, "o2", g2)
    st = w.project()
    ex = sorted(e["cid"] for e in st["exit"]["x"])
    w.link_e2e("x", ex[0], ex[1], "o", a, "o2", b)
    p = 0
    # payloads of every look (see OnionWorld.payload): to the spec they are opaque, e2e data is handed to on_raw_data as is
    for sender, cid, size, shape in (("o", a, 0, "raw"), ("o2", b, 100, "ipv8"), ("o", a, 900, "tunnel")):
        p += 1
        w.send_e2e(sender, cid, p, size=size, shape=shape)
        for _ in range(12):
            if not w.net.inflight:
                break
            d = w.net.inflight[0]
            for bit, pos in enumerate(positions(len(d.data), "quick", rng)[::3 if tier == "quick" else 1]):
                w.dup(d.seq)
                cp = w.net.inflight[-1]
                w.tamper_at(cp.seq, pos, bit % 8)
                if any(x.seq == cp.seq for x in w.net.inflight):
                    w.deliver(cp.seq)
                for _k in range(8):
                    extra = [x for x in w.net.inflight if x.seq > cp.seq]
                    if not extra:
                        break
                    w.deliver(extra[0].seq)
            w.deliver(d.seq)
    for shape in ("ipv8", "tunnel", "raw"):
        for sender, cid in (("o", a), ("o2", b)):
            p += 1
            w.send_e2e(sender, cid, p, size=30, shape=shape)
            while w.net.inflight:
                w.deliver(w.net.inflight[0].seq)
    # the rendezvous point turns cells round: a copy of each side's cell is sent back to its own sender
    xaddr = (w.nodes["x"].address[0], w.nodes["x"].address[1])
    for sender, cid in (("o", a), ("o2", b), ("o", a)):
        p += 1
        w.send_e2e(sender, cid, p, size=10)
        for _ in range(12):
            if not w.net.inflight:
                break
            d = w.net.inflight[0]
            if d.dst == xaddr and len(d.data) > 29 and d.data[27] == 0:
                w.dup(d.seq)
                w.rp_reflect("x", w.net.inflight[-1].seq)
            w.deliver(d.seq)
        while w.net.inflight:
            w.deliver(w.net.inflight[0].seq)
    for entry in sorted(r["cid"] for r in w.project()["relay"]["x"] if r["rdv"]):
        w.rp_forge("x", entry)
        while w.net.inflight:
            w.deliver(w.net.inflight[0].seq)
    w.run_until(w.now_ms() + 9000)      # pings travel through the rendezvous point, too


def run(tier, seed, replay=None):
    setup_repo_path()
    import random
    ctx = Ctx(PID, tier, seed, "model_checking")
    ctx.cov["rule"] = ("TLC explores Onion.tla (1-3 hops, data both ways, tampered / spliced / injected / header-flipped cells); "
                       "real TunnelCommunity nodes are stepped action by action, each step logged with tables, in-flight "
                       "datagrams and the layer depth measured on the real ciphertext; TLC validates every recorded execution "
                       "and evaluates ExitIntegrity, ReturnIntegrity, LayerDepth, NoRepeatOnLinks on it; non-trivial = distinct "
                       "executions containing data transfer or an attack step")
    if replay and K.replay_file(ctx, PID, replay, NONTRIVIAL):
        return ctx.finish()
    ctx.assumptions += ["ChaCha20-Poly1305 / HKDF / X25519 of ipv8_rust_tunnels are idealised (symbolic AEAD, Dolev-Yao)",
                        "only PythonCryptoEndpoint (not the Rust endpoint fast path); for e2e (hidden-service) circuits the "
                        "rendezvous link and the shared end-to-end key are set up by the harness on the real tables (the "
                        "create-e2e/link-e2e handshake is not driven); test-request cells are not driven", "payload sizes {0, 1, 100, 900} (+1400 thorough), not all 0..MTU"]
    rng = random.Random(seed)
    bg = K.Background(["Onion_c04_g3.cfg", "Onion_c04_e2e_q.cfg", "Onion_c04_window_q.cfg"] +
                      (["Onion_c04_g12.cfg", "Onion_c04_e2e.cfg"] if tier == "thorough" else []),
                      [("Onion_c04_noaead.cfg", "ExitIntegrity",
                        "spec without AEAD authentication delivers altered data (ExitIntegrity violated)"),
                       ("Onion_c04_nodataguard_q.cfg", "ReturnIntegrity",
                        "spec in which the owner of a circuit that is still being extended takes data from it (the code before "
                        "the fix) delivers an outsider's unencrypted cell that the relay wrapped (ReturnIntegrity violated)")])
    nseeds = 4 if tier == "quick" else 20
    steps = 160 if tier == "quick" else 400
    base = seed * 1000
    ok, traces, hdr = K.random_family(ctx, PID, "line4", "honest", range(base, base + nseeds), steps, NONTRIVIAL)
    if ok:
        K.trace_control(ctx, "trace with one measured layer depth altered is rejected", traces, "line4", hdr, _bump_depth)
        K.trace_control(ctx, "trace whose exit log names another payload is rejected", traces, "line4", hdr, _swap_payload)
    K.random_family(ctx, PID, "line4", "tamper", range(base, base + nseeds), steps, NONTRIVIAL)
    if tier == "thorough":
        K.random_family(ctx, PID, "two_origins", "tamper", range(base, base + nseeds), steps, NONTRIVIAL)
    # every byte position of in-flight cells, every link, both directions, 1..3 hops
    walks = []
    hdr = None
    p = 0
    for goal in (1, 2, 3):
        for size in ([0, 100] if tier == "quick" else [0, 1, 100, 900, 1400]):
            w = R.world("line4", seed * 100 + goal * 10 + size % 7)
            try:
                p = 1      # payload numbers are per world (the spec numbers them 1, 2, ... in sending order)
                # (every byte of the short cells; thorough: a stride over the long ones - a walk over every byte of a
                # 1.4 kB cell on six links is some 30 000 recorded steps, hours of sequential trace validation)
                wt = tier if size in (0, 1) else ("stride" if tier == "thorough" else "quick")
                gone = K.guarded(w, tamper_walk, w, wt, rng, "o", goal, size, p)
                tr = {"events": w.events, "topology": "line4", "seed": seed, "profile": "tamper-walk g%d s%d" % (goal, size),
                      "aborted": gone}
                K.check_escapes(ctx, w, tr, "tamper-walk")
                walks.append(tr)
                hdr = w.header()
            finally:
                w.close()
    # (one JVM per few walks: a thorough walk alters every byte and is thousands of events long)
    step = 15 if tier == "quick" else 3
    for i in range(0, len(walks), step):
        K.validate_family(ctx, PID, walks[i:i + step], "line4", hdr, "tamper-walk" + ("[%d]" % (i // step) if step < 15 else ""),
                          NONTRIVIAL, timeout=1800 if tier == "quick" else 10000)
    e2e = []
    for i, (g1, g2) in enumerate([(1, 1), (2, 2)] if tier == "quick" else [(1, 1), (1, 2), (2, 1), (2, 2), (1, 3), (3, 1)]):
        w = R.world("two_origins", seed * 100 + 70 + i)
        try:
            gone = K.guarded(w, e2e_walk, w, tier, rng, g1, g2)
            tr = {"events": w.events, "topology": "two_origins", "seed": seed, "profile": "e2e %d+%d hops" % (g1, g2),
                  "aborted": gone}
            K.check_escapes(ctx, w, tr, "e2e")
            e2e.append(tr)
            hdr_e = w.header()
        finally:
            w.close()
    K.validate_family(ctx, PID, e2e, "two_origins", hdr_e, "e2e", NONTRIVIAL | {"SendE2E", "RPForge", "RPReflect"})
    dual = []
    for goal in ((1, 2) if tier == "quick" else (1, 2, 3)):
        w = R.world("line4", seed * 100 + 85 + goal, dual_stack=True)
        try:
            gone = K.guarded(w, dual_stack_walk, w, goal)
            tr = {"events": w.events, "topology": "line4", "seed": seed, "profile": "dual-stack g%d" % goal, "aborted": gone}
            K.check_escapes(ctx, w, tr, "dual-stack")
            dual.append(tr)
            hdr_d = w.header()
        finally:
            w.close()
    K.validate_family(ctx, PID, dual, "line4", hdr_d, "dual-stack", NONTRIVIAL)
    win = []
    for goal in (2, 3):
        w = R.world("line4", seed * 100 + 97 + goal)
        try:
            gone = K.guarded(w, extend_window, w, goal)
            trw = {"events": w.events, "topology": "line4", "seed": seed, "profile": "extend-window g%d" % goal, "aborted": gone}
            K.check_escapes(ctx, w, trw, "extend-window")
            win.append(trw)
            hdr_w = w.header()
        finally:
            w.close()
    K.validate_family(ctx, PID, win, "line4", hdr_w, "extend-window", NONTRIVIAL | {"AdvPlain"})
    # what comes back from outside may itself look like a data message of the tunnel community for any circuit id
    w = R.world("line4", seed * 100 + 95)
    try:
        gone = K.guarded(w, K.nested_walk, w, (2, 1))
        tr = {"events": w.events, "topology": "line4", "seed": seed, "profile": "nested-from-outside", "aborted": gone}
        K.check_escapes(ctx, w, tr, "nested-from-outside")
        hdr_n = w.header()
    finally:
        w.close()
    K.validate_family(ctx, PID, [tr], "line4", hdr_n, "nested-from-outside", NONTRIVIAL | {"OutsideNested"})
    K.random_family(ctx, PID, "line4", "tamper", range(base + 50, base + 50 + (1 if tier == "quick" else 6)), steps, NONTRIVIAL,
                    dual_stack=True)
    ctx.note("e2e", {"runs": len(e2e), "events": sum(len(t["events"]) for t in e2e),
                     "forged_by_rendezvous": sum(1 for t in e2e for e in t["events"] if e["a"] == "RPForge")})
    ctx.note("tamper_walk", {"walks": len(walks), "events": sum(len(t["events"]) for t in walks),
                             "altered_copies": sum(1 for t in walks for e in t["events"] if e["a"] in ("Tamper", "TamperHeader", "Splice"))})
    bg.collect(ctx)
    ctx.cov["exhaustive"] = False
    return ctx.finish()


def _bump_depth(t):
    for e in t["events"]:
        for d in e["post"]["net"]:
            if d.get("t") == "cell" and d.get("depth", 0) > 0:
                d["depth"] += 1
                return
    raise RuntimeError("no encrypted cell in the control trace")


def _swap_payload(t):
    for e in t["events"]:
        if e["post"]["exitLog"]:
            e["post"]["exitLog"][0]["p"] += 77
            return
    raise RuntimeError("no exit log entry in the control trace")
