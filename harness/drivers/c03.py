"""C03 - receive path totality + strict decoding.

specs/Receive.tla      demultiplexing / cell pre-processing / handler dispatch as a total function (model checked:
                       every byte string of a scaled-down instance x listener layouts; table operations)
specs/WireStrict.tla   strict decoder of the length-prefixed / nested / array formats (model checked: every byte
                       string up to MaxLen for 14 format lists; ReEncode, EndInside, NoSilentTruncation)
                       + the circuit tables as state (RemoveTun / Tick / Sweep: relay routes and rendezvous links
                       are installed in pairs and removed one by one) and the exit socket's own receive path
                       (ExitReceive: DataChecker / is_allowed / tunnel_data) - Receive_tables.cfg
                       + the registrations as history (Mode "reg" of ReceiveMC.tla): every sequence of add_listener /
                       add_prefix_listener / remove_listener / open-close over two overlays that share a prefix, a
                       third overlay and a sink; RegistryServed (the table serves whoever asked, for every prefix),
                       OnlyRemoveUnregisters; deviations "evict" / "prune" as negative controls
binding R              TLC's graph of the table operations is replayed edge by edge into a real UDPEndpoint with real
                       Community objects (harness/c03_reg.py); tables compared after every operation; every small
                       datagram delivered in every table state, logged and validated by ReceiveTrace.tla
binding T              real overlays on a real UDPEndpoint (recording transport) are fed through
                       UDPEndpoint.datagram_received; every table operation and every delivery is logged and
                       TLC validates the log against Receive.tla with the real constants (ReceiveTrace.tla);
                       history families: the real node's own remove_relay / remove_circuit / remove_exit_socket,
                       its clock and its periodic do_circuits -> do_remove are run between batteries of cells;
                       datagrams from the outside enter through TunnelProtocol.datagram_received of the exit
                       socket's (recording) UDP sockets;
                       every decode of the real Serializer is logged and validated against WireStrict.tla.
"""
from __future__ import annotations

import json
import os
import random
import re
import shutil
import struct
import time

from ..common import Ctx, setup_repo_path
from ..tlc import MachineryError, scratch_dir
from ..tlc import run_tlc as _run_tlc

PID = "C03"
SEG = 1500          # deliveries per trace segment (segments are validated in parallel by TLC)
TABLE_OPS = ("tables", "install", "tick", "sweep", "rmtun")     # events that carry a snapshot of the circuit tables


def run_tlc(*a, **k):
    """run_tlc with the wall time measured on a clock the virtual-time loop does not replace"""
    t0 = time.perf_counter()
    r = _run_tlc(*a, **k)
    r.wall = time.perf_counter() - t0
    return r


_BAD = re.compile(r'<<"C03BAD", (\d+), (\d+), "([a-z-]+)">>')     # reasons: raised unserved isolation table nosocket
_DRIFT = re.compile(r'<<"C03DRIFT", (\d+), (\d+)>>')


# =====================================================================================================
# receive side
# =====================================================================================================
class Rx:
    def __init__(self, ctx, tier, seed):
        from .. import c03_world as W
        from ..vloop import VLoop, install
        self.W = W
        self.ctx, self.tier, self.seed = ctx, tier, seed
        self.loop = install(VLoop())

        async def no_sockets(*a, **k):
            raise OSError("the harness has no sockets")
        self.loop.create_datagram_endpoint = no_sockets
        self.ns = W.build_classes()
        self.segments = []      # every trace segment (one world = several segments)
        self.jobs = []          # (segments of one world, future of tlc_validate)
        self.n_recv = 0
        self.ok, self.drift_total, self.n_events = True, 0, 0

    def world(self, chain, overlays, port=8090, traced=True, sinks=True):
        random.seed(self.seed)
        w = self.W.World(self.loop, self.ns, chain, overlays, self.seed, port=port, sinks=sinks, traced=traced)
        w.names = list(overlays)
        if w.tunnel is not None:
            w.install_tunnel_state()
        return w

    # ---------------------------------------------------------------- history: table actions between batteries
    def battery(self, w, rng, full=False):
        """cells for every circuit id class in the CURRENT tables: short / garbage bodies and bodies sealed with the
        far ends' keys (what a peer that still holds the session keys sends after this node dropped an entry)"""
        cids = {"unknown": 0x55667788}
        cids.update({k: v[0] for k, v in w.far.items()})
        for length in ((29, 33) if not full else (22, 28, 29, 30, 31, 36, 53)):
            for cid in cids.values():
                for plain in (False, True):
                    for early in (False, True):
                        for first in ((1, 4) if length > 29 and full else (rng.choice((1, 2, 4)),)):
                            body = bytes([first]) + bytes(rng.getrandbits(8) for _ in range(30))
                            w.recv(w.cell(cid, body, plain, early)[:length], enc="garbage" if length > 29 else "none")
        for which in w.far:
            if which == "relay_bwd":
                continue
            for inner in (b"", b"\x01abc", b"\x05" + struct.pack("!IH", 0x01020304, 7)):
                for early in (False, True):
                    cid, body = w.sealed(which, inner)
                    w.recv(w.cell(cid, body, False, early), enc="valid", inner=inner)

    def keepalive(self, w, names):
        """one authentic cell on each of the named circuit ids (the beat goes to the OPPOSITE route / the circuit)"""
        for which in names:
            if w.present(which):
                inner = b"\x05" + struct.pack("!IH", 0x01020304, 7)
                if which == "relay_bwd":
                    cid, body = w.far[which][0], b"opaque-opaque-opaque-opaque-"
                    w.recv(w.cell(cid, body), enc="garbage")
                else:
                    cid, body = w.sealed(which, inner)
                    w.recv(w.cell(cid, body, False, True), enc="valid", inner=inner)

    def exit_battery(self, w, rng, quick, lengths=range(41)):
        """datagrams from the outside world at the UDP sockets of every enabled exit socket"""
        own = w.tunnel.get_prefix()
        pats = [b"\x00" * 64, b"\xff" * 64,
                b"\x00\x00\x04\x17\x27\x10\x19\x80" + b"\x00\x00\x00\x00" + b"\x12\x34\x56\x78" * 8,   # tracker connect
                b"\x12\x34\x56\x78\x9a\xbc\xde\xf0" + b"\x00\x00\x00\x02" + b"\x00" * 40,               # action at 8
                b"d1:ad2:id20:abcdefghij0123456789e1:q4:ping1:t2:aa1:y1:qe",                                  # DHT query
                b"\x01\x00" + b"\x11" * 40, b"\x41\x03" + b"\x22" * 40, b"\x51\x00" + b"\x22" * 40,           # uTP
                own + b"\x01" + b"\x33" * 40, b"\x00\x02" + b"\x44" * 60, b"\x00\x01" + b"\x44" * 60]           # IPv8
        n = 0
        for cid in list(w.exit_protocols):
            if not w.tunnel.crypto_endpoint.exit_sockets.get(cid) or cid not in w.exit_protocols:
                continue
            if w.tunnel.crypto_endpoint.exit_sockets[cid].transport_ipv4 is None:
                continue
            for length in lengths:
                for i, pat in enumerate(pats):
                    d = pat[:length]
                    if len(d) < length and not quick:
                        d = d + b"e" * (length - len(d))
                    elif len(d) < length:
                        continue
                    fam = "v4" if (length + i) % 5 else ("v6", "v6mapped")[(length + i) % 2]
                    w.xrecv(cid, d, fam)
                    n += 1
                w.xrecv(cid, bytes(rng.getrandbits(8) for _ in range(length)))
                w.xrecv(cid, b"d" + bytes(rng.getrandbits(8) for _ in range(max(0, length - 2))) + b"e")
            for big in (200, 1400, 1500):
                w.xrecv(cid, own + b"\x01" + bytes(rng.getrandbits(8) for _ in range(big - 23)))
                w.xrecv(cid, bytes(rng.getrandbits(8) for _ in range(big)))
        return n

    def history(self, w, rng, family, quick):
        """run the node's own table actions between batteries; every action and every delivery is one trace event"""
        t0 = time.perf_counter()
        w.tunnel.cancel_pending_task("do_circuits")     # the periodic callback is called by the script ("sweep")
        n0 = len(w.events)
        sides = [("relay_fwd", "rdv_a", "circuit"), ("relay_bwd", "rdv_b", "circuit2")]
        if family == "timeouts":
            # time passes while only one side of every pair / link talks; the node's own maintenance runs
            self.exit_battery(w, rng, quick)
            for talk in sides + ([("relay_fwd", "rdv_b")] if not quick else []):
                w.install_tunnel_state("install")
                self.battery(w, rng)
                w.tun_op("tick")
                self.keepalive(w, talk)
                w.tun_op("sweep")
                self.battery(w, rng, full=not quick)
                self.exit_battery(w, rng, quick, lengths=(0, 9, 12, 24))
                w.tun_op("tick")
                w.tun_op("sweep")
                self.battery(w, rng)
        elif family == "removals":
            # every entry removed on its own (remove_relay on destroy / errors, remove_circuit, remove_exit_socket)
            for which in w.ENTRY:
                w.install_tunnel_state("install")
                w.tun_op("rmtun", which)
                self.battery(w, rng, full=not quick)
                self.exit_battery(w, rng, quick, lengths=(0, 8, 11, 12, 23))
        else:
            # seeded walk over the table actions
            w.install_tunnel_state("install")
            since_fresh = 0
            for _ in range(8 if quick else 60):
                k = rng.randrange(6)
                left = [x for x in w.ENTRY if w.present(x)]
                if not left or since_fresh >= 3:
                    w.install_tunnel_state("install")
                    since_fresh = 0
                elif k == 0:
                    w.tun_op("tick")
                    self.keepalive(w, rng.sample(left, rng.randrange(len(left) + 1)))
                    since_fresh = 0
                elif k == 1:
                    w.tun_op("sweep")
                    since_fresh += 1
                elif k in (2, 3):
                    w.tun_op("rmtun", rng.choice(left))
                    since_fresh += 1
                elif k == 4:
                    self.exit_battery(w, rng, quick, lengths=(rng.randrange(0, 30), 9, 12))
                    continue
                self.battery(w, rng)
        evs = w.events[n0:]
        self.ctx.note("history_%s_%s" % (family, "+".join(w.names)),
                      {"table_actions": sum(1 for e in evs if e["op"] in ("tick", "sweep", "rmtun")),
                       "deliveries": sum(1 for e in evs if e["op"] == "recv"),
                       "exit_socket_datagrams": sum(1 for e in evs if e["op"] == "xrecv"),
                       "wall_s": round(time.perf_counter() - t0, 2)})

    def history_vacuity(self):
        """the recorded history traces must contain what the new spec parts are about"""
        half = rdv = fwd = drop = 0
        for seg in self.segments:
            if not seg.get("family"):
                continue
            relays = {}
            tp = next(d["prefix"] for d in seg["desc"] if d["priv"])
            for e in seg["events"]:
                if e["op"] in TABLE_OPS:
                    relays = {tuple(r["cid"]): r for r in e["relays"]}
                elif e["op"] == "recv" and e["len"] >= 29 and e["head"][:23] == tp + [0]:
                    r = relays.get(tuple(e["head"][23:27]))
                    if r is not None and tuple(r["to"]) not in relays and not e["head"][27]:
                        half += not r["rdv"] and (r["dir"] == "bwd" or e["enc"] == "valid")
                        rdv += bool(r["rdv"] and e["enc"] == "valid")
                elif e["op"] == "xrecv":
                    fwd += e["fwd"]
                    drop += 1 - e["fwd"]
        got = {"relayable_cells_on_a_route_whose_opposite_is_gone": half,
               "authentic_cells_on_a_rendezvous_link_whose_other_half_is_gone": rdv,
               "exit_socket_datagrams_forwarded": fwd, "exit_socket_datagrams_dropped": drop}
        self.ctx.note("history_witnesses", got)
        for k, v in got.items():
            if not v:
                raise MachineryError("history traces are vacuous: no %s" % k.replace("_", " "))

    # ---------------------------------------------------------------- inputs
    def prefixes(self, w, rng):
        own = []
        for ov in w.overlays:
            if ov.get_prefix() not in own:
                own.append(ov.get_prefix())
        foreign = bytes(rng.getrandbits(8) for _ in range(22))
        near = [own[0][:21] + bytes([own[0][21] ^ 1]), b"\x01" + own[0][1:], own[0][:11] + foreign[11:]]
        return own, foreign, near

    def structured(self, w, rng, quick):
        own, foreign, near = self.prefixes(w, rng)
        handlers = sorted({i for ov in w.overlays for i, h in enumerate(ov.decode_map) if h is not None})
        ids = [0, handlers[0], handlers[len(handlers) // 2], 7, 255]
        classes = own[:3 if quick else len(own)] + [foreign] + near[:1 if quick else 3]
        # every length 0..64
        for length in range(65):
            for pc in classes:
                for mid in (ids[:3] if quick else ids):
                    fill = bytes([0, 255, length & 255, mid]) * 16
                    yield (pc + bytes([mid]) + fill)[:length], {}
        # every message id x empty / 1-byte / header-only body
        bodies = [b"", b"\x00"] if quick else [b"", b"\x00", b"\x00" * 6, b"\xff" * 7]
        for mid in range(256):
            for pc in (own[:2] if quick else own) + [foreign]:
                for body in bodies:
                    yield pc + bytes([mid]) + body, {}

    def cells(self, w, rng, quick):
        if w.tunnel is None:
            return
        cids = {"unknown": 0x55667788, "zero": 0}
        cids.update({k: v[0] for k, v in w.far.items()})
        firsts = [1, 2, 3, 4, 5, 0, 255] if not quick else [1, 2, 4, 0]
        for length in range(22, 41):
            for name, cid in cids.items():
                if quick and name.startswith("rdv") and length not in (22, 28, 29, 30, 31, 40):
                    continue      # (the rendezvous link has batteries of its own in the history families)
                for plain in (False, True):
                    for early in (False, True):
                        for first in (firsts if length > 29 else firsts[:1]):
                            body = bytes([first]) + bytes(rng.getrandbits(8) for _ in range(12))
                            yield w.cell(cid, body, plain, early)[:length], {"enc": "garbage" if length > 29 else "none"}
        inners = [b"", b"\x00", b"\xff"] + [bytes([i]) + bytes(rng.getrandbits(8) for _ in range(rng.choice([0, 1, 9])))
                                             for i in (range(1, 21) if not quick else (1, 2, 4, 5, 6, 10))]
        inners.append(b"\x05" + struct.pack("!IH", 0x01020304, 7))       # a well-formed ping
        for which in ("circuit", "circuit2", "exit", "relay_fwd"):
            for inner in inners:
                for plain, early in ((False, True), (False, False), (True, True)):
                    cid, body = w.sealed(which, inner)
                    yield w.cell(cid, body, plain, early), {"enc": "valid", "inner": inner}
        # relay_early budget of a relay: more relay_early cells than max_relay_early
        for _ in range(12):
            cid, body = w.sealed("relay_fwd", b"\x01abc")
            yield w.cell(cid, body, False, True), {"enc": "valid", "inner": b"\x01abc"}
        yield w.cell(w.far["relay_bwd"][0], b"opaque", False, False), {"enc": "garbage"}

    def corpus(self, w, peer):
        """valid datagrams: a conversation with a second node of the same overlays + every base message type"""
        W = self.W
        out = []
        for ov in peer.overlays:
            for new in (False, True):
                try:
                    out.append(W.in_loop(self.loop, ov.create_introduction_request, w.addr, new_style=new))
                    out.append(W.in_loop(self.loop, ov.create_introduction_response, peer.addr, w.addr, 7,
                                         new_style=new))
                    out.append(W.in_loop(self.loop, ov.create_puncture, peer.addr, w.addr, 7, new))
                    out.append(W.in_loop(self.loop, ov.create_puncture_request, peer.addr, w.addr, 7, new_style=new))
                except Exception as e:  # noqa: BLE001
                    raise MachineryError("cannot build base messages for %s: %r" % (type(ov).__name__, e)) from e
            W.in_loop(self.loop, ov.walk_to, w.addr)
        for _ in range(8):
            self.loop.settle()
            from_peer, from_w = peer.take_sent(), w.take_sent()
            if not from_peer and not from_w:
                break
            for addr, data in from_peer:
                if tuple(addr) == w.addr:
                    out.append(data)
                    w.recv(data, src=peer.addr, tag="conversation")
            for addr, data in from_w:
                out.append(data)
                if tuple(addr) == peer.addr:
                    peer.recv(data, src=w.addr)
        seen, uniq = set(), []
        for d in out:
            if d not in seen:
                seen.add(d)
                uniq.append(d)
        return uniq

    def feed(self, w, rng, peer=None, quick=False):
        t0 = time.perf_counter()
        n0 = len(w.events)
        for data, kw in self.structured(w, rng, quick):
            w.recv(data, **kw)
        for data, kw in self.cells(w, rng, quick):
            w.recv(data, **kw)
        if w.tunnel is not None:
            self.exit_battery(w, rng, quick, lengths=range(0, 41, 3 if quick else 1))
        captured = self.corpus(w, peer) if peer is not None else []
        for i, d in enumerate(captured):
            cuts = range(len(d) + 1) if (not quick or i % 3 == 0) else sorted({0, 21, 22, 23, 29, 30, len(d) - 1, len(d)})
            for k in cuts:
                if 0 <= k <= len(d):
                    w.recv(d[:k], src=peer.addr)
        # seeded samples up to 1500 bytes: own prefix + random id + random body, bit flips of captures, pure noise
        own, foreign, _near = self.prefixes(w, rng)
        for _ in range(150 if quick else 1500):
            kind = rng.randrange(4)
            if kind == 0:
                d = rng.choice(own) + bytes(rng.getrandbits(8) for _ in range(rng.choice([1, 2, 8, 40, 200, 1478])))
            elif kind == 1 and captured:
                c = bytearray(rng.choice(captured))
                for _ in range(rng.choice([1, 1, 2, 5])):
                    c[rng.randrange(len(c))] ^= 1 << rng.randrange(8)
                d = bytes(c)
            elif kind == 2 and captured:
                c = rng.choice(captured)
                d = c + bytes(rng.getrandbits(8) for _ in range(rng.choice([1, 4, 100])))
            else:
                d = bytes(rng.getrandbits(8) for _ in range(rng.choice([1, 21, 22, 23, 64, 700, 1500])))
            w.recv(d[:1500])
        # the TunnelEndpoint entry point used for data leaving a circuit
        if w.chain == "tunnel":
            for pc in own:
                for ft in (False, True):
                    for body in (b"", b"\x01", b"\xf6" + b"\x00" * 30):
                        w.recv(pc + body, via="tunnel", ft=ft)
        self.ctx.note("world_%s_%s" % (w.chain, "+".join(sorted({type(o).__name__ for o in w.overlays}))[:80]),
                      {"deliveries": sum(1 for e in w.events[n0:] if e["op"] == "recv"), "captured_datagrams": len(captured),
                       "wall_s": round(time.perf_counter() - t0, 2)})

    # ---------------------------------------------------------------- traces
    def add_world(self, w):
        """cut the world's log into segments: construction events + table snapshot + a slice of deliveries"""
        desc = w.describe()
        setup = []
        rest = []
        state = None
        for ev in w.events:
            if not rest and ev["op"] not in ("recv", "xrecv"):
                setup.append(ev)
            else:
                rest.append(ev)
        seg, tables = [], [e for e in setup if e["op"] in TABLE_OPS][-1:]  # last known tables
        setup_nt = [e for e in setup if e["op"] not in TABLE_OPS]
        cur_tables = tables[0] if tables else None
        segs = []
        for ev in rest:
            if ev["op"] in TABLE_OPS:
                cur_tables = ev
            if not seg:
                state = cur_tables
            seg.append(ev)
            if sum(1 for e in seg if e["op"] in ("recv", "xrecv")) >= getattr(w, "seg", SEG):
                segs.append((state, seg))
                seg = []
        if seg:
            segs.append((state, seg))
        # relay counters move inside a segment; a segment starts from the counters the previous one ended with
        ends = self._relay_counts_at_cuts(w, segs)
        mine = []
        for (state, seg), counts in zip(segs, ends):
            head = list(setup_nt)
            if state is not None:
                st = json.loads(json.dumps(state))
                st["op"] = "install"       # (a snapshot, not the action that produced it)
                for r in st["relays"]:
                    if tuple(r["cid"]) in counts:
                        r["count"] = counts[tuple(r["cid"])]
                head.append(st)
            mine.append({"chain": w.chain, "overlays": w.names, "desc": desc, "events": head + seg})
            if getattr(w, "family", None):
                mine[-1]["family"] = w.family
            self.n_recv += sum(1 for e in seg if e["op"] in ("recv", "xrecv"))
        self.segments += mine
        return mine

    @staticmethod
    def _relay_counts_at_cuts(w, segs):
        """relay_early_count of the real relay objects at the start of every segment, replayed from the log:
        +1 for every delivery the *code* relayed (rel = 1 on the crypto listener's record)"""
        counts, out = {}, []
        for state, seg in segs:
            if state is not None and not counts:
                counts = {tuple(r["cid"]): r["count"] for r in state["relays"]}
            out.append(dict(counts))
            for ev in seg:
                if ev["op"] in TABLE_OPS:
                    if ev["op"] != "tables":
                        counts = {}
                    for r in ev["relays"]:
                        counts[tuple(r["cid"])] = r["count"]
                elif ev["op"] == "recv" and any(r["rel"] for r in ev["log"]) and ev["len"] >= 27:
                    cid = tuple(ev["head"][23:27])
                    if cid in counts:
                        counts[cid] += 1
        return out

    def tlc_validate(self, segments, expect_reject=False):
        """TLC part only (thread-safe): -> (TlcResult, [(tid, l, why)], drift)"""
        tmp = scratch_dir("c03r-")
        try:
            path = os.path.join(tmp, "traces.json")
            with open(path, "w", encoding="utf-8") as f:
                json.dump(segments, f, separators=(",", ":"))
            r = run_tlc("ReceiveTrace.tla", "ReceiveTrace.cfg", env={"TRACE_FILE": path}, coverage=False, workers=4)
            if expect_reject:
                return r, [], 0
            if r.ok and r.depth != max(len(sg["events"]) for sg in segments) + 1:
                # an event whose action is not enabled ends the behaviour silently: that is no acceptance
                raise MachineryError("ReceiveTrace stopped before the end of a trace (depth %s, longest trace %d events)"
                                     % (r.depth, max(len(sg["events"]) for sg in segments)))
            bads, drift = [], len(_DRIFT.findall(r.output))
            if not r.ok:
                d = run_tlc("ReceiveTrace.tla", "ReceiveTraceDiag.cfg", env={"TRACE_FILE": path}, coverage=False,
                            workers=4)
                bads = [(int(a), int(b), c) for a, b, c in _BAD.findall(d.output)]
                drift = len(_DRIFT.findall(d.output))
                if any(c == "nosocket" for _a, _b, c in bads):
                    raise MachineryError("the recorded trace has a datagram at an exit socket the recorded tables do "
                                         "not hold (trace %d event %d)" % next((a, b) for a, b, c in bads if c == "nosocket"))
                if not bads and r.violated != "TraceAccepted":
                    raise MachineryError("ReceiveTrace: invariant %s violated on recorded traces" % r.violated)
                if not bads:
                    raise MachineryError("ReceiveTrace rejected the traces but the diagnosis run found nothing")
            return r, bads, drift
        finally:
            shutil.rmtree(tmp, ignore_errors=True)

    def rejected_tids(self, segments):
        """several corrupted traces in one TLC run: -> the trace ids TLC reports a verdict for"""
        tmp = scratch_dir("c03c-")
        try:
            path = os.path.join(tmp, "traces.json")
            with open(path, "w", encoding="utf-8") as f:
                json.dump(segments, f, separators=(",", ":"))
            r = run_tlc("ReceiveTrace.tla", "ReceiveTrace.cfg", env={"TRACE_FILE": path}, coverage=False, workers=4,
                        continue_=True)
            return {int(a) for a, _b, _c in _BAD.findall(r.output)} if not r.ok else set()
        finally:
            shutil.rmtree(tmp, ignore_errors=True)

    def rejects(self, segments):
        """not accepted: an invariant fails, or the behaviour cannot go on (an event whose action is not enabled)"""
        r = self.tlc_validate(segments, True)[0]
        return not r.ok or r.depth != max(len(sg["events"]) for sg in segments) + 1

    def apply_done(self, tag, wait=False):
        """take over the results of finished validations and release their traces (memory)"""
        for i, job in enumerate(self.jobs):
            if job is None or not (wait or job[1].done()):
                continue
            segs, fut = job
            r, bads, drift = fut.result()
            self.ctx.add_tlc("%s_%d" % (tag, i + 1), r)
            self.report(segs, bads)
            self.drift_total += drift
            self.n_events += sum(len(s["events"]) for s in segs)
            self.ok = self.ok and not bads
            self.jobs[i] = None
            if i > 0:
                for sg in segs:
                    sg["events"] = []

    def apply_all(self, tag):
        self.apply_done(tag, wait=True)
        self.ctx.note("receive_exactness", {"events": self.n_events,
                                            "events_differing_from_exact_spec_outcome(>=)": self.drift_total})
        return self.ok

    def report(self, segments, bads):
        groups = {}
        for tid, l, why in bads:
            seg = segments[tid - 1]
            ev = seg["events"][l - 1]
            site = ev.get("x", "")
            if why == "raised":
                sig = "receive:raised:" + site
            elif why == "table":
                sig = "receive:table:" + ev["op"]
            else:
                sig = "receive:%s:%s" % (why, seg["chain"])
            groups.setdefault(sig, []).append((seg, ev, why))
        for sig, items in sorted(groups.items()):
            seg, ev, why = min(items, key=lambda x: x[1].get("len", 0))
            if why == "raised" and ev["op"] == "xrecv":
                desc = ("TunnelExitSocket.datagram_received lets %s escape to the transport of the exit socket for a "
                        "%d-byte datagram %s from the outside (%d such deliveries)" % (
                            ev.get("x"), ev["len"], ev.get("hex", "")[:80], len(items)))
            elif why == "raised":
                desc = ("notify_listeners lets %s escape to the transport for a %d-byte datagram %s (%d such deliveries); "
                        "listeners after the failing one are not served" % (ev.get("x"), ev["len"], ev.get("hex", "")[:80],
                                                                             len(items)))
            elif why == "evicted":
                desc = ("after %s a listener that asked for a prefix (or for everything) and has not left is no longer "
                        "in the table: it gets no datagram any more; table left: %s" % (
                            ev["op"], {"listeners": ev.get("glob"), "prefix_map": [e["ls"] for e in ev.get("pmap", [])]}))
            elif why == "unserved":
                desc = "a listener registered for the prefix was not called for a %d-byte datagram" % ev["len"]
            elif why == "isolation":
                desc = "a handler ran for a datagram whose first 22 bytes are not its overlay's prefix: %s" % ev["log"]
            else:
                desc = "listener table diverges from Receive.tla after %s" % ev["op"]
            rep = {"kind": "recv", "chain": seg["chain"], "overlays": seg["overlays"],
                   "event": {k: v for k, v in ev.items() if k != "head"}, "count": len(items)}
            if seg.get("reg"):
                k = seg["events"].index(ev)
                rep = {"kind": "reg", "history": [e["m"] for e in seg["events"][:k + 1] if "m" in e],
                       "event": {k: v for k, v in ev.items() if k != "head"}, "count": len(items)}
            if "family" in seg:
                # the table actions that led to the state in which the datagram arrived
                k = seg["events"].index(ev)
                rep["history"] = [{kk: e[kk] for kk in ("op", "t", "cid") if kk in e} for e in seg["events"][:k]
                                  if e["op"] in ("install", "tick", "sweep", "rmtun")][-8:]
                rep["family"], rep["seed"], rep["tier"] = seg["family"], self.seed, self.tier
            self.ctx.violation(sig, desc, rep)


# =====================================================================================================
# decode side
# =====================================================================================================
class Dx:
    def __init__(self, ctx, tier, seed):
        from .. import c03_wire as X
        from ipv8.keyvault.crypto import default_eccrypto
        self.X, self.ctx, self.tier = X, ctx, tier
        self.rng = random.Random(seed + 17)
        self.wire = X.Wire()
        self.gen = X.Gen(self.rng, default_eccrypto.generate_key("curve25519").pub().key_to_bin(), self.wire.arr_fmt)
        self.sfx = "BE.cfg" if self.wire.arr_be else ".cfg"
        ctx.note("array_count_byte_order", "big-endian" if self.wire.arr_be else "native (little-endian)")
        self.events = []
        self.rejected = 0
        self.kept_rejected = 0

    def add(self, ev, why):
        ev["t"] = why
        if ev["m"] == "snap" or ev["ok"]:
            self.events.append(ev)
            self.ctx.nontrivial(("dec", ev["m"], tuple(ev.get("f", ())), bytes(ev["buf"])))
        else:
            self.rejected += 1
            if self.kept_rejected < (3000 if self.tier == "quick" else 20000) and self.rng.random() < 0.2:
                self.kept_rejected += 1
                self.events.append(ev)

    def synthetic_classes(self):
        """VariablePayload definitions that use the packers no shipped payload uses (arrays, utf8, nesting, ...)"""
        from ipv8.messaging.anonymization.payload import IntroductionInfo, RendezvousInfo
        from ipv8.messaging.lazy_payload import VariablePayload

        def mk(name, fl):
            return type(name, (VariablePayload,), {"format_list": fl, "names": ["f%d" % i for i in range(len(fl))]})
        return {
            "harness.Arrays": mk("Arrays", ["arrayH-?", "arrayH-q", "arrayH-d"]),
            "harness.VarLens": mk("VarLens", ["varlenBx2", "varlenI", "varlenHutf8", "varlenIutf8", "doublevarlenH",
                                              "varlenHx20"]),
            "harness.Nested": mk("Nested", [IntroductionInfo, "B", RendezvousInfo]),
            "harness.NestedList": mk("NestedList", ["H", [IntroductionInfo], [RendezvousInfo]]),
            "harness.Structs": mk("Structs", ["?", "BBH", "BH", "c", "f", "d", "HH", "l", "LL", "q", "QH", "QL",
                                              "QQHHBH", "ccB", "4SH", "64s", "74s"]),
            "harness.Tail": mk("Tail", ["address", "varlenH-list", "raw"]),
            "harness.ArrayTail": mk("ArrayTail", ["arrayH-q", "raw"]),
        }

    def run(self):
        X, w, quick = self.X, self.wire, self.tier == "quick"
        # (1) the exhaustively model-checked domain, on the implementation
        maxlen = 5 if quick else 7
        n = 0
        for f in X.MC_FORMATS:
            items = w.items_of(f)
            for d in X.mc_domain(maxlen):
                self.add(w.ev_single(items, d), "mc")
                n += 1
        self.mc_events = n
        # (2) every shipped Serializable + synthetic ones: valid encodings, every truncation, length edits
        classes = dict(X.shipped_classes())
        classes.update(self.synthetic_classes())
        skipped, per_class = [], {}
        gt = w.items_of(["Q"])
        for name, cls in classes.items():
            items = w.items_of(cls.format_list)
            if not w.supported(items):
                skipped.append(name)
                continue
            before = len(self.events) + self.rejected
            for rep in range(2 if quick else 8):
                data, marks = self.gen.message(items)
                for kind, d in X.variants(data, marks, self.rng, full=True):
                    self.add(w.ev_single(items, d), kind)
                    self.add(w.ev_single(items, d, real_cls=cls), kind)
                    if rep == 0:
                        self.add(w.ev_snapshot(d), kind)
                if any(i["n"] == "flags" for i in items):
                    continue     # Flags.unpack returns its size instead of offset + size: that is C02's finding
                data, marks = self.gen.message(gt + items, head=bytes(self.rng.getrandbits(8) for _ in range(23)))
                for kind, d in X.variants(data, marks, self.rng, full=not quick, head=23):
                    self.add(w.ev_list([gt, items], d, 23, True), kind)
                    self.add(w.ev_list([gt, items], d, 23, False), kind)
                    if len(d) >= 31:
                        self.add(w.ev_single(items, d, off=31), kind)
            per_class[name] = len(self.events) + self.rejected - before
        # (3) snapshots: sequences of address records, cut everywhere
        for _ in range(20 if quick else 200):
            recs = [self.gen.item(X.It("address"), 0, []) for _ in range(self.rng.choice([1, 2, 3, 5]))]
            blob = b"".join(recs)
            for k in range(len(blob) + 1):
                self.add(w.ev_snapshot(blob[:k]), "snapshot")
        # (4) seeded garbage
        for name, cls in list(classes.items()):
            items = w.items_of(cls.format_list)
            if not w.supported(items):
                continue
            for _ in range(10 if quick else 100):
                d = bytes(self.rng.getrandbits(8) for _ in range(self.rng.choice([0, 1, 2, 3, 5, 8, 30, 200])))
                self.add(w.ev_single(items, d), "garbage")
        self.ctx.note("decode_inputs", {"classes": len(classes) - len(skipped), "skipped_unknown_format": skipped,
                                        "mc_domain_decodes": self.mc_events, "decodes": len(self.events) + self.rejected,
                                        "rejected_by_code(accepted by definition)": self.rejected,
                                        "sent_to_TLC": len(self.events)})

    def tlc_validate(self, events, expect_reject=False):
        nb = max(1, min(64, len(events) // 200))
        batches = [{"defs": self.wire.defs, "events": events[i::nb]} for i in range(nb)]
        tmp = scratch_dir("c03d-")
        try:
            path = os.path.join(tmp, "decodes.json")
            with open(path, "w", encoding="utf-8") as f:
                json.dump(batches, f, separators=(",", ":"))
            r = run_tlc("WireStrictTrace.tla", "WireStrictTrace" + self.sfx, env={"TRACE_FILE": path}, coverage=False,
                        java_opts=("-Xss32m",), workers=4)
            if expect_reject:
                return r, [], 0, batches
            bads, drift = [], len(_DRIFT.findall(r.output))
            if not r.ok:
                d = run_tlc("WireStrictTrace.tla", "WireStrictTraceDiag" + self.sfx, env={"TRACE_FILE": path}, coverage=False,
                            java_opts=("-Xss32m",), workers=4)
                bads = [(int(a), int(b), c) for a, b, c in _BAD.findall(d.output)]
                if not bads:
                    raise MachineryError("WireStrictTrace rejected the decodes but the diagnosis run found nothing")
            return r, bads, drift, batches
        finally:
            shutil.rmtree(tmp, ignore_errors=True)

    def rejects(self, events):
        return not self.tlc_validate(events, True)[0].ok

    CHUNK = 25000

    def submit(self, pool):
        self.jobs = [pool.submit(self.tlc_validate, self.events[i:i + self.CHUNK])
                     for i in range(0, len(self.events), self.CHUNK)]

    def apply_all(self, tag):
        groups, drift_total = {}, 0
        for i, fut in enumerate(self.jobs):
            r, bads, drift, batches = fut.result()
            self.ctx.add_tlc("%s_%d" % (tag, i + 1), r)
            drift_total += drift
            for tid, l, why in bads:
                ev = batches[tid - 1]["events"][l - 1]
                culprit = "load_snapshot" if ev["m"] == "snap" else self.culprit(ev)
                groups.setdefault("decode:%s:%s" % (why, culprit), []).append(ev)
        for sig, evs in sorted(groups.items()):
            ev = min(evs, key=lambda e: len(e["buf"]))
            fmts = [[i["n"] for i in self.wire.defs[f - 1]] for f in ev.get("f", [])]
            self.ctx.violation(sig, "%s: %s of %s accepts %s (reported end %s, buffer %d bytes; %d such decodes)" % (
                sig, {"probe": "unpack_serializable", "real": "unpack_serializable", "list": "unpack_serializable_list",
                      "snap": "Network.load_snapshot"}[ev["m"]], fmts, bytes(ev["buf"]).hex()[:120], ev.get("end"),
                len(ev["buf"]), len(evs)), {"kind": "decode", "event": ev, "formats": fmts,
                                            "items": [self.wire.defs[f - 1] for f in ev.get("f", [])]})
        self.ctx.note("decode_exactness", {"events": len(self.events),
                                           "events_differing_from_exact_spec_outcome(>=)": drift_total})
        return not groups

    def culprit(self, ev):
        """which kind of length-prefixed part is cut in this input (first format item the strict decoder fails on)"""
        names = [i["n"] for f in ev["f"] for i in self.wire.defs[f - 1]]
        for kind, members in (("NestedPayload", ("payload", "payload-list")), ("DefaultArray", tuple(self.X.ARR)),
                              ("VarLen", tuple(self.X.VARLEN) + ("varlenH-list", "node-list"))):
            if any(n in members for n in names):
                return kind
        return "other"


# =====================================================================================================
class SpecRuns:
    """the spec-level TLC runs (model checking, witnesses, negative controls) run in the background while the
    implementation is being driven"""

    def __init__(self, tier):
        from concurrent.futures import ThreadPoolExecutor
        quick = tier == "quick"
        self.pool = ThreadPoolExecutor(max_workers=24)
        ncpu = os.cpu_count() or 4
        big, small = max(2, ncpu // 2), 2
        xss = ("-Xss32m",)
        self.mc = [
            ("receive_bytes", {"DoReceive", "DoSetTables"},
             self.go("ReceiveMC.tla", "Receive_bytes_quick.cfg" if quick else "Receive_bytes.cfg", workers=big)),
            ("receive_layout", {"DoAdd", "DoAddPrefix", "DoRemove", "DoSetOpen", "DoReceive"},
             self.go("ReceiveMC.tla", "Receive_layout.cfg" if quick else "Receive_layout_deep.cfg", workers=big)),
            ("receive_tables", {"DoRemoveTun", "DoTick", "DoSweep", "TReceive", "TExitReceive"},
             self.go("ReceiveMC.tla", "Receive_tables.cfg" if quick else "Receive_tables_deep.cfg", workers=small)),
            ("receive_reg", {"RAdd", "RAddPrefix", "RRemove", "RSetOpen", "RReceive"},
             self.go("ReceiveMC.tla", "Receive_reg.cfg" if quick else "Receive_reg_deep.cfg", workers=small)),
            ("wirestrict", {"Grow", "Cut"},
             self.go("WireStrictMC.tla", "WireStrict_mc_quick.cfg" if quick else "WireStrict_mc.cfg", workers=big,
                     java_opts=xss))]
        self.witness = [
            ("Receive_witness: no delivery ever reaches a circuit handler", "NeverCircuitHandler",
             self.go("ReceiveMC.tla", "Receive_witness.cfg", coverage=False, workers=small)),
            ("WireStrict_witness: the strict decoder never accepts anything", "SometimesOk",
             self.go("WireStrictMC.tla", "WireStrict_witness.cfg", coverage=False, workers=small, java_opts=xss))]
        # one -continue run of the tables instance with the deviations switched on ({"pair", "exit"} and {"rdv"} as two
        # sets of initial states): every listed "never" statement (witness) and every per-deviation Total (negative
        # control) must be reported as violated
        self.ctl = [self.go("ReceiveMC.tla", "Receive_tables_ctl.cfg", coverage=False, workers=small, continue_=True)]
        self.ctl_witness = {"NeverHalfRelayed", "NeverHalfRdv", "NeverExitForwarded", "NeverExitDropped"}
        self.ctl_controls = [
            ("Receive.tla with process_cell indexing the opposite relay route (\"pair\") violates Total after Tick / Sweep",
             "TotalPair"),
            ("Receive.tla with relay_cell indexing the other half of a rendezvous link (\"rdv\", the pinned tree) "
             "violates Total after Tick / Sweep", "TotalRdv"),
            ("Receive.tla with DataChecker reading the second tracker field unchecked (\"exit\") violates Total",
             "TotalExit")]
        # the deviations of the table operations
        self.reg_ctl = [
            ("Receive.tla with add_prefix_listener rebuilding the entry of a registered prefix (\"evict\") violates "
             "RegistryServed", "RegistryServed",
             self.go("ReceiveMC.tla", "Receive_reg_evict.cfg", coverage=False, workers=small)),
            ("Receive.tla with \"evict\" violates AllListenersServed (the first overlay of a shared prefix gets no "
             "datagram)", "AllListenersServed",
             self.go("ReceiveMC.tla", "Receive_reg_evict_served.cfg", coverage=False, workers=small)),
            ("Receive.tla with remove_listener dropping every entry the listener was part of (\"prune\") violates "
             "RegistryServed", "RegistryServed",
             self.go("ReceiveMC.tla", "Receive_reg_prune.cfg", coverage=False, workers=small))]
        self.graph = self.pool.submit(RG_graph, tier)
        self.controls = [
            ("Receive.tla with the pinned unchecked reads violates Total", "Total",
             self.go("ReceiveMC.tla", "Receive_pinned.cfg", coverage=False, workers=small)),
            ("Receive.tla with the pinned unchecked reads violates AllListenersServed", "AllListenersServed",
             self.go("ReceiveMC.tla", "Receive_pinned_served.cfg", coverage=False, workers=small)),
            ("WireStrict.tla with the pinned lenient slicing violates EndInside", "EndInside",
             self.go("WireStrictMC.tla", "WireStrict_lenient.cfg", coverage=False, workers=small, java_opts=xss)),
            ("WireStrict.tla with the pinned lenient slicing violates ReEncode", "ReEncode",
             self.go("WireStrictMC.tla", "WireStrict_lenient_reenc.cfg", coverage=False, workers=small, java_opts=xss))]

    def go(self, mod, cfg, **kw):
        return self.pool.submit(run_tlc, mod, cfg, **kw)

    def collect(self, ctx):
        for tag, need, fut in self.mc:
            r = fut.result()
            if not r.ok:
                raise MachineryError("%s: TLC reports %s on the specification itself" % (tag, r.violated))
            for a in need:
                if r.coverage.get(a, (0, 0))[1] == 0:
                    raise MachineryError("%s: action %s never taken (vacuous)" % (tag, a))
            ctx.add_tlc(tag, r)
        for what, inv, fut in self.witness:
            if fut.result().violated != inv:
                raise MachineryError(what + " (vacuous model)")
        got = set()
        for fut in self.ctl:
            got |= set(re.findall(r"Invariant (\S+) is violated", fut.result().output))
        if not self.ctl_witness <= got:
            raise MachineryError("Receive_tables: never reached by Tick / Sweep alone: %s (vacuous model)"
                                 % sorted(self.ctl_witness - got))
        for what, inv in self.ctl_controls:
            ctx.control(what, inv in got)
        for what, inv, fut in self.reg_ctl + self.controls:
            ctx.control(what, fut.result().violated == inv)
        self.pool.shutdown()
        ctx.cov["exhaustive"] = True


def RG_graph(tier):
    from .. import c03_reg
    return c03_reg.graph(tier)


def registrations(ctx, rx, specs, tier, seed):
    """binding R + T of the registrations: TLC's graph of table operations on a real endpoint"""
    from .. import c03_reg as RG
    t0 = time.perf_counter()
    reg = RG.Reg(rx.loop)
    r, g = specs.graph.result()
    ctx.add_tlc("receive_reg_graph", r)
    reg.check_model(g)
    segs, finds, n = reg.replay(g, RG.REG_HEADS, seed)
    groups = {}
    for kind, op, detail in finds:
        groups.setdefault("registry:%s:%s" % (kind, op), []).append(detail)
    for sig, items in sorted(groups.items()):
        d = min(items, key=lambda x: len(x["history"]))
        kind, op = sig.split(":")[1:]
        if kind == "evicted":
            what = ("after %s listener(s) %s that asked for a prefix / for everything and did not leave are no longer "
                    "served by the endpoint's table" % (d["history"], d["not_served"]))
        elif kind == "raised":
            what = "the table operation %s raised %s after %s" % (d["op"], d["x"], d["history"])
        else:
            what = "the endpoint's table differs from Receive.tla after %s: %s, specified %s" % (
                d["history"], d["impl"], d["spec"])
        ctx.violation(sig, "%s (%d such walks of the table-operation graph)" % (what, len(items)),
                      dict(d, kind="reg", count=len(items)))
    if not finds:
        if n["edges"] != len(g.edges) or n["table_states"] != len(g.states):
            raise MachineryError("the replay covered %d of %d edges, %d of %d states of the registration graph" % (
                n["edges"], len(g.edges), n["table_states"], len(g.states)))
        if not n["shared_prefix_states"]:
            raise MachineryError("no table state with two registrations on one prefix (vacuous)")
    # negative controls of the binding: the same graph on endpoints with a broken table operation
    from ipv8.messaging.interfaces.udp.endpoint import UDPEndpoint
    for what, cls in (("replay of the registration graph into an endpoint whose add_prefix_listener rebuilds the entry "
                       "of a registered prefix is rejected (evicted)", RG.evicting(UDPEndpoint)),
                      ("replay of the registration graph into an endpoint whose remove_listener drops every entry the "
                       "listener was part of is rejected (evicted)", RG.pruning(UDPEndpoint))):
        _s, bad, _n = reg.replay(g, RG.REG_HEADS, seed, endpoint_cls=cls, deliver=False)
        if not finds:
            ctx.control(what, any(k == "evicted" for k, _o, _d in bad))
    n["wall_s"] = round(time.perf_counter() - t0, 2)
    ctx.note("registrations_replay", n)
    ctx.evaluated(n["ops"])
    for sg in segs:
        for ev in sg["events"]:
            if ev["op"] == "recv":
                ctx.nontrivial(("reg", tuple(map(tuple, (e["m"] for e in sg["events"] if "m" in e))), tuple(ev["head"])))
    rx.reg_segments = segs
    rx.ok = rx.ok and not finds
    rx.n_recv += n["deliveries"]
    for i in range(0, len(segs), 1500):
        rx.jobs.append((segs[i:i + 1500], specs.pool.submit(rx.tlc_validate, segs[i:i + 1500])))
    return n


def trace_controls(rx, dx, pool):
    """-> [(name, future of 'was rejected')]; corrupted copies of the recorded traces that TLC must reject"""

    def copy_of(seg):
        return json.loads(json.dumps(seg))

    def owner_prefix(seg, lid):
        d = seg["desc"][lid - 1]
        if d["kind"] == "crypto":
            d = seg["desc"][d["comm"] - 1]
        return d["prefix"], d

    def cut(seg, k):
        seg = copy_of(seg)
        seg["events"] = seg["events"][:k + 1]
        return seg

    class Pick:
        """one trace of a batch of corrupted traces validated in a single TLC run"""

        def __init__(self, fut, tid):
            self.fut, self.tid = fut, tid

        def result(self):
            return self.tid in self.fut.result()

    jobs, batch = [], []      # batch: corrupted receive traces, each ends with the corrupted event
    # (1) a delivery that let an exception through
    seg = rx.segments[0]
    evs = [i for i, e in enumerate(seg["events"]) if e["op"] == "recv" and e["log"]]
    seg = cut(seg, evs[len(evs) // 2])
    seg["events"][-1]["raised"] = True
    batch.append(("receive trace in which an exception reaches the transport is rejected", seg))
    # (2) a handler entered for a datagram with another prefix
    seg = ev = rec = None
    for cand in rx.segments:
        for e in cand["events"]:
            if e["op"] == "recv" and e["len"] > 22:
                for i, r in enumerate(e["log"]):
                    if owner_prefix(cand, r["l"])[0] != e["head"][:22]:
                        seg, ev, rec = cand, e, i
                        break
            if seg:
                break
        if seg:
            break
    if seg is None:
        raise MachineryError("no delivery to a listener with a different prefix recorded: isolation control impossible")
    k = seg["events"].index(ev)
    seg = cut(seg, k)
    _p, d = owner_prefix(seg, seg["events"][k]["log"][rec]["l"])
    seg["events"][k]["log"][rec]["h"].append(["h", (d["handlers"] or [1])[0]])
    batch.append(("receive trace with a handler entered for a foreign prefix is rejected", seg))
    # (3) a registered listener skipped
    seg = rx.segments[0]
    seg = cut(seg, next(i for i, e in enumerate(seg["events"])
                        if e["op"] == "recv" and e["via"] == "udp" and e["log"] and e["len"] >= 22))
    seg["events"][-1]["log"] = []
    batch.append(("receive trace in which a registered listener is not served is rejected", seg))
    # (6, 7, 8) history: an exit-socket datagram that raised; one for an exit socket the node has removed; a cell on
    # a relay route whose opposite route is gone that raised
    hist = [sg for sg in rx.segments if sg.get("family")]
    seg, k = next(((sg, i) for sg in hist for i, e in enumerate(sg["events"]) if e["op"] == "xrecv" and e["len"] > 30),
                  (None, None))
    if seg is None:
        raise MachineryError("no exit-socket datagram recorded: control impossible")
    bad = cut(seg, k)
    bad["events"][k]["raised"] = True
    batch.append(("trace in which a datagram at an exit socket lets an exception reach its transport is rejected", bad))
    seg, k = next(((sg, i) for sg in hist for i, e in enumerate(sg["events"])
                   if e["op"] == "rmtun" and e["t"] == "x"), (None, None))
    if seg is None:
        raise MachineryError("no remove_exit_socket recorded: control impossible")
    bad = cut(seg, k)
    bad["events"].append(next(copy_of(e) for e in seg["events"] if e["op"] == "xrecv"))
    batch.append(("trace with a datagram at the socket of an exit socket that the node has removed is rejected", bad))
    found = None
    for sg in hist:
        relays = {}
        for i, e in enumerate(sg["events"]):
            if e["op"] in TABLE_OPS:
                relays = {tuple(r["cid"]): r for r in e["relays"]}
            elif e["op"] == "recv" and e["len"] >= 29 and e["log"] and not e["head"][27]:
                r = relays.get(tuple(e["head"][23:27]))
                if r is not None and tuple(r["to"]) not in relays and r["dir"] == "bwd":
                    found = (sg, i)
                    break
        if found:
            break
    if not found:
        raise MachineryError("no cell on a backward route whose opposite is gone: control impossible")
    bad = cut(*found)
    bad["events"][found[1]]["raised"] = True
    bad["events"][found[1]]["log"] = [dict(bad["events"][found[1]]["log"][0], rel=0, raised=True)]
    batch.append(("trace in which a cell for a relay route whose opposite route was removed raises is rejected", bad))
    # (9) registrations: a second registration on a prefix after which the first one is gone from the entry
    found = None
    for sg in getattr(rx, "reg_segments", ()):
        for i, e in enumerate(sg["events"]):
            if e["op"] == "addp":
                ent = next(x for x in e["pmap"] if x["p"] == e["p"])
                if len(ent["ls"]) >= 2 and ent["ls"][0] != e["l"] and ent["ls"][0] not in e["glob"]:
                    found = (sg, i)
                    break
        if found:
            break
    if found:
        bad = cut(*found)
        e = bad["events"][found[1]]
        ent = next(x for x in e["pmap"] if x["p"] == e["p"])
        ent["ls"] = [e["l"]] + [x for x in ent["ls"][1:] if x != e["l"]]
        batch.append(("trace in which a second add_prefix_listener on a prefix evicts the first overlay is rejected", bad))
    elif getattr(rx, "reg_segments", None):
        raise MachineryError("no second registration on a prefix recorded: control impossible")
    # (4, 5) decodes: an over-read accepted, a part that has not its declared length
    X, w = dx.X, dx.wire
    items = w.items_of(["varlenH", "raw"])
    good = w.ev_single(items, b"\x00\x02ab")
    over = dict(good, buf=[0, 5, 97, 98], end=7, v=[[X.S("var", b=b"ab"), X.S("var", b=b"")]])
    jobs.append(("decode trace accepting a length prefix that promises more than present is rejected",
                 dx.rejects, [good, over]))
    short = dict(good, v=[[X.S("var", b=b"a"), X.S("var", b=b"b")]])
    jobs.append(("decode trace whose length-prefixed part has not its declared length is rejected",
                 dx.rejects, [good, short]))
    fut = pool.submit(rx.rejected_tids, [sg for _n, sg in batch])
    return ([(name, Pick(fut, i + 1)) for i, (name, _sg) in enumerate(batch)]
            + [(name, pool.submit(fn, arg)) for name, fn, arg in jobs])


def do_replay(path):
    with open(path, encoding="utf-8") as f:
        rep = json.load(f)["replay"]
    if rep["kind"] == "decode":
        from .. import c03_wire as X
        w = X.Wire()
        ev = rep["event"]
        if ev["m"] == "snap":
            new = w.ev_snapshot(bytes(ev["buf"]))
            print("load_snapshot raised=%s loaded=%s" % (new["raised"], new["n"]))
            return 1 if new["raised"] else 0
        if ev["m"] == "list":
            new = w.ev_list(rep["items"], bytes(ev["buf"]), ev["off"], ev["ca"])
        else:
            new = w.ev_single(rep["items"][0], bytes(ev["buf"]), ev["off"])
        print("replayed decode of %s: accepted=%s end=%s (buffer %d bytes)" % (
            bytes(ev["buf"]).hex(), new["ok"], new["end"], len(ev["buf"])))
        return 1 if new["ok"] else 0
    ctx = Ctx(PID, "quick", 0, "model_checking")
    rx = Rx(ctx, "quick", 0)
    if rep["kind"] == "reg":
        from .. import c03_reg as RG
        reg = RG.Reg(rx.loop)
        ep = reg.fresh()
        for name, args in rep["history"]:
            reg.apply(ep, name, args)
        real = RG._show(reg.table(ep))
        print("replayed %s: table %s%s" % (rep["history"], real, "; specified %s" % rep["spec"] if "spec" in rep else ""))
        bad = "spec" in rep and real != rep["spec"]
        if "hex" in rep.get("event", {}) or rep.get("event", {}).get("op") == "recv":
            ev = reg.recv(ep, bytes.fromhex(rep["event"]["hex"])) if "hex" in rep["event"] else None
            print("replayed delivery: %s" % ({k: v for k, v in (ev or {}).items() if k != "head"},))
            bad = bad or bool(ev and (ev["raised"] or any(r["raised"] for r in ev["log"])))
        return 1 if bad or "spec" not in rep else 0
    names = [n for n in rep["overlays"] if n.split("+")[0] in rx.W.OVERLAYS] or ["PlainCommunity", "TunnelCommunity"]
    if rep.get("family"):
        # the state in which the datagram arrived is the result of the family's table actions: run them again
        rx = Rx(ctx, rep.get("tier", "quick"), rep.get("seed", 0))
        w = rx.world(rep["chain"], names)
        w.family = rep["family"]
        rx.history(w, random.Random("%s-%s" % (rx.seed, w.family)), w.family, rx.tier == "quick")
        bad = [e for e in w.events if e["op"] in ("recv", "xrecv") and (e["raised"] or any(r["raised"] for r in e.get("log", ())))]
        print("replayed family %s: %d deliveries raised%s" % (w.family, len(bad), "".join(
            "\n  %s %s" % (e["op"], {k: v for k, v in e.items() if k in ("x", "len", "hex")}) for e in bad[:5])))
        return 1 if bad else 0
    w = rx.world(rep["chain"], names)
    if rep["event"].get("op") == "xrecv":
        cid = struct.unpack("!I", bytes(rep["event"]["xc"]))[0]
        ev = w.xrecv(cid, bytes.fromhex(rep["event"]["hex"]), rep["event"]["fam"]) if "hex" in rep["event"] else None
        print("replayed: %s" % ({k: v for k, v in (ev or {}).items() if k != "head"},))
        return 1 if ev and ev["raised"] else 0
    ev = w.recv(bytes.fromhex(rep["event"]["hex"])) if "hex" in rep["event"] else None
    print("replayed: %s" % ({k: v for k, v in (ev or {}).items() if k != "head"},))
    return 1 if ev and (ev["raised"] or any(r["raised"] for r in ev["log"])) else 0


def run(tier, seed, replay=None):
    setup_repo_path()
    if replay:
        return do_replay(replay)
    ctx = Ctx(PID, tier, seed, "model_checking")
    quick = tier == "quick"
    ctx.cov["rule"] = ("TLC enumerates (a) every byte string up to 7/9 bytes of a scaled instance (2-byte prefix, 1-byte "
                       "circuit id) x listener layouts x circuit tables, all table-operation sequences up to 3/4 steps, "
                       "(b) every byte string up to 5/7 bytes for 14 format lists of the strict decoder; the real code "
                       "is driven with all lengths 0..64 x prefix classes x message ids, all 256 ids, cells 22..40 x "
                       "flags x circuit classes x sealed/garbage bodies, every truncation of captured datagrams, "
                       "(c) every sequence of RemoveTun / Tick / Sweep over a relay pair, a rendezvous link, a circuit "
                       "and an exit socket with every cell in between, every exit-socket datagram of a 13-position "
                       "alphabet; history families on the real node (timeouts / single removals / seeded walk) with "
                       "cell batteries in every table state, exit-socket datagrams of all lengths 0..40 x 13 shapes, "
                       "seeded samples <= 1500 bytes, and every truncation / length edit of valid encodings of every "
                       "Serializable; each delivery / decode is one TLC-validated event; non-trivial = distinct "
                       "accepted decodes + distinct (world, datagram) deliveries; (d) registrations: every sequence of "
                       "3/4 add_listener / add_prefix_listener / remove_listener / open-close operations over two "
                       "overlays sharing a prefix, a third overlay and a sink - every edge of TLC's graph executed on a "
                       "real UDPEndpoint, 11 datagrams in every table state")
    ctx.assumptions += ["the set of message ids with a handler is read from the overlay's own registration tables "
                        "(decode_map / decode_map_private); dispatch on them is what is checked",
                        "AEAD of ipv8_rust_tunnels is trusted: a cell sealed by the harness with the far end's keys "
                        "decrypts, anything else does not",
                        "the byte order of an array's count is taken from the length format the Serializer registers for it (C02 decides which order is right)",
                        "Flags.unpack's wrong return value (C02) is kept out of the inputs (flags only at offset 0)"]
    specs = SpecRuns(tier)

    # ---------------- receive path
    rx = Rx(ctx, tier, seed)
    rng = random.Random(seed)
    if quick:
        # (the multiplexed world of the quick tier sits on TunnelEndpoint(UDPEndpoint); the StatisticsEndpoint chain has a
        # smaller world of its own)
        plans = [("udp", ["TunnelCommunity"], True),
                 ("tunnel", ["PlainCommunity", "PlainTwin", "DiscoveryCommunity", "DHTDiscoveryCommunity",
                             "HiddenTunnelCommunity", "PexCommunity", "IdentityCommunity", "AttestationCommunity"], False),
                 ("stats", ["PlainCommunity", "DHTCommunity"], True)]
    else:
        plans = [("udp", [n], True) for n in rx.W.OVERLAYS]
        plans += [("tstats", ["PlainCommunity", "PlainTwin", "DiscoveryCommunity", "DHTDiscoveryCommunity",
                              "HiddenTunnelCommunity", "PexCommunity", "IdentityCommunity", "AttestationCommunity"], True),
                  ("udp", ["PlainCommunity", "PlainTwin", "DiscoveryCommunity", "DHTCommunity", "TunnelCommunity",
                           "PexCommunity", "IdentityCommunity", "AttestationCommunity"], True),
                  ("stats", ["PlainCommunity", "DHTCommunity", "TunnelCommunity"], True),
                  ("tunnel", ["PlainCommunity+anon", "DiscoveryCommunity", "TunnelCommunity"], True),
                  ("disp", ["DiscoveryCommunity", "HiddenTunnelCommunity"], True),
                  ("tdisp", ["PlainCommunity", "DHTDiscoveryCommunity", "TunnelCommunity"], True)]
    for chain, names, with_peer in plans:
        w = rx.world(chain, names)
        peer = rx.world("udp", [n.split("+")[0] for n in names], port=9090, traced=False, sinks=False) if with_peer else None
        rx.feed(w, rng, peer, quick)
        segs = rx.add_world(w)
        rx.jobs.append((segs, specs.pool.submit(rx.tlc_validate, segs)))
        rx.apply_done("receive_trace")
        for ev in w.events:
            if ev["op"] == "recv":
                ctx.nontrivial(("rx", chain, tuple(names), ev["len"], tuple(ev["head"]), ev["enc"]))
        if len(ctx.cov["samples"]) < 3:
            ev = next((e for e in reversed(w.events) if e["op"] == "recv" and any(r["h"] for r in e["log"])), None)
            if ev is not None:      # (no handler entered at all in this world: the validation of its trace says why)
                ctx.sample({"world": [chain, names], "delivery": {k: v for k, v in ev.items() if k not in ("head",)}})
    # ---------------- history: table actions of the real node between batteries; the exit sockets' own receive path
    if quick:
        hplans = [("udp", ["HiddenTunnelCommunity+xbt"], "timeouts"), ("udp", ["TunnelCommunity+xipv8"], "removals"),
                  ("tunnel", ["PlainCommunity", "HiddenTunnelCommunity+xall"], "walk")]
    else:
        hplans = [(chain, [cls + opt], fam) for fam in ("timeouts", "removals", "walk")
                  for chain, cls, opt in (("udp", "HiddenTunnelCommunity", "+xbt"), ("udp", "TunnelCommunity", "+xipv8"),
                                          ("tstats", "HiddenTunnelCommunity", "+xall"), ("disp", "TunnelCommunity", ""))]
    hsegs = []
    for chain, names, family in hplans:
        w = rx.world(chain, names)
        w.family, w.seg = family, 10 ** 9
        rx.history(w, random.Random("%s-%s" % (seed, family)), family, quick)
        hsegs += rx.add_world(w)
        if not quick or family == hplans[-1][2] and names == hplans[-1][1]:
            # (quick: the three history traces are validated by one TLC run)
            rx.jobs.append((hsegs, specs.pool.submit(rx.tlc_validate, hsegs)))
            hsegs = []
        rx.apply_done("receive_trace")
        for ev in w.events:
            if ev["op"] in ("recv", "xrecv"):
                ctx.nontrivial(("hx", chain, tuple(names), family, ev["op"], ev["len"], tuple(ev["head"]),
                                ev.get("enc"), ev.get("fam")))
    rx.history_vacuity()
    # ---------------- registrations: TLC's graph of table operations replayed into a real endpoint
    registrations(ctx, rx, specs, tier, seed)
    rx.apply_done("receive_trace")
    from ..vloop import uninstall
    uninstall()                      # wall clock back (Ctx measures real time)

    # ---------------- decoding (while TLC validates the deliveries)
    dx = Dx(ctx, tier, seed)
    dx.run()
    dx.submit(specs.pool)
    try:
        controls, ctl_err = trace_controls(rx, dx, specs.pool), None
    except Exception as e:  # noqa: BLE001
        # the controls corrupt what an ACCEPTED trace contains; on a tree whose traces are rejected the material may be
        # missing - that is decided below, once the verdict on the traces is known
        controls, ctl_err = [], e

    ok_rx = rx.apply_all("receive_trace")
    ctx.evaluated(rx.n_recv)
    ctx.traces(len(rx.segments) + len(getattr(rx, "reg_segments", ())))
    ok_dx = dx.apply_all("decode_trace")
    ctx.evaluated(len(dx.events) + dx.rejected)
    ctx.traces(len(dx.jobs))
    ev = next((e for e in dx.events if e["m"] == "probe" and e["ok"] and len(e["buf"]) > 8), None)
    if ev:
        ctx.sample({"decode": {k: v for k, v in ev.items() if k != "v"}})
    if ok_rx and ok_dx:
        if ctl_err is not None:
            raise ctl_err if isinstance(ctl_err, MachineryError) else MachineryError(
                "trace controls could not be built on accepted traces: %r" % (ctl_err,))
        for name, fut in controls:
            ctx.control(name, fut.result())
    else:
        # the trace controls corrupt an *accepted* trace; on a tree that violates the property only the
        # spec-level controls are meaningful
        for _name, fut in controls:
            fut.result()
        ctx.note("trace_controls", "not evaluated: the recorded traces are already rejected")
    specs.collect(ctx)
    return ctx.finish()
