"""C13 - NAT puncturing: specs/NatWalk.tla (cone NAT network + the introduction / puncture protocol of
ipv8/community.py) model checked by TLC and bound to the real Community code on harness/simnet.py:

 R  every transition of TLC's state graph (all NAT type / placement / style configurations, every delivery order)
    is executed on real Community objects behind real simnet NatBoxes; the projected overlay state, NAT tables and
    decoded datagrams in flight are compared with the TLC state after every step,
 T  seeded random schedules of larger worlds (1..5 candidates, concurrent calls, every host following up on its
    introductions) are recorded and validated by TLC against specs/NatWalkTrace.tla, which re-uses the actions of
    NatWalk.tla and evaluates the C13 invariants in every recorded state.
Histories (both bindings): a NAT loses the mapping of a host while the system is at rest (Rebind; the host shows up
under a fresh external port and registers again), and hosts start with Lamport clocks around 2^16 (long uptime), so
that what the introducer hands out / where it sends the puncture request after an address change and the 16 bit
identifiers on the wire are decided by the same comparison (invariants HandsOutCurrent, HoldsWorking, IdentFits).
The simulator's NAT boxes are validated by the same comparison (source rewriting, mapping / filter tables, every
deliver-or-drop decision and its reason).
Several overlays on one Network (both bindings): every host runs the overlays "M" and "X" with one key, one endpoint
and one Network, as an IPv8 service does; TLC's graph NatWalk_k1_svc.cfg (overlay X is the history of overlay M:
requester and introduced peer may already hold each other there) is replayed, the recorded worlds run both overlays
interleaved; Reach speaks about get_peers() of the overlay the introduction was asked in.
Neighbours over IPv6 (binding T, model checked in NatWalk_k1_v6.cfg): candidates start with verified peers whose
preferred address is IPv6 (entered through Network's public calls, as after a walk over IPv6; the simulated IPv4
network does not carry datagrams to them): whom a peer may name in an old-style / new-style response."""
from __future__ import annotations

import json
import multiprocessing
import os
import random
import re
import shutil

from ..common import Ctx, setup_repo_path
from ..replay import diff_states, edge_cover
from ..tlc import SPECS, FrozenDict, Graph, MachineryError, parse_label, parse_value, run_tlc, scratch_dir

PID = "C13"
ZERO = ("0.0.0.0", 0)
SIGLEN = 64   # curve25519 signatures
KIND_OF = {246: ("ireq", False), 234: ("ireq", True), 245: ("iresp", False), 233: ("iresp", True),
           250: ("preq", False), 232: ("preq", True), 249: ("punc", False), 231: ("punc", True)}
DELIVER = {"DeliverIReq": "ireq", "DeliverIResp": "iresp", "DeliverPReq": "preq", "DeliverPunc": "punc"}
_KEYS = {}
NBR_ADDR = {"N1": ("fd00::11", 8090), "N2": ("fd00::12", 8090), "N3": ("fd00::13", 8090)}
ALL_SVCS = ["M", "X"]
SMALL_JVM = ("-XX:TieredStopAtLevel=1", "-XX:ParallelGCThreads=2")   # short runs: compiling costs more than it saves
_ENV = {}


def env():
    """Virtual loop, real ipv8 imports (after the clock has been installed) and one key per host name."""
    if _ENV:
        return _ENV
    setup_repo_path()
    from .. import vloop
    loop = vloop.install(vloop.VLoop())
    from ipv8.community import Community
    from ipv8.keyvault.crypto import default_eccrypto
    from ipv8.messaging.interfaces.udp.endpoint import UDPv4Address, UDPv4LANAddress, UDPv6Address
    from ipv8.peer import Peer
    from ipv8.messaging.payload import (IntroductionRequestPayload, IntroductionResponsePayload,
                                        NewIntroductionRequestPayload, NewIntroductionResponsePayload,
                                        NewPuncturePayload, NewPunctureRequestPayload, PuncturePayload,
                                        PunctureRequestPayload)
    from ipv8.messaging.payload_headers import BinMemberAuthenticationPayload, GlobalTimeDistributionPayload

    from .. import nodes, simnet

    class C13Community(Community):
        community_id = b"c13-nat-puncture-ovl"

    class C13Other(Community):
        community_id = b"c13-another-overlay-"

    for name in ["I", "A", "B1", "B2", "B3", "B4", "B5", *NBR_ADDR]:
        _KEYS[name] = default_eccrypto.generate_key("curve25519")
    _ENV.update(loop=loop, Community=C13Community, classes={"M": C13Community, "X": C13Other}, Peer=Peer,
                UDPv6Address=UDPv6Address,
                svc_of_id={C13Community.community_id: "M", C13Other.community_id: "X"}, UDPv4Address=UDPv4Address, UDPv4LANAddress=UDPv4LANAddress,
                nodes=nodes, simnet=simnet, auth=BinMemberAuthenticationPayload, dist=GlobalTimeDistributionPayload,
                payloads={246: IntroductionRequestPayload, 234: NewIntroductionRequestPayload,
                          245: IntroductionResponsePayload, 233: NewIntroductionResponsePayload,
                          250: PunctureRequestPayload, 232: NewPunctureRequestPayload,
                          249: PuncturePayload, 231: NewPuncturePayload})
    return _ENV


def addr(a):
    return (str(a[0]), int(a[1]))


class World:
    """Real Community objects on a manual-delivery SimNet with NatBoxes, built from a topology
    (natOf, kind, sock, extip) - the same description the specification starts from."""

    def __init__(self, topo):
        e = env()
        self.e = e
        self.topo = topo
        self.net = e["simnet"].SimNet(e["loop"], auto=False)
        self.hosts = sorted(topo["natOf"])
        self.boxes = {}
        for h in self.hosts:
            n = topo["natOf"][h]
            if n != "-" and n not in self.boxes:
                self.boxes[n] = self.net.nat(topo["kind"][n], ip=topo["extip"][n])
        self.node, self.ov, self.ovs, self.name_of_key, self.errors, self._decoded = {}, {}, {}, {}, [], {}
        self.svcs = list(topo.get("svcs") or ["M"])
        self.incons = []
        for n in NBR_ADDR:
            self.name_of_key[_KEYS[n].pub().key_to_bin()] = n
        for h in self.hosts:
            ip, port = topo["sock"][h]
            n = topo["natOf"][h]
            node = e["nodes"].Node(self.net, key=_KEYS[h], nat=self.boxes.get(n), ip=ip, port=port)
            self.ovs[h] = {}
            for s in self.svcs:      # one key, one endpoint, one Network: the layout of an IPv8 service
                ov = node.add(e["classes"][s])
                # the host environment: this machine's interface address (the code derives its LAN/WAN estimates from it)
                ov._get_lan_address = (lambda ip, port: lambda bootstrap=False: (ip, 0 if bootstrap else port))(ip, port)
                ov.address_is_lan = (lambda ip: lambda a: a == ip)(ip)
                ov._my_estimated_lan = None
                ov.my_estimated_wan = ov.my_estimated_lan          # what EndpointListener.__init__ computes
                ov.logger = _Spy(self.errors, h)
                self.ovs[h][s] = ov
            ov = self.ovs[h]["M"]
            for nb in topo.get("nbrs", {}).get(h, ()):
                # history: a neighbour this host walked to over IPv6 (what on_introduction_response leaves behind)
                peer = e["Peer"](_KEYS[nb].pub().key_to_bin(), e["UDPv6Address"](*NBR_ADDR[nb]))
                peer.new_style_intro = True
                node.network.add_verified_peer(peer)
                node.network.discover_services(peer, [ov.community_id])
            if topo.get("gt0", {}).get(h, 0):
                ov.my_peer.update_clock(topo["gt0"][h])          # uptime before the scenario starts
            self.node[h], self.ov[h] = node, ov
            self.name_of_key[node.my_peer.public_key.key_to_bin()] = h
        self.svc_of_prefix = {ov.get_prefix(): s for s, ov in self.ovs["I"].items()}
        self.name_of_ep = {self.node[h].sim_endpoint: h for h in self.hosts}
        self.contacted = {h: {s: 0 for s in self.svcs} for h in self.hosts}
        self.walked = {h: {s: set() for s in self.svcs} for h in self.hosts}

    # ---------------------------------------------------------------- decoding / projection
    def decode(self, dg):
        e = self.e
        mid = dg.data[22]
        if dg.data[:22] not in self.svc_of_prefix:
            raise MachineryError("datagram with an unknown overlay prefix on the wire")
        if mid not in KIND_OF:
            raise MachineryError("unexpected message id %d on the wire" % mid)
        kind, ns = KIND_OF[mid]
        ser = self.ov["I"].serializer
        if kind == "preq":
            _d, pl = ser.unpack_serializable_list([e["dist"], e["payloads"][mid]], dg.data, offset=23)[:2]
            signer = None
        else:
            au, _d, pl = ser.unpack_serializable_list([e["auth"], e["dist"], e["payloads"][mid]],
                                                      dg.data[:-SIGLEN], offset=23)[:3]
            signer = self.name_of_key.get(au.public_key_bin)
        sender = self.name_of_ep[dg.sender]
        if signer is not None and signer != sender:
            raise MachineryError("datagram signed by %s sent from %s" % (signer, sender))
        out = {"id": dg.seq, "from": sender, "ov": self.svc_of_prefix[dg.data[:22]], "src": addr(dg.src), "dst": addr(dg.dst), "via": dg.note or "wan",
               "kind": kind, "ns": ns, "dest": ZERO, "slan": ZERO, "swan": ZERO, "ilan": ZERO, "iwan": ZERO,
               "ins": False, "ident": pl.identifier}
        if kind in ("ireq", "iresp"):
            out.update(dest=addr(pl.destination_address), slan=addr(pl.source_lan_address),
                       swan=addr(pl.source_wan_address))
        if kind == "iresp":
            out.update(ilan=addr(pl.lan_introduction_address), iwan=addr(pl.wan_introduction_address),
                       ins=bool(pl.intro_supports_new_style))
        if kind == "preq":
            out.update(slan=addr(pl.lan_walker_address), swan=addr(pl.wan_walker_address))
        if kind == "punc":
            out.update(slan=addr(pl.source_lan_address), swan=addr(pl.source_wan_address))
        return out

    def inflight(self):
        """decoded datagrams in flight (decoded once: a datagram does not change after the NAT has rewritten it)"""
        out = []
        for dg in self.net.inflight:
            dec = self._decoded.get(dg.seq)
            if dec is None:
                dec = self._decoded[dg.seq] = self.decode(dg)
            out.append(dec)
        return out

    def host_state(self, h):
        e = self.e
        ov = self.ov[h]
        nw = ov.network
        peers = []
        for p in nw.verified_peers:
            a4, a6 = p.addresses.get(e["UDPv4Address"]), p.addresses.get(e["UDPv6Address"])
            if (a4 is None and a6 is None) or addr(p.address) != addr(a6 or a4):     # Peer.address: IPv6 before IPv4
                raise MachineryError("verified peer whose preferred address is not its UDP address: %r" % (p.addresses,))
            peers.append({"k": self.name_of_key[p.public_key.key_to_bin()], "addr": addr(a4 or ZERO),
                          "a6": addr(a6 or ZERO),
                          "lan": addr(p.addresses.get(e["UDPv4LANAddress"], ZERO)), "ns": bool(p.new_style_intro)})
        sid = e["svc_of_id"]
        known = [{"a": addr(a), "by": self.name_of_key.get(w.introduced_by, "?") if w.introduced_by else "",
                  "ns": bool(w.new_style), "svc": sid.get(w.services, "?") if w.services else ""}
                 for a, w in nw._all_addresses.items()]
        svcs = [{"k": self.name_of_key.get(k, "?"), "s": sid.get(x, "?")}
                for k, xs in nw.services_per_peer.items() for x in xs]
        ovs = self.ovs[h]
        return {"wan": {s: addr(o.my_estimated_wan) for s, o in ovs.items()}, "peers": peers, "known": known,
                "svcs": svcs, "gt": ov.global_time,
                "members": {s: sorted(self.name_of_key[p.public_key.key_to_bin()] for p in o.get_peers())
                            for s, o in ovs.items()},
                # (the method of the class: a sabotaged instance - negative control - still reports what the code says)
                "walkable": {s: sorted(addr(a) for a in type(o).get_walkable_addresses(o)) for s, o in ovs.items()}}

    def nat_state(self, n):
        if n not in self.boxes:
            return {"mapping": [], "allowed": [], "nports": 0}
        box = self.boxes[n]
        return {"mapping": [{"int": addr(i), "port": p} for i, p in box.mapping.items()],
                "allowed": [{"port": p, "remote": addr(r)} for p, rs in box.allowed.items() for r in rs
                            if isinstance(r, tuple)],
                "nports": box.next_port - 20000}

    def project(self):
        """The whole world in the shape of the NatWalk.tla variables."""
        hs = {h: self.host_state(h) for h in self.hosts}
        for h, s in hs.items():
            for v, got in s["members"].items():
                # Network.get_peers_for_service: the verified peers that advertised the service (specification: InSvc)
                want = sorted(p["k"] for p in s["peers"] if {"k": p["k"], "s": v} in s["svcs"])
                if want != got:
                    self.incons.append("get_peers() of overlay %s at %s answers %s; the verified peers that advertised "
                                       "the service are %s" % (v, h, got, want))
        nats = {n: self.nat_state(n) for n in self.topo["kind"]}
        return {"wan": FrozenDict({h: FrozenDict(s["wan"]) for h, s in hs.items()}),
                "peers": FrozenDict({h: frozenset(FrozenDict(p) for p in s["peers"]) for h, s in hs.items()}),
                "known": FrozenDict({h: frozenset(FrozenDict(k) for k in s["known"]) for h, s in hs.items()}),
                "svcs": FrozenDict({h: frozenset(FrozenDict(k) for k in s["svcs"]) for h, s in hs.items()}),
                "gt": FrozenDict({h: s["gt"] for h, s in hs.items()}),
                "mapping": FrozenDict({n: frozenset(FrozenDict(m) for m in s["mapping"]) for n, s in nats.items()}),
                "allowed": FrozenDict({n: frozenset(FrozenDict(m) for m in s["allowed"]) for n, s in nats.items()}),
                "nports": FrozenDict({n: s["nports"] for n, s in nats.items()}),
                "net": frozenset(FrozenDict(p) for p in self.inflight()),
                "nsent": self.net.seq}

    # ---------------------------------------------------------------- actions
    def contact(self, h, s="M"):
        e = self.e
        ov = self.ovs[h][s]
        first = self.contacted[h][s] == 0
        try:
            if first:
                ov.walk_to(e["UDPv4Address"](*self.topo["sock"]["I"]))
            else:
                peer = ov.network.get_verified_by_public_key_bin(self.node["I"].my_peer.public_key.key_to_bin())
                if peer is None:
                    return "the introducer is not a verified peer of %s" % h
                ov.send_introduction_request(peer)
        except Exception as exc:  # noqa: BLE001 - whatever the public call raises is the finding
            return "%s of %s (global time %d) raised %s: %s" % (
                "walk_to" if first else "send_introduction_request", h, ov.global_time, type(exc).__name__, exc)
        finally:
            self.contacted[h][s] += 1
        return None

    def intro_walk(self, h, s, a):
        ov = self.ovs[h][s]
        for w in ov.get_walkable_addresses():
            if addr(w) == addr(a):
                self.walked[h][s].add(addr(a))
                try:
                    ov.walk_to(w)
                except Exception as exc:  # noqa: BLE001
                    return "walk_to(%s) of %s (global time %d) raised %s: %s" % (
                        addr(a), h, ov.global_time, type(exc).__name__, exc)
                return None
        return "%s is not among get_walkable_addresses() of overlay %s at %s" % (a, s, h)

    def can_rebind(self, h):
        n = self.topo["natOf"][h]
        return n in self.boxes and any(addr(i) == addr(self.topo["sock"][h]) for i in self.boxes[n].mapping)

    def rebind(self, h):
        """The NAT in front of h loses h's mapping and filter entries (reboot / expiry); ports are not re-used."""
        if not self.can_rebind(h):
            return "%s has no NAT mapping to lose" % h
        box = self.boxes[self.topo["natOf"][h]]
        for i in [i for i in box.mapping if addr(i) == addr(self.topo["sock"][h])]:
            port = box.mapping.pop(i)
            box.rev.pop(port, None)
            box.allowed.pop(port, None)
        return None

    def deliver(self, seq):
        """-> (delivered?, decoded datagram, reason, receiving host)"""
        for i, dg in enumerate(self.net.inflight):
            if dg.seq == seq:
                dec = self.decode(dg)
                del self.net.inflight[i]
                to = []
                self.net.on_deliver = lambda d: to.append(d)
                ok = self.net.deliver(dg)
                self.net.on_deliver = None
                rcv = None
                if ok:
                    ep, _why = self.net.route(dg)   # pure: same decision again, to name the receiver
                    rcv = self.name_of_ep.get(ep)
                return ok, dec, dg.fate, rcv
        return None, None, "no datagram %d in flight" % seq, None

    def handler_errors(self):
        errs, self.errors[:] = list(self.errors), []
        return errs


class _Spy:
    """Stands in for overlay.logger on the instance: Community.on_packet swallows handler exceptions into it."""

    def __init__(self, sink, host):
        self.sink, self.host = sink, host

    def exception(self, msg, *a):
        self.sink.append("%s: %s" % (self.host, (msg % a if a else msg)[-400:]))

    def __getattr__(self, _name):
        return lambda *a, **k: None


def topo_of_state(st):
    return {"natOf": dict(st["natOf"]), "kind": dict(st["kind"]), "sock": {h: addr(a) for h, a in st["sock"].items()},
            "extip": dict(st["extip"]), "priv": sorted(st["priv"]), "walkers": sorted(st["walkers"]),
            "contacts": {h: dict(c) for h, c in st["contacts"].items()}, "gt0": dict(st["gt"]),
            "svcs": sorted(st["wan"]["I"]), "nbrs": {h: sorted(n) for h, n in st["nbrs"].items()}}


def config_key(topo):
    return tuple((h, topo["natOf"][h], topo["kind"].get(topo["natOf"][h], "-")) for h in sorted(topo["natOf"]))


def apply_edge(w, name, args):
    """Execute one labelled spec step on the real world. -> None or a description of the divergence."""
    if name == "Contact":
        return w.contact(args[0], args[1])
    if name == "IntroWalk":
        return w.intro_walk(args[0], args[1], args[2])
    if name in DELIVER or name == "Lose":
        ok, dec, fate, _rcv = w.deliver(args[0])
        if ok is None:
            return fate
        if name == "Lose":
            if ok:
                return "the simulated network delivered datagram %s which the specification's NAT drops (%s)" % (dec, args[1])
            if fate != "lost:" + args[1]:
                return "datagram %s lost for reason %r, specification says %r" % (dec, fate, args[1])
            return None
        if not ok:
            return "the simulated network dropped datagram %s (%s) which the specification delivers" % (dec, fate)
        if dec["kind"] != DELIVER[name]:
            return "datagram %d is a %s, specification step is %s" % (args[0], dec["kind"], name)
        return None
    if name == "Rebind":
        return w.rebind(args[0])
    if name == "Idle":
        return None
    raise MachineryError("unknown action " + name)


def fix_coverage(r, module="NatWalk.tla"):
    """TLC reports the disjuncts of Next by location; name them after the action they call."""
    with open(os.path.join(SPECS, module), encoding="utf-8") as f:
        lines = f.read().split("\n")
    for m in re.finditer(r"^<Next line \d+, col \d+ to line \d+, col \d+ of module \w+ \((\d+) \d+ \d+ \d+\)>: (\d+):(\d+)",
                         r.output, re.M):
        mm = re.search(r"(\w+)(?:\([^)]*\))?\s*$", lines[int(m.group(1)) - 1])
        if mm:
            od, ot = r.coverage.get(mm.group(1), (0, 0))
            r.coverage[mm.group(1)] = (od + int(m.group(2)), ot + int(m.group(3)))
    r.coverage.pop("Next", None)
    return r


ACTIONS = ["Contact", "IntroWalk", "DeliverIReq", "DeliverIResp", "DeliverPReq", "DeliverPunc", "Lose", "Idle"]


def check_vacuity(r, tag, extra=()):
    missing = [a for a in [*ACTIONS, *extra] if r.coverage.get(a, (0, 0))[1] == 0]
    if missing:
        raise MachineryError("NatWalk %s: actions never taken: %s" % (tag, missing))


# ---------------------------------------------------------------------------------------------------
# binding R: replay of the TLC state graph, walks distributed over forked workers
# ---------------------------------------------------------------------------------------------------
_RE_NODE = re.compile(r'^(-?\d+) \[label="((?:[^"\\]|\\.)*)"(,style = filled)?', re.M)
_RE_EDGE = re.compile(r'^(-?\d+) -> (-?\d+) \[label="((?:[^"\\]|\\.)*)"', re.M)


def _unesc(lbl):
    return lbl.replace("\\n", "\n").replace("\\\\", "\\").replace('\\"', '"')


_RE_VARS = re.compile(r"(?:^|\n)\s*/\\ ")
_PARSED = {}


class LazyVars(dict):
    """variable -> value of one TLC state, every variable parsed on first use; equal texts are parsed once (one step
    changes few variables, and the values are immutable)."""

    def __init__(self, text):
        super().__init__()
        self.raw = {}
        for part in _RE_VARS.split("\n" + text.strip()):
            part = part.strip()
            if part:
                name, sep, val = part.partition(" = ")
                if not sep:
                    name, sep, val = part.partition("=")
                self.raw[name.strip()] = val

    def __missing__(self, var):
        text = self.raw[var]
        val = _PARSED.get(text)
        if val is None:
            if len(_PARSED) > 200000:
                _PARSED.clear()
            val = _PARSED[text] = parse_value(text)
        self[var] = val
        return val

    def __contains__(self, var):
        return var in self.raw

    def get(self, var, default=None):
        return self[var] if var in self.raw else default


class LazyStates(dict):
    """state id -> variables, parsed from the dot label on first use (parsing dominates otherwise)."""

    def __init__(self, raw):
        super().__init__()
        self.raw = raw

    def __missing__(self, sid):
        st = LazyVars(_unesc(self.raw[sid]))
        self[sid] = st
        return st

    def __len__(self):
        return len(self.raw)


def load_graph(path):
    g = Graph()
    with open(path, encoding="utf-8") as f:
        text = f.read()
    raw = {}
    for m in _RE_NODE.finditer(text):
        sid = int(m.group(1))
        if sid not in raw:
            raw[sid] = m.group(2)
            if m.group(3):
                g.init.append(sid)
    g.states = LazyStates(raw)
    labels, seen = {}, set()
    for m in _RE_EDGE.finditer(text):
        lbl = m.group(3)
        if lbl not in labels:
            labels[lbl] = parse_label(_unesc(lbl))
        name, args = labels[lbl]
        key = (int(m.group(1)), name, args, int(m.group(2)))
        if key not in seen:
            seen.add(key)
            g.edges.append(key)
    g.finish()
    return g


_G = {}


def _replay_chunk(chunk):
    """worker: execute walks [(init, [edge...])] on fresh real worlds; -> (ops, covered edges, first problem)"""
    g, cfgname = _G["g"], _G["cfg"]
    nops, covered, first = 0, [], None
    for wi, init, walk in chunk:
        topo = topo_of_state(g.states[init])
        w = World(topo)
        labels = []
        for ei in walk:
            _s, name, args, dst = g.edges[ei]
            labels.append("%s%s" % (name, json.dumps(_j(list(args)))))
            problem = apply_edge(w, name, args)
            nops += 1
            covered.append(ei)
            d = None
            if problem is None:
                errs = w.handler_errors()
                if errs:
                    problem = "a message handler raised: %s" % errs[0]
            if problem is None:
                d = diff_states(g.states[dst], w.project())
                if w.incons:
                    problem, d = w.incons[0], None
                elif d:
                    problem = "real overlays / NAT boxes diverge from NatWalk.tla: %s" % _short(d)
            if problem:
                first = (wi, "replay:%s:%s" % (name, ",".join(sorted(d)) if d else "step"),
                         "after %s in configuration %s: %s" % (labels[-1], config_key(topo), problem),
                         {"cfg": cfgname, "topology": topo, "actions": labels, "diff": _j(d) if d else None})
                break
        if first:
            break
    return nops, covered, first


def _dump_job(cfgname):
    """side process: model check + dump the state graph; -> (TlcResult, scratch dir holding g.dot)"""
    tmp = scratch_dir("c13-")
    try:
        r = _run_tlc_again("NatWalk.tla", cfgname, dump=os.path.join(tmp, "g.dot"), deadlock_off=False, coverage=False)
    except BaseException:
        shutil.rmtree(tmp, ignore_errors=True)
        raise
    r.output = r.output[-4000:]
    r.error_trace = [(lbl, _j(st)) for lbl, st in r.error_trace]
    return r, tmp


def replay_graph(ctx, dumped, cfgname, tag, max_ops, pool_size, history=False, svc=False):
    r, tmp = dumped
    try:
        if not r.ok:
            raise MachineryError("NatWalk %s: TLC reports %s on the specification itself" % (cfgname, r.violated))
        g = load_graph(os.path.join(tmp, "g.dot"))
    finally:
        shutil.rmtree(tmp, ignore_errors=True)
    # action coverage from the graph itself (every labelled transition TLC took)
    for (_s, name, _a, _d) in g.edges:
        od, ot = r.coverage.get(name, (0, 0))
        r.coverage[name] = (od + 1, ot + 1)
    check_vacuity(r, cfgname, ("Rebind",) if history else ())
    ctx.add_tlc(tag, r)
    witness_per_config(ctx, g, tag)
    if svc:
        witness_svc(ctx, g, tag)
    if history:
        witness_history(ctx, g, tag)
        walks = history_walks(g, max_ops, ctx.seed)
    else:
        walks = [(i, init, walk) for i, (init, walk) in enumerate(edge_cover(g, max_ops=max_ops, seed=ctx.seed))]
    _G.update(g=g, cfg=cfgname)
    # contiguous chunks of walks sorted by configuration: the states of different configurations are disjoint, so
    # every worker parses only its own part of the graph
    walks.sort(key=lambda t: (t[1], t[0]))
    nchunks = max(1, min(len(walks), pool_size * 4))
    size = -(-len(walks) // nchunks)
    chunks = [walks[i:i + size] for i in range(0, len(walks), size)]
    if pool_size > 1:
        with multiprocessing.get_context("fork").Pool(pool_size) as pool:
            results = pool.map(_replay_chunk, chunks)
    else:
        results = [_replay_chunk(c) for c in chunks]
    nops = sum(x[0] for x in results)
    covered = set()
    for x in results:
        covered.update(x[1])
    problems = sorted((x[2] for x in results if x[2]), key=lambda t: t[0])
    for _wi, sig, desc, rep in problems[:3]:
        ctx.violation(sig, desc, rep)
    for _i, init, walk in walks:
        ctx.nontrivial((init, tuple(walk)))
    for _i, init, walk in walks[:2]:
        topo = topo_of_state(g.states[init])
        ctx.sample({"topology": {k: topo[k] for k in ("natOf", "kind", "sock")},
                    "actions": ["%s%s" % (g.edges[e][1], json.dumps(_j(list(g.edges[e][2])))) for e in walk]})
    ctx.evaluated(nops)
    ctx.traces(len(walks))
    ctx.note("replay_" + tag, {"walks": len(walks), "real_operations": nops, "graph_states": len(g.states),
                               "graph_edges": len(g.edges), "edges_covered": len(covered),
                               "complete_edge_cover": len(covered) == len(g.edges),
                               "configurations": len(g.init)})


def _short(d, cap=900):
    s = json.dumps(_j(d), sort_keys=True)
    return s if len(s) <= cap else s[:cap] + "..."


def _j(v):
    if isinstance(v, dict):
        return {str(k): _j(x) for k, x in v.items()}
    if isinstance(v, (set, frozenset)):
        return sorted((_j(x) for x in v), key=lambda x: json.dumps(x, sort_keys=True))
    if isinstance(v, (tuple, list)):
        return [_j(x) for x in v]
    return v


def witness_per_config(ctx, g, tag):
    """Non-vacuity: in every configuration (initial state) some reachable state is Done in the sense of the
    specification (Idle is enabled exactly there) and contains an introduction by I to a follower."""
    idle_src = {s for (s, name, _a, _d) in g.edges if name == "Idle"}
    good = {s for s in idle_src if any(i["req"] in g.states[s]["walkers"] for i in g.states[s]["intros"])}
    missing = []
    for init in g.init:
        seen, stack, found = {init}, [init], False
        while stack and not found:
            s = stack.pop()
            if s in good:
                found = True
                break
            for ei in g.out.get(s, ()):
                d = g.edges[ei][3]
                if d not in seen:
                    seen.add(d)
                    stack.append(d)
        if not found:
            missing.append(config_key(topo_of_state(g.states[init])))
    if missing:
        raise MachineryError("NatWalk %s: no completed introduction reachable in configurations %s" % (tag, missing[:3]))
    ctx.note("witness_" + tag, {"configurations_with_completed_introduction": len(g.init)})


def witness_svc(ctx, g, tag):
    """Non-vacuity of the other-overlay history: in every configuration some completed behaviour contains an
    introduction of the same (requester, introduced peer) pair by I in overlay X - followed up before overlay M
    started (Phased), so both held each other as verified peers - and then again in overlay M."""
    idle_src = {s for (s, name, _a, _d) in g.edges if name == "Idle"}
    missing = []
    for init in g.init:
        found = False
        for s in _reachable_from(g, init) & idle_src:
            st = g.states[s]
            pairs = {(i["req"], i["cand"], i["ov"]) for i in st["intros"] if i["req"] in st["walkers"]}
            if any((r, c, "X") in pairs for (r, c, o) in pairs if o == "M"):
                found = True
                break
        if not found:
            missing.append(config_key(topo_of_state(g.states[init])))
    if missing:
        raise MachineryError("NatWalk %s: no introduction in overlay M of a pair that met in overlay X reachable in %s"
                             % (tag, missing[:3]))
    ctx.note("witness_svc_" + tag, {"configurations_with_introduction_of_a_pair_that_met_in_another_overlay": len(g.init)})


def _reachable_from(g, init):
    seen, stack = {init}, [init]
    while stack:
        s = stack.pop()
        for ei in g.out.get(s, ()):
            d = g.edges[ei][3]
            if d not in seen:
                seen.add(d)
                stack.append(d)
    return seen


def witness_history(ctx, g, tag):
    """Non-vacuity of the history premise: in every configuration with a NAT in front of A or the candidate some
    completed behaviour contains a mapping loss between two valid (i.ok) introductions of the same pair, the later one
    at another address - and in every configuration an identifier wraps around 2^16."""
    idle_src = {s for (s, name, _a, _d) in g.edges if name == "Idle"}
    configs, wrapped, reintro = set(), set(), set()
    for init in g.init:
        topo = topo_of_state(g.states[init])
        key = config_key(topo)
        configs.add(key)
        reach = _reachable_from(g, init)
        if any(p["kind"] == "ireq" and p["ns"] and p["ident"] < 16
               for (s, name, _a, d) in g.edges if s in reach and name in ("Contact", "IntroWalk")
               for p in g.states[d]["net"] - g.states[s]["net"]):
            wrapped.add(key)
        if all(topo["natOf"][h] == "-" for h in ("A", "B1")):
            reintro.add(key)           # nothing to lose
            continue
        found = False
        for s in reach & idle_src:
            st = g.states[s]
            if st["nrebind"] == 0:
                continue
            ok = [i for i in st["intros"] if i["ok"] and i["req"] in st["walkers"]]
            if any(i["req"] == j["req"] and i["cand"] == j["cand"] and
                   (i["candaddr"] != j["candaddr"] or i["reqaddr"] != j["reqaddr"]) for i in ok for j in ok):
                found = True
                break
        if found:
            reintro.add(key)
    if configs - reintro:
        raise MachineryError("NatWalk %s: no re-introduction after a lost mapping reachable in %s"
                             % (tag, sorted(configs - reintro)[:3]))
    if configs - wrapped:
        raise MachineryError("NatWalk %s: no new-style request with a wrapped identifier in %s"
                             % (tag, sorted(configs - wrapped)[:3]))
    ctx.note("witness_history_" + tag, {"configurations_with_reintroduction_after_mapping_loss": len(reintro),
                                        "configurations_with_wrapped_identifier": len(wrapped)})


def history_walks(g, max_ops, seed):
    """Walks of a complete edge cover, those that lose a mapping and those that do not: when the budget does not
    allow all of them each kind gets half of it, round-robin over the configurations in seeded order."""
    rng = random.Random(seed)
    per_init = {}
    for init, walk in edge_cover(g, max_ops=None, seed=seed):
        hist = any(g.edges[e][1] == "Rebind" for e in walk)
        per_init.setdefault(init, ([], []))[0 if hist else 1].append(walk)
    out = []
    for which, budget in ((0, None if max_ops is None else max_ops // 2),
                          (1, None if max_ops is None else max_ops - max_ops // 2)):
        lists = [(init, per_init[init][which]) for init in sorted(per_init)]
        for _init, lst in lists:
            rng.shuffle(lst)
        used, rnd = 0, 0
        while budget is None or used < budget:
            row = [(init, lst[rnd]) for init, lst in lists if rnd < len(lst)]
            if not row:
                break
            for init, walk in row:
                if budget is not None and used >= budget:
                    break
                out.append((len(out), init, walk))
                used += len(walk)
            rnd += 1
    return out


# ---------------------------------------------------------------------------------------------------
# binding T: seeded random schedules of larger worlds, validated by TLC (specs/NatWalkTrace.tla)
# ---------------------------------------------------------------------------------------------------
LAN_SCHEMES = [lambda n, i: "192.168.%d.%d" % (n, i), lambda n, i: "10.%d.0.%d" % (n, i),
               lambda n, i: "172.%d.3.%d" % (16 + n % 16, i)]
KINDS = ["fullCone", "addrRestricted", "portRestricted"]


def random_topology(rng, force=None, history=True, overlays=False, v6=False):
    k = rng.randint(1, 5)
    cands = ["B%d" % i for i in range(1, k + 1)]
    a_nat = rng.random() < 0.7 or force == "withA"
    natof, kind, sock, extip = {"I": "-"}, {}, {"I": ("80.0.0.1", 8090)}, {}
    scheme = {}
    for idx, n in enumerate(["A", *cands], start=1):
        kind[n] = "fullCone"
        extip[n] = "90.0.%d.%d" % (rng.randint(0, 3), 10 + idx)
        scheme[n] = rng.choice(LAN_SCHEMES)
    used = {"A": 1}
    natof["A"] = "A" if a_nat else "-"
    if a_nat:
        kind["A"] = rng.choice(KINDS)
    sock["A"] = (scheme["A"](1, 2) if a_nat else "80.0.1.2", rng.choice([8091, 8090, 7759]))
    for idx, c in enumerate(cands, start=1):
        place = rng.choice(["pub", "nat", "nat", "withA" if a_nat else "nat", "withI"])
        if force and idx == 1:
            place = force
        port = rng.choice([8100 + idx, 8090, 6000 + idx])
        if place == "nat":
            natof[c], kind[c] = c, rng.choice(KINDS)
            sock[c] = (scheme[c](10 + idx, 2), port)
        elif place == "withA":
            natof[c] = "A"
            used["A"] += 1
            sock[c] = (scheme["A"](1, 2 + used["A"]), port)
        elif place == "withI":
            natof[c] = "-"
            sock[c] = ("80.0.0.1", 8100 + idx)
        else:
            natof[c] = "-"
            sock[c] = ("80.0.2.%d" % (10 + idx), port)
    priv = sorted({sock[h][0] for h in natof if natof[h] != "-"})
    walkers = ["A"] if rng.random() < 0.4 else ["A", *cands]
    contacts = {"I": {"M": 0, "X": 0}, "A": {"M": rng.randint(1, 3), "X": 0}}
    for c in cands:
        contacts[c] = {"M": rng.randint(1, 2), "X": 0}
    if overlays:
        # the hosts also meet in another overlay on the same Network (interleaved with "M" in any order)
        for h in ["A", *cands]:
            contacts[h]["X"] = rng.randint(0, 2) if h != "A" else rng.randint(1, 2)
    # neighbours some candidates hold over IPv6 when the schedule starts
    nbrs = {h: [] for h in natof}
    if v6:
        for c in cands:
            if rng.random() < 0.7:
                nbrs[c] = sorted(rng.sample(sorted(NBR_ADDR), rng.randint(1, 3)))
    # histories: how long every host has been up (Lamport clock, shared by all its overlays) and how many NAT
    # mappings get lost while the schedule runs (hosts that can lose one register once more afterwards)
    gt0 = {h: rng.choice(CLOCKS) if history else 0 for h in natof}
    rebinds = rng.choice([0, 1, 1, 2, 3]) if history and any(n != "-" for n in natof.values()) else 0
    if rebinds:
        for h in natof:
            if natof[h] != "-":
                contacts[h]["M"] += 1
        contacts["A"]["M"] = max(contacts["A"]["M"], 3)
    return {"natOf": natof, "kind": kind, "sock": sock, "extip": extip, "priv": priv, "walkers": sorted(walkers),
            "contacts": contacts, "gt0": gt0, "rebinds": rebinds, "svcs": list(ALL_SVCS), "nbrs": nbrs}


def norm_topo(topo):
    """Topologies written for one overlay: the second overlay is there and idle, nobody has IPv6 neighbours."""
    topo["svcs"] = list(ALL_SVCS)
    topo["contacts"] = {h: (dict(c) if isinstance(c, dict) else {"M": c, "X": 0}) for h, c in topo["contacts"].items()}
    for c in topo["contacts"].values():
        for s in ALL_SVCS:
            c.setdefault(s, 0)
    topo["nbrs"] = {h: list((topo.get("nbrs") or {}).get(h, ())) for h in topo["natOf"]}
    topo.setdefault("gt0", {h: 0 for h in topo["natOf"]})
    topo.setdefault("rebinds", 0)
    return topo


CLOCKS = [0, 0, 3, 65531, 65534, 65535, 65536, 131069, 131071, 2 ** 24 - 2, 2 ** 31 - 500]


def record_trace(rng, topo, sabotage=None, schedule=None):
    """Run one seeded schedule on a real world. -> trace dict for NatWalkTrace.tla"""
    norm_topo(topo)
    if "rseed" not in topo:
        topo["rseed"] = rng.getrandbits(32) if schedule is None else 0
    random.seed(topo["rseed"])        # get_peer_for_introduction() draws from the global generator
    w = World(topo)
    rebinds = 0
    if sabotage == "no-puncture-request":
        # negative control: the introducer's puncture requests never reach the wire (as if it did not send them)
        ep = w.node["I"].sim_endpoint
        real_send = ep.send
        ep.send = lambda a, pkt: None if pkt[22] in (250, 232) else real_send(a, pkt)
    if sabotage == "walkable-any-verified":
        # negative control: an overlay does not walk to addresses of peers the Network holds for ANOTHER overlay
        for h in w.hosts:
            for o in w.ovs[h].values():
                o.get_walkable_addresses = (lambda o: lambda: [
                    a for a in o.network.get_walkable_addresses(o.community_id)
                    if not any(a in p.addresses.values() for p in o.network.verified_peers)])(o)
    if sabotage == "style-blind":
        # negative control: the peer to introduce is picked without looking at the style of the response
        for h in w.hosts:
            for o in w.ovs[h].values():
                o.get_peer_for_introduction = (lambda o: lambda exclude=None, new_style=False: (
                    lambda av: random.choice(av) if av else None)([p for p in o.get_peers() if p != exclude]))(o)
    events = []

    def log(ev, host, problem=None):
        if sabotage == "frozen-addresses":
            # negative control: the introducer never moves a peer it has verified to the address it is seen at now
            for p in w.ov["I"].network.verified_peers:
                p.address_frozen = True
        if problem:
            ev["raised"] = problem
        ev["emitted"] = [p for p in w.inflight() if p["id"] > log.nsent]
        log.nsent = w.net.seq
        ev["nsent"] = w.net.seq
        ev["nats"] = {n: w.nat_state(n) for n in topo["kind"]}
        if host is not None:
            ev["host"] = _host_json(w.host_state(host))
        errs = w.handler_errors()
        if errs:
            ev["handler_error"] = errs[0]
        events.append(ev)
    log.nsent = 0
    guard = 0
    forced = schedule is not None
    if forced:
        rng = run_schedule(topo, schedule)
    while True:
        if forced and not rng.items:
            forced, rng = False, random.Random(0)      # stored steps done: run on to quiescence
        guard += 1
        if guard > 5000:
            raise MachineryError("schedule does not terminate")
        inflight = w.inflight()
        choices = [("deliver", p["id"]) for p in inflight]
        calls = []
        ikey = w.node["I"].my_peer.public_key.key_to_bin()
        hold = rebinds < topo["rebinds"] and not forced
        for h in w.hosts:
            for s in w.svcs:
                if h != "I" and w.contacted[h][s] < topo["contacts"][h][s]:
                    if hold and 1 <= w.contacted[h][s] == topo["contacts"][h][s] - 1:
                        continue       # every host keeps its last request until the mappings have been lost
                    if w.contacted[h][s] == 0 or w.ov[h].network.get_verified_by_public_key_bin(ikey) is not None:
                        calls.append(("contact", h, s))
        if all(p["kind"] not in ("preq", "punc") for p in inflight):
            for h in topo["walkers"]:
                for s in w.svcs:
                    for a in sorted(addr(x) for x in w.ovs[h][s].get_walkable_addresses()):
                        if a not in w.walked[h][s]:
                            calls.append(("walk", h, s, a))
        if hold and not inflight and not any(c[0] == "walk" for c in calls):
            # the system is at rest: a NAT may lose a mapping now (preferably of a host that registers again)
            cands = [h for h in w.hosts if w.can_rebind(h)]
            again = [h for h in cands if any(w.contacted[h][s] < topo["contacts"][h][s] for s in w.svcs)]
            for h in (again or cands):
                calls.append(("rebind", h))
            if not calls:
                rebinds = topo["rebinds"]      # nothing to lose: go on with the requests held back
                continue
        if forced:       # a stored schedule says itself when a mapping is lost (TLC judges whether it may be)
            calls += [("rebind", h) for h in w.hosts if w.can_rebind(h)]
        if not choices and not calls:
            break
        if forced:
            try:
                ch = rng.choice(choices + calls)
            except LookupError as exc:
                events.append({"act": "Final", "h": "", "net": w.inflight(),
                               "world": {h: _host_json(w.host_state(h)) for h in w.hosts}})
                print("stored step %s is not possible on this tree any more" % (exc.args[0],))
                break
        elif choices and (not calls or rng.random() < 0.65):
            ch = rng.choice(choices)
        else:
            ch = rng.choice(calls)
        if ch[0] == "contact":
            log({"act": "Contact", "h": ch[1], "s": ch[2]}, ch[1], w.contact(ch[1], ch[2]))
        elif ch[0] == "walk":
            log({"act": "IntroWalk", "h": ch[1], "s": ch[2], "a": list(ch[3])}, ch[1], w.intro_walk(ch[1], ch[2], ch[3]))
        elif ch[0] == "rebind":
            rebinds += 1
            log({"act": "Rebind", "h": ch[1]}, ch[1], w.rebind(ch[1]))
        else:
            ok, _dec, fate, rcv = w.deliver(ch[1])
            if ok:
                log({"act": "Deliver", "id": ch[1], "h": rcv}, rcv)
            else:
                log({"act": "Lose", "id": ch[1], "why": fate.split(":", 1)[1], "h": ""}, None)
    if not events or events[-1]["act"] != "Final":
        events.append({"act": "Final", "h": "", "net": w.inflight(),
                       "world": {h: _host_json(w.host_state(h)) for h in w.hosts}})
    verdict = {h: w.host_state(h)["members"] for h in w.hosts}
    return {"topo": topo, "events": events, "get_peers": verdict}


def _record_batch(args):
    """one batch of seeded schedules (thorough tier: batches are recorded side by side in forked workers)"""
    seed, b, per = args
    rng = random.Random(seed * 1000003 + b)
    batch = []
    for i in range(per):
        force = ["withA", "nat", "pub", "withI"][i % 4] if b == 0 and i < 8 else None
        # two of three worlds have a history (lost mappings, long uptimes), the others are static; every second world
        # also meets in the other overlay, two of five worlds have candidates with IPv6 neighbours
        batch.append(record_trace(rng, random_topology(rng, force, history=i % 3 != 2, overlays=i % 2 == 1,
                                                       v6=i % 5 in (0, 3))))
    return batch


def run_schedule(topo, schedule):
    """Re-execute a stored schedule (brief events) on a fresh real world. -> trace for NatWalkTrace.tla"""
    class _Fixed:
        def __init__(self, items):
            self.items = list(items)

        def random(self):
            return 0.0

        def choice(self, options):
            want = self.items[0]
            for o in options:
                if (want["act"] == "Contact" and o[0] == "contact" and o[1] == want["h"] and o[2] == want.get("s", "M")) or \
                   (want["act"] == "Rebind" and o[0] == "rebind" and o[1] == want["h"]) or \
                   (want["act"] == "IntroWalk" and o[0] == "walk" and o[1] == want["h"] and o[2] == want.get("s", "M")
                    and list(o[3]) == list(want["a"])) or \
                   (want["act"] in ("Deliver", "Lose") and o[0] == "deliver" and o[1] == want["id"]):
                    self.items.pop(0)
                    return o
            raise LookupError(want)
    return _Fixed(schedule)


def replay_file(path):
    """./check C13 --replay <file>: run the stored schedule on the real code again and let TLC judge it."""
    with open(path, encoding="utf-8") as f:
        rep = json.load(f)["replay"]
    topo = rep["topology"]
    topo["sock"] = {h: addr(a) for h, a in topo["sock"].items()}
    if "schedule" in rep:
        sched = [e for e in rep["schedule"] if e["act"] != "Final"]
    else:
        sched = []
        for lbl in rep["actions"]:
            m = re.match(r"(\w+)(\[.*\])$", lbl)
            name, args = m.group(1), json.loads(m.group(2))
            if name == "Contact":
                sched.append({"act": "Contact", "h": args[0], "s": args[1] if len(args) > 1 else "M"})
            elif name == "IntroWalk":
                sched.append({"act": "IntroWalk", "h": args[0], "s": args[1] if len(args) > 2 else "M", "a": args[-1]})
            elif name == "Rebind":
                sched.append({"act": "Rebind", "h": args[0]})
            elif name != "Idle":
                sched.append({"act": "Deliver", "id": args[0]})
    norm_topo(topo)
    topo["rebinds"] = sum(1 for e in sched if e["act"] == "Rebind")
    trace = record_trace(None, topo, schedule=sched)
    rc = 0
    complete = len([e for e in trace["events"] if e["act"] != "Final"]) >= len(sched)
    for cfg in ("NatWalkTrace.cfg", "NatWalkTrace_obs.cfg") if complete else ("NatWalkTrace.cfg",):
        r = _validate_job((json.dumps(_j([trace])), cfg))
        l = r.error_trace[-1][1].get("l") if r.error_trace else None
        print("%s: %s" % (cfg, "accepted, invariants hold" if r.ok else "%s at event %s" % (r.violated, l)))
        rc = rc or (0 if r.ok else 1)
    for e in trace["events"][:-1]:
        print("  %-9s %s -> sent %s" % (e["act"], {k: v for k, v in e.items() if k in ("h", "s", "id", "a", "why")},
                                       [(p["ov"], p["kind"], p["src"], p["dst"], p["via"]) for p in e["emitted"]]))
    print("get_peers() at the end:", trace["get_peers"])
    return rc


def _host_json(s):
    return {"wan": {v: list(a) for v, a in s["wan"].items()}, "peers": s["peers"], "known": s["known"],
            "svcs": s["svcs"], "gt": s["gt"], "members": s["members"],
            "walkable": {v: [list(a) for a in x] for v, x in s["walkable"].items()}}


def _validate_job(args):
    traces_json, cfg = args
    tmp = scratch_dir("c13t-")
    try:
        path = os.path.join(tmp, "traces.json")
        with open(path, "w", encoding="utf-8") as f:
            f.write(traces_json)
        r = run_tlc("NatWalkTrace.tla", cfg, env={"TRACE_FILE": path}, coverage=False, java_opts=SMALL_JVM)
    finally:
        shutil.rmtree(tmp, ignore_errors=True)
    if not r.ok and not r.error_trace:
        # "violated by the initial state": TLC prints that state without a numbered header
        mt, ml = re.search(r"/\\ tid = (\d+)", r.output), re.search(r"/\\ l = (\d+)", r.output)
        if mt and ml:
            r.error_trace = [("Initial predicate", {"tid": int(mt.group(1)), "l": int(ml.group(1))})]
    r.output = r.output[-4000:]
    r.error_trace = [(lbl, {k: v for k, v in st.items() if k in ("tid", "l")}) for lbl, st in r.error_trace]
    return r


def _rejected_job(args):
    """Several traces that are all expected to be rejected, judged in ONE TLC run (-continue):
    -> [(violated invariant, trace number)] in the order TLC reports them"""
    traces_json, cfg = args
    if traces_json == "[]":
        return []
    tmp = scratch_dir("c13c-")
    try:
        path = os.path.join(tmp, "traces.json")
        with open(path, "w", encoding="utf-8") as f:
            f.write(traces_json)
        # one worker: the reports of several violations must not interleave
        r = run_tlc("NatWalkTrace.tla", cfg, env={"TRACE_FILE": path}, coverage=False, continue_=True,
                    java_opts=SMALL_JVM, workers=1)
    finally:
        shutil.rmtree(tmp, ignore_errors=True)
    parts = re.split(r"Error: Invariant (\w+) is violated", r.output)
    out = []
    for i in range(1, len(parts), 2):
        m = re.search(r"/\\ tid = (\d+)", parts[i + 1])
        if m and (parts[i], int(m.group(1))) not in out:
            out.append((parts[i], int(m.group(1))))
    return out


BRIEF = ("act", "h", "s", "id", "a", "why")


def judge_traces(ctx, traces, r, tag, strict):
    """Turn TLC's verdict on a batch of recorded schedules into evidence / violations."""
    ctx.add_tlc(tag, r)
    if r.ok:
        return True
    last = r.error_trace[-1][1] if r.error_trace else {}
    tid, l = last.get("tid"), last.get("l")
    bad = traces[tid - 1] if isinstance(tid, int) else None
    evs = bad["events"] if bad else []
    ev = evs[l - 1] if isinstance(l, int) and 0 < l <= len(evs) else None
    brief = json.dumps(_j({k: v for k, v in (ev or {}).items() if k in BRIEF}))
    cfgk = config_key(bad["topo"]) if bad else "?"
    if r.violated == "TraceAccepted":
        what = ("recorded schedule of the real overlays is not a behaviour of NatWalk.tla: event %s %s is not the "
                "specification's step%s" % (l, brief, "" if strict else " (network layer only)"))
        sig = "trace:%s:%s" % ("step" if strict else "network", (ev or {}).get("act", ""))
    else:
        meaning = {"ReachAtEnd": "an introduced peer and the requester did NOT become verified peers of each other",
                   "Reach": "an introduced peer and the requester did NOT become verified peers of each other",
                   "LanMeetAtEnd": "peers behind the same NAT did not connect over their LAN addresses",
                   "LanMeet": "peers behind the same NAT did not connect over their LAN addresses",
                   "AsksPuncture": "the introducer handed out a peer without asking it to puncture towards the requester",
                   "HandsOutCurrent": "the introducer handed out (and sent its puncture request to) an address the "
                                      "introduced peer is no longer reachable at, although that peer has registered "
                                      "from its present address since",
                   "HoldsWorking": "after its contact attempt the requester holds the introduced peer at an address "
                                   "that peer is not reachable at",
                   "HoldsWorkingAtEnd": "after its contact attempt the requester holds the introduced peer at an "
                                        "address that peer is not reachable at",
                   "IdentFits": "a message carries an identifier that does not fit the 16 bit field of the wire format"}
        what = "C13 violated on the real overlays (%s): %s; get_peers() at the end: %s" % (
            r.violated, meaning.get(r.violated, r.violated), json.dumps(bad["get_peers"]) if bad else "?")
        sig = "property:%s" % r.violated
    ctx.violation(sig, what + "; configuration %s" % (cfgk,),
                  {"topology": bad["topo"] if bad else None, "event_index": l, "event": ev,
                   "schedule": [{k: v for k, v in e.items() if k in BRIEF} for e in evs[:l if isinstance(l, int) else 0]]})
    return False


def corrupt(trace, how):
    """Deliberately wrong variants of a recorded trace (negative controls). -> trace or None if not applicable"""
    t = json.loads(json.dumps(_j(trace)))
    if how == "nat-kind":
        # claim a port-restricted / address-restricted box was full cone: a logged filter drop must be rejected
        for e in t["events"]:
            if e["act"] == "Lose" and e["why"] in ("filtered-port", "filtered-addr"):
                for n in t["topo"]["kind"]:
                    t["topo"]["kind"][n] = "fullCone"
                return t
        return None
    if how == "puncture-target":
        for e in t["events"]:
            for p in e.get("emitted", []):
                if p["kind"] == "punc":
                    p["dst"] = [p["dst"][0], p["dst"][1] + 1]
                    return t
        return None
    if how == "forgot-peer":
        for h, s in t["events"][-1]["world"].items():
            if s["peers"]:
                s["peers"] = s["peers"][1:]
                return t
        return None
    if how == "stale-address":
        # after a lost mapping the introducer is claimed to keep the requester's / candidate's first address
        before, prev = {}, None
        for e in t["events"]:
            if e["act"] == "Rebind" and prev is not None:
                n = t["topo"]["natOf"][e["h"]]
                for m in prev["nats"][n]["mapping"]:
                    if m["int"] == list(t["topo"]["sock"][e["h"]]):
                        before[e["h"]] = [t["topo"]["extip"][n], m["port"]]
            if e["act"] == "Deliver" and e["h"] == "I":
                for p in e["host"]["peers"]:
                    if p["k"] in before and p["addr"] != before[p["k"]]:
                        p["addr"] = before[p["k"]]
                        return t
            if "nats" in e:
                prev = e
        return None
    if how == "stale-held":
        # (for the validation of behaviour as observed) a requester that has been handed the candidate's present
        # address is claimed never to move the candidate to it: every state it logs keeps the first address
        first = {}      # (holder, peer) -> first address logged
        changed = False
        states = [e["host"] for e in t["events"] if e.get("h") == "A" and "host" in e] + [t["events"][-1]["world"]["A"]]
        for st in states:
            for p in st["peers"]:
                if p["k"] == "I" or t["topo"]["natOf"][p["k"]] in ("-", t["topo"]["natOf"]["A"]):
                    continue
                old = first.setdefault(p["k"], p["addr"])
                if p["addr"] != old:
                    # get_walkable_addresses(): introduced addresses that are not the address of a verified peer
                    if any(k["a"] == p["addr"] and k["by"] for k in st["known"]) and p["addr"] not in st["walkable"]["M"]:
                        st["walkable"]["M"] = sorted([*st["walkable"]["M"], p["addr"]])
                    st["walkable"]["M"] = [a for a in st["walkable"]["M"] if a != old]
                    p["addr"] = old
                    changed = True
        return t if changed else None
    if how == "wide-identifier":
        # a request is claimed to carry the unreduced Lamport clock
        for e in t["events"]:
            for p in e.get("emitted", []):
                if p["kind"] == "ireq" and e["host"]["gt"] > 65535:
                    p["ident"] = e["host"]["gt"]
                    return t
        return None
    if how == "lan-as-wan":
        # the requester keeps only the LAN candidate of an introduced peer behind another NAT
        for e in t["events"]:
            if e["act"] == "Deliver" and len(e.get("host", {}).get("walkable", {}).get("M", [])) >= 2:
                e["host"]["walkable"]["M"] = e["host"]["walkable"]["M"][:1]
                return t
        return None
    if how == "other-overlay-peer":
        # an overlay is claimed not to offer an introduced address for walking because a peer of ANOTHER overlay has it
        for e in t["events"]:
            st = e.get("host")
            if not st:
                continue
            for v in ALL_SVCS:
                for p in st["peers"]:
                    if p["k"] in st["members"][v]:
                        continue
                    for a in (p["addr"], p["lan"]):
                        if a in st["walkable"][v]:
                            st["walkable"][v] = [x for x in st["walkable"][v] if x != a]
                            return t
        return None
    if how == "v6-in-old-style":
        # a host with IPv6 neighbours is claimed to name one of them in an old-style (IPv4 only) response
        for e in t["events"]:
            nb = t["topo"]["nbrs"].get(e.get("h"), [])
            if e["act"] == "Deliver" and nb:
                resp = [p for p in e["emitted"] if p["kind"] == "iresp" and not p["ns"] and p["iwan"] != list(ZERO)]
                preq = [p for p in e["emitted"] if p["kind"] == "preq"]
                if resp and preq:
                    resp[0].update(iwan=list(NBR_ADDR[nb[0]]), ilan=list(ZERO), ins=True)
                    preq[0].update(dst=list(NBR_ADDR[nb[0]]))
                    return t
        return None
    raise MachineryError(how)


def _run_tlc_again(module, cfg, **kw):
    """run_tlc, once more when the JVM was killed from outside (the machine's OOM killer picks the largest process)"""
    try:
        return run_tlc(module, cfg, **kw)
    except MachineryError as exc:
        if "rc=-9" not in str(exc):
            raise
    return run_tlc(module, cfg, **kw)


def _tlc_job(args):
    module, cfg, kw = args
    r = _run_tlc_again(module, cfg, **kw)
    r = fix_coverage(r) if module == "NatWalk.tla" else r
    r.output = r.output[-4000:]
    r.error_trace = [(lbl, _j(st)) for lbl, st in r.error_trace]    # FrozenDict does not survive pickling
    return r


def run(tier, seed, replay=None):
    env()
    from .. import vloop
    if replay:
        return replay_file(replay)
    real_t0 = vloop._REAL_TIME()

    def tick(what):
        if os.environ.get("C13_TIMING"):
            print("  [%6.1fs] %s" % (vloop._REAL_TIME() - real_t0, what), flush=True)
    ctx = Ctx(PID, tier, seed, "model_checking")
    ctx.cov["rule"] = ("TLC enumerates every NAT type x placement x style configuration and every delivery order of the "
                       "introduction / puncture exchange, with one lost NAT mapping (the host registers again from a "
                       "fresh port) and Lamport clocks passing 2^16; every transition of the state graph is executed on real "
                       "Community objects behind simulated NAT boxes and the projected state compared (also with a second overlay on the "
                       "same Network in which requester and introduced peer met before); non-trivial = "
                       "distinct (configuration, walk) pairs and distinct recorded schedules")
    ctx.assumptions += ["cone NATs only (endpoint-independent mapping, no hair-pinning); a NAT loses a mapping only "
                        "while the system is at rest (nothing in flight, every introduction followed up) and never "
                        "hands out the external port of a lost mapping again; an introduction counts for the "
                        "property when the introduced peer has registered at the introducer since its last mapping loss",
                        "the introducer is publicly reachable; a follow-up walk starts after the puncture exchange "
                        "of all pending introductions has drained (premise of the property)",
                        "datagrams may be reordered arbitrarily but the wire itself loses none (only NAT boxes drop)",
                        "key vault signatures and the wire codec are trusted (used to decode datagrams in flight)",
                        "IPv6 neighbours are a starting state (entered through Network.add_verified_peer / "
                        "discover_services, as a walk over IPv6 leaves it behind); the simulated network carries IPv4 "
                        "only, datagrams to an IPv6 address are lost (no-host) and the neighbours never send",
                        "the overlays of a host share key, endpoint and Network (ipv8_service layout); in the exhaustive "
                        "graph the other overlay runs to completion before the one under test starts, the recorded "
                        "schedules interleave both freely"]
    cpus = os.cpu_count() or 4
    quick = tier == "quick"
    mc = {"deadlock_off": False, "coverage": True}
    ctl_kw = {"deadlock_off": False, "coverage": False, "java_opts": SMALL_JVM}
    # negative controls at specification level: not on the critical path, started once the first graph is there
    ctl_jobs = {"ctl_nopuncture": ("NatWalk.tla", "NatWalk_ctl_nopuncture.cfg", ctl_kw),
                "ctl_early": ("NatWalk.tla", "NatWalk_ctl_early.cfg", ctl_kw),
                "ctl_norefresh": ("NatWalk.tla", "NatWalk_ctl_norefresh.cfg", dict(ctl_kw, deadlock_off=True)),
                "ctl_wideident": ("NatWalk.tla", "NatWalk_ctl_wideident.cfg", ctl_kw)}
    # started once the long graph (k1) is there, so that they do not slow down the runs the replay waits for:
    # candidates with IPv6 neighbours (whom a peer may name in an old-style / a new-style response) - model checked here,
    # bound to the code by the recorded schedules (the code's choice among the eligible peers is random) - and the
    # negative controls of the several-overlays / IPv6-neighbours parts
    late_jobs = {"k1_v6": ("NatWalk.tla", "NatWalk_k1_v6.cfg", dict(mc, java_opts=SMALL_JVM)),
                 "ctl_svcwalk": ("NatWalk.tla", "NatWalk_ctl_svcwalk.cfg", dict(ctl_kw, deadlock_off=True)),
                 "ctl_style": ("NatWalk.tla", "NatWalk_ctl_style.cfg", dict(ctl_kw, deadlock_off=True))}
    jobs = {}
    if not quick:
        jobs["k2"] = ("NatWalk.tla", "NatWalk_k2.cfg", dict(mc, timeout=3000))
        jobs["k1_followall"] = ("NatWalk.tla", "NatWalk_k1_all.cfg", dict(mc, timeout=3000))
        jobs["k1_concurrent21"] = ("NatWalk.tla", "NatWalk_k1_conc21.cfg", dict(mc, timeout=3000))
        jobs["k2_followall"] = ("NatWalk.tla", "NatWalk_k2_all.cfg", dict(mc, timeout=3000))
        jobs["k1_history2"] = ("NatWalk.tla", "NatWalk_k1_hist2.cfg", dict(mc, timeout=3000))
        jobs["ctl_norefresh_addr"] = ("NatWalk.tla", "NatWalk_ctl_norefresh_addr.cfg",
                                      {"deadlock_off": True, "coverage": False})
    side = multiprocessing.get_context("fork").Pool(len(jobs) + len(ctl_jobs) + len(late_jobs) + 8)
    try:
        dumps = {c: side.apply_async(_dump_job, (c,)) for c in ("NatWalk_k1.cfg", "NatWalk_k1_conc.cfg")}
        pending = {k: side.apply_async(_tlc_job, (v,)) for k, v in jobs.items()}

        # ---- T (recording): seeded schedules on real worlds; TLC validates them while the replay runs
        nbatch, per = (1, 24) if quick else (4, 300)
        batches = []
        recorded = [side.apply_async(_record_batch, ((seed, b, per),)) for b in range(1, nbatch)]
        for b in range(nbatch):
            batch = _record_batch((seed, b, per)) if b == 0 else recorded[b - 1].get()
            tj = json.dumps(_j(batch))
            batches.append((batch, side.apply_async(_validate_job, ((tj, "NatWalkTrace.cfg"),)),
                            side.apply_async(_validate_job, ((tj, "NatWalkTrace_obs.cfg"),))))
        traces = [t for b in batches for t in b[0]]
        tick("schedules recorded")
        for t in traces:
            for li, ev in enumerate(t["events"]):
                if "handler_error" in ev:
                    ctx.violation("trace:handler-raised", "a message handler raised: %s" % ev["handler_error"],
                                  {"topology": t["topo"]})
                if "raised" in ev:
                    # (TLC rejects the trace as well: the specification's step transmits a request here)
                    ctx.violation("trace:call-raised", "the requester's contact attempt sends nothing: %s; "
                                  "configuration %s" % (ev["raised"], config_key(t["topo"])),
                                  {"topology": t["topo"], "event_index": li + 1,
                                   "schedule": [{k: v for k, v in e.items() if k in BRIEF}
                                                for e in t["events"][:li + 1]]})
        ctl = []
        for how in ("nat-kind", "puncture-target", "forgot-peer", "lan-as-wan", "stale-address", "wide-identifier",
                    "other-overlay-peer", "v6-in-old-style"):
            bad = next((c for c in (corrupt(t, how) for t in traces) if c is not None), None)
            spare = HISTORY_TOPOLOGY if how in ("stale-address", "wide-identifier") else \
                SVC_TOPOLOGY if how == "other-overlay-peer" else V6_TOPOLOGY if how == "v6-in-old-style" else SABOTAGE_TOPOLOGY
            for k in range(200 if bad is None else 0):   # no recorded world offers the situation: make one
                bad = corrupt(record_trace(random.Random(seed + 1000 + k), dict(spare)), how)
                if bad is not None:
                    break
            ctl.append((how, bad))      # None: this tree does not offer the situation (judged with the verdict)
        ctl_json = json.dumps(_j([b for _h, b in ctl if b is not None]))
        for k in range(200):   # a schedule in which I really introduces B1 to the requester A
            sab = record_trace(random.Random(seed + 1 + k), dict(SABOTAGE_TOPOLOGY), sabotage="no-puncture-request")
            if any(p["kind"] == "iresp" and p["from"] == "I" and addr(p["iwan"]) != ZERO
                   and p["dst"][0] == SABOTAGE_TOPOLOGY["extip"]["A"]
                   for ev in sab["events"] for p in ev.get("emitted", [])):
                break
        else:
            sab = None
        for k in range(200):   # a schedule in which a host that lost its mapping registers again and is handed out
            frozen = record_trace(random.Random(seed + 1 + k), dict(HISTORY_TOPOLOGY), sabotage="frozen-addresses")
            if reintroduced_after_rebind(frozen):
                break
        else:
            frozen = None
        for k in range(200):   # a schedule in which A and B1 meet in overlay X and I then introduces B1 to A in overlay M
            svcsab = record_trace(random.Random(seed + 1 + k), json.loads(json.dumps(SVC_TOPOLOGY)),
                                  sabotage="walkable-any-verified")
            end = svcsab["events"][-1]["world"]
            if "B1" in end["A"]["members"]["X"] and "B1" not in end["A"]["members"]["M"] and any(
                    p["kind"] == "iresp" and p["from"] == "I" and p["ov"] == "M" and addr(p["iwan"]) != ZERO
                    and p["dst"][0] == SVC_TOPOLOGY["extip"]["A"] for ev in svcsab["events"] for p in ev.get("emitted", [])):
                break
        else:
            svcsab = None
        for k in range(200):   # a schedule in which B1 picks an IPv6 neighbour for its old-style answer to A
            blind = record_trace(random.Random(seed + 1 + k), json.loads(json.dumps(V6_TOPOLOGY)), sabotage="style-blind")
            if any("handler_error" in ev and ev.get("h") == "B1" for ev in blind["events"]):
                break
        else:
            blind = None
        obs_ctl = [("ReachAtEnd", sab), ("HandsOutCurrent", frozen), ("ReachAtEnd", svcsab), ("ReachAtEnd", blind)]
        for inv, how in (("HoldsWorkingAtEnd", "stale-held"), ("IdentFits", "wide-identifier")):
            # (stale-held on the one-candidate world: there the requester can only have learned the other address
            # from a valid introduction, which is what HoldsWorking speaks about)
            bad = next((c for c in (corrupt(t, how) for t in traces) if c is not None), None) if how != "stale-held" else None
            for k in range(200 if bad is None else 0):
                bad = corrupt(record_trace(random.Random(seed + 2000 + k), dict(HISTORY_TOPOLOGY)), how)
                if bad is not None:
                    break
            obs_ctl.append((inv, bad))
        obs_json = json.dumps(_j([b for _i, b in obs_ctl if b is not None]))

        # ---- R: the K=1 state graph on the real code
        workers = max(2, cpus - (6 if quick else 8))
        tick("controls prepared")
        try:
            first = dumps["NatWalk_k1_conc.cfg"].get()
            tick("k1_conc graph there")
            ctl_fut = side.apply_async(_rejected_job, ((ctl_json, "NatWalkTrace.cfg"),))
            ctl_obs = side.apply_async(_rejected_job, ((obs_json, "NatWalkTrace_obs_reach.cfg"),))
            pending.update({k: side.apply_async(_tlc_job, (v,)) for k, v in ctl_jobs.items()})
            replay_graph(ctx, first, "NatWalk_k1_conc.cfg", "k1_concurrent", None, workers)
            tick("k1_conc replayed")
            d = dumps["NatWalk_k1.cfg"].get()
            tick("k1 graph there")
            dumps["NatWalk_k1_svc.cfg"] = side.apply_async(_dump_job, ("NatWalk_k1_svc.cfg",))
            pending.update({k: side.apply_async(_tlc_job, (v,)) for k, v in late_jobs.items()})
            replay_graph(ctx, d, "NatWalk_k1.cfg", "k1", 32000 if quick else None, workers, history=True)
            tick("k1 replayed")
            d = dumps["NatWalk_k1_svc.cfg"].get()
            replay_graph(ctx, d, "NatWalk_k1_svc.cfg", "k1_svc", None, workers, svc=True)
            tick("k1_svc replayed")
        finally:
            for fut in dumps.values():
                try:
                    shutil.rmtree(fut.get(timeout=3600)[1], ignore_errors=True)
                except Exception:  # noqa: BLE001
                    pass

        # ---- T (verdicts)
        ok_strict = ok_obs = True
        for bi, (batch, fs, fo) in enumerate(batches):
            ok_strict = judge_traces(ctx, batch, fs.get(), "trace_strict_%d" % bi, True) and ok_strict
            ok_obs = judge_traces(ctx, batch, fo.get(), "trace_observed_%d" % bi, False) and ok_obs
        if ok_strict and ok_obs:
            ctx.traces(len(traces))
            ctx.evaluated(sum(len(t["events"]) for t in traces))
            for t in traces:
                ctx.nontrivial(("trace", config_key(t["topo"]),
                                tuple((e["act"], e.get("h"), e.get("id")) for e in t["events"])))
        ctx.sample({"recorded_schedule": {"topology": traces[0]["topo"],
                                          "first_events": [{k: v for k, v in x.items() if k in BRIEF}
                                                           for x in traces[0]["events"][:8]]}})
        ctx.note("trace_worlds", {"traces": len(traces), "events": sum(len(t["events"]) for t in traces),
                                  "candidates": sorted({len(t["topo"]["natOf"]) - 2 for t in traces}),
                                  "follow_all": sum(1 for t in traces if len(t["topo"]["walkers"]) > 1),
                                  "drops_by_reason": _drop_stats(traces),
                                  "lost_mappings": sum(1 for t in traces for e in t["events"] if e["act"] == "Rebind"),
                                  "reintroduced_after_lost_mapping": sum(1 for t in traces
                                                                         if reintroduced_after_rebind(dict(t, topo={"natOf": "123"}))),
                                  "requests_with_wrapped_identifier": sum(
                                      1 for t in traces for e in t["events"] for p in e.get("emitted", [])
                                      if p["kind"] == "ireq" and e["host"]["gt"] > 65535),
                                  "datagrams_by_kind_and_style": _style_stats(traces),
                                  "worlds_meeting_in_two_overlays": sum(
                                      1 for t in traces if any(c["X"] for c in t["topo"]["contacts"].values())),
                                  "introductions_in_M_of_a_peer_already_met_in_X": sum(
                                      1 for t in traces for e in t["events"] for p in e.get("emitted", [])
                                      if p["kind"] == "iresp" and p["ov"] == "M" and p["from"] == "I" and addr(p["iwan"]) != ZERO
                                      and any(q["k"] in e["host"]["members"]["X"] and addr(p["iwan"]) in (addr(q["addr"]), addr(q["lan"]))
                                              for q in e["host"]["peers"])),
                                  "worlds_with_ipv6_neighbours": sum(1 for t in traces if any(t["topo"]["nbrs"].values())),
                                  "old_style_requests_answered_by_hosts_with_ipv6_neighbours": sum(
                                      1 for t in traces for e in t["events"] if t["topo"]["nbrs"].get(e.get("h"))
                                      for p in e.get("emitted", []) if p["kind"] == "iresp" and not p["ns"]),
                                  "responses_naming_an_ipv6_neighbour": sum(
                                      1 for t in traces for e in t["events"] for p in e.get("emitted", [])
                                      if p["kind"] == "iresp" and ":" in p["iwan"][0])})
        if ok_strict:
            rejected = {tid for _inv, tid in ctl_fut.get()}
            tid = 0
            for how, bad in ctl:
                tid += bad is not None
                ctx.control("trace corrupted by %s is rejected" % how if bad is not None else
                            "no schedule of the real overlays offers the situation for the control %s" % how,
                            bad is not None and tid in rejected)
        if ok_obs:
            seen = ctl_obs.get()
            what = ["an introducer whose puncture requests are suppressed",
                    "an introducer that keeps the first address of its peers after their NAT mapping was lost",
                    "an overlay that does not walk to introduced addresses of peers verified in another overlay",
                    "a peer that picks its introduction without regard to the style of the response",
                    "a requester that keeps the first address of an introduced peer after contacting its present one",
                    "an introduction request carrying the unreduced Lamport clock as identifier"]
            tid = 0
            for i, (inv, bad) in enumerate(obs_ctl):
                tid += bad is not None
                ctx.control("%s is reported by the property-level validation (%s)" % (what[i], inv) if bad is not None
                            else "no schedule of the real overlays offers the situation for the control: %s" % what[i],
                            bad is not None and (inv, tid) in seen)

        tick("trace verdicts and controls in")
        # ---- spec-level runs that went on in the background
        for k, fut in pending.items():
            r = fut.get()
            if k == "ctl_nopuncture":
                ctx.control("specification without the puncture request violates Reach", r.violated == "Reach")
            elif k == "ctl_early":
                ctx.control("follow-up walk racing the puncture violates Reach", r.violated == "Reach")
            elif k == "ctl_norefresh":
                ctx.control("specification in which a verified peer's address is not refreshed violates the history "
                            "invariants after a lost mapping (%s)" % r.violated,
                            r.violated in ("Reach", "HandsOutCurrent", "HoldsWorking"))
            elif k == "ctl_norefresh_addr":
                ctx.control("specification in which a verified peer's address is not refreshed violates HoldsWorking",
                            r.violated == "HoldsWorking")
            elif k == "ctl_svcwalk":
                ctx.control("specification in which an overlay does not walk to addresses of peers verified in another "
                            "overlay violates Reach", r.violated == "Reach")
            elif k == "ctl_style":
                ctx.control("specification in which a peer with IPv6 neighbours picks its introduction without regard to "
                            "the style of the response violates Reach", r.violated == "Reach")
            elif k == "ctl_wideident":
                ctx.control("specification with unreduced identifiers violates IdentFits once the clock passes 2^16",
                            r.violated == "IdentFits")
            else:
                if not r.ok:
                    raise MachineryError("NatWalk %s: TLC reports %s on the specification itself" % (k, r.violated))
                check_vacuity(r, k)
                ctx.add_tlc(k, r)
    finally:
        side.terminate()
    ctx.cov["exhaustive"] = True
    # Ctx measures with time.time(), which is the virtual clock here: report the real wall time
    import time as _t
    ctx.t0 = _t.time() - (vloop._REAL_TIME() - real_t0)
    return ctx.finish()


SABOTAGE_TOPOLOGY = {"natOf": {"I": "-", "A": "A", "B1": "B1"},
                     "kind": {"A": "portRestricted", "B1": "portRestricted"},
                     "sock": {"I": ("80.0.0.1", 8090), "A": ("192.168.1.2", 8091), "B1": ("10.11.0.2", 8101)},
                     "extip": {"A": "90.0.0.1", "B1": "90.0.0.11"}, "priv": ["10.11.0.2", "192.168.1.2"],
                     "walkers": ["A"], "contacts": {"I": 0, "A": 2, "B1": 1}}


HISTORY_TOPOLOGY = {"natOf": {"I": "-", "A": "A", "B1": "B1"},
                    "kind": {"A": "portRestricted", "B1": "addrRestricted"},
                    "sock": {"I": ("80.0.0.1", 8090), "A": ("192.168.1.2", 8091), "B1": ("10.11.0.2", 8101)},
                    "extip": {"A": "90.0.0.1", "B1": "90.0.0.11"}, "priv": ["10.11.0.2", "192.168.1.2"],
                    "walkers": ["A"], "contacts": {"I": 0, "A": 3, "B1": 3},
                    "gt0": {"I": 131070, "A": 65533, "B1": 65535}, "rebinds": 2}


SVC_TOPOLOGY = dict(SABOTAGE_TOPOLOGY, contacts={"I": {"M": 0, "X": 0}, "A": {"M": 1, "X": 2}, "B1": {"M": 1, "X": 1}})


V6_TOPOLOGY = dict(SABOTAGE_TOPOLOGY, contacts={"I": 0, "A": 1, "B1": 1}, nbrs={"B1": ["N1", "N2", "N3"]})


def reintroduced_after_rebind(trace):
    """Does I hand out a host after that host lost a mapping and I processed a later request of it?"""
    sender, lost, back = {}, set(), set()
    for e in trace["events"]:
        for p in e.get("emitted", []):
            sender[p["id"]] = (p["from"], p["kind"])
        if e["act"] == "Rebind":
            lost.add(e["h"])
            back.discard(e["h"])
        if e["act"] == "Deliver" and e["h"] == "I" and sender.get(e["id"], ("", ""))[1] == "ireq":
            req = sender[e["id"]][0]
            if req in lost:
                back.add(req)
            if any(p["kind"] == "iresp" and addr(p["iwan"]) != ZERO for p in e["emitted"]) and (back - {req}):
                return len(trace["topo"]["natOf"]) == 3      # one candidate: the other host is the one handed out
    return False


def _style_stats(traces):
    out = {}
    for t in traces:
        for ev in t["events"]:
            for p in ev.get("emitted", []):
                k = "%s/%s" % (p["kind"], "new" if p["ns"] else "old")
                out[k] = out.get(k, 0) + 1
    return out


def _drop_stats(traces):
    out = {}
    for t in traces:
        for ev in t["events"]:
            if ev["act"] == "Lose":
                out[ev["why"]] = out.get(ev["why"], 0) + 1
    return out
