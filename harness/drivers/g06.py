"""G06 - the hidden-services layer of the tunnel community (specification growth, not one of the 20 listed properties).

specs/HiddenServices.tla      : HiddenTunnelCommunity at the level of roles and messages (seeder, downloader, introduction
                                point, rendezvous point; circuits are channels; messages are never removed, so loss /
                                duplication / late arrival are behaviours), model checked with small name spaces:
                                the whole handshake, the introduction point's life cycle with disturbances; thorough:
                                fabricated link requests, one disturbance anywhere in the handshake, fabricated answers,
                                a re-join with a new swarm key.  Spec-level negative controls: the deviation switches.
specs/HiddenServicesTrace.tla : binding T - real HiddenTunnelCommunity nodes (harness/g06_world.py on harness/onion.py: step
                                loop, manual network, virtual time; scripted scenarios + seeded random schedules with late
                                duplicates, losses, API churn, removed circuits and fabricated messages, harness/g06_runs.py):
                                every step = one action with its arguments, the hidden-services messages really sent = the
                                messages the action sends, projected state = next state; all properties evaluated on it.
                                An exception that escapes the receive path of a node during a delivery is a violation, too.

Findings on the pinned tree (patches + stand-alone repros in proposed_fixes/): G06-1 remove_exit_socket forgets the
introduction / rendezvous entries only when the removal starts (entries registered while the socket lingers stay for ever);
G06-2 PythonCryptoEndpoint.relay_cell raises KeyError for a cell of a half-removed rendezvous link."""
from __future__ import annotations

import copy
import json
import os
import re
import shutil
from concurrent.futures import ThreadPoolExecutor

from ..common import Ctx, setup_repo_path
from ..tlc import MachineryError, run_tlc, scratch_dir

PID = "G06"
SPEC = "HiddenServices.tla"
TRACE = "HiddenServicesTrace.tla"

MC_QUICK = [("handshake", "HiddenServices_mc.cfg"), ("intro", "HiddenServices_intro.cfg")]
MC_THOROUGH = [("forged-link", "HiddenServices_forge_lk.cfg"), ("disturbed", "HiddenServices_fault.cfg"), ("forged-created", "HiddenServices_forge_cd.cfg"),
               ("forged-answers", "HiddenServices_forge_resp.cfg"), ("rejoin", "HiddenServices_rejoin.cfg")]
CTL_QUICK = [("pinned: the tables forget an exit socket only when its removal starts (G06-1)", "HiddenServices_ctl_pinned.cfg", "NoDangling"),
             ("the tables never forget a removed exit socket", "HiddenServices_ctl_noclean.cfg", "NoDangling"),
             ("answers pop a request cache whatever their identifier", "HiddenServices_ctl_ident.cfg", "UnmatchedInert"),
             ("a rendezvous point links whatever cookie is shown", "HiddenServices_ctl_cookie.cfg", "LinkJustified"),
             ("witness: the model reaches the e2e callback", "HiddenServices_wit_callback.cfg", "NeverCallback")]
CTL_THOROUGH = [("the downloader does not bind the answer to the seeder key it asked for", "HiddenServices_ctl_secret.cfg", "KeyAgreement"),
                ("a rendezvous point links exit sockets that carry exit traffic", "HiddenServices_ctl_enabled.cfg", "LinkJustified")]

CORE_ACTIONS = ["JoinSwarm", "CreateIntroPoint", "Lookup", "OnPeersRequestCell", "OnPeersResponse", "OnEstablishIntro",
                "OnIntroEstablished", "OnEstablishRendezvous", "OnRendezvousEstablished", "OnCreateE2ESock", "OnCreateE2ECirc",
                "OnCreatedE2E", "CircuitReady", "OnLinkE2E", "OnLinkedE2E", "DataCircuit", "ExitNew", "ExitConvert", "ExitEnable",
                "CircClose", "CircPop", "ExitClose", "ExitPop", "LeaveSwarm", "Forge", "QuietTimeout", "IPTimeout"]
ALL_ACTIONS = CORE_ACTIONS + ["OnPeersRequestSock", "PeersTimeout", "RPTimeout", "RelayGone", "WrongEnd"]


class Jobs:
    """the model-checking runs are started together and collected at the end (they run while the traces are recorded)"""

    def __init__(self, n):
        self.pool = ThreadPoolExecutor(max_workers=n)
        self.jobs = {}

    def submit(self, cfg, workers, timeout=3000):
        self.jobs[cfg] = self.pool.submit(run_tlc, SPEC, cfg, coverage=False, workers=workers, timeout=timeout)

    def get(self, cfg):
        return self.jobs[cfg].result()


# ------------------------------------------------------------------------------------------------ traces
def plan(tier, seed):
    base = seed * 100000
    runs = [("plain", base, {}), ("two_downloaders", base + 1, {}), ("two_swarms", base + 2, {}),
            ("linger_intro", base + 3, {"how": "destroy"}), ("linger_intro", base + 4, {"how": "own"}),
            ("linger_rendezvous", base + 5, {}), ("wrong_cookie", base + 6, {}), ("enabled_exit", base + 7, {}),
            ("enabled_exit", base + 8, {"side": "seeder"})]
    n = 20 if tier == "quick" else 320
    runs += [("chaos", base + 10 + i, {}) for i in range(n)]
    if tier != "quick":
        runs += [("chaos", base + 1000 + i, {"forge": False, "api": False}) for i in range(40)]
        runs += [("chaos", base + 2000 + i, {"faults": False, "forge": False}) for i in range(40)]
        runs += [("two_swarms", base + 3000 + i, {}) for i in range(10)] + [("two_downloaders", base + 3100 + i, {}) for i in range(10)]
    return runs


def record(runs):
    from .. import g06_runs as gr
    out = []
    for prof, sd, kw in runs:
        r = gr.PROFILES[prof](sd, **kw)
        r["args"] = kw
        out.append(r)
    return out


def _tlc_traces(traces, cfg, workers=4):
    tmp = scratch_dir("g06t-")
    try:
        path = os.path.join(tmp, "traces.json")
        with open(path, "w", encoding="utf-8") as f:
            json.dump({"traces": traces}, f)
        return run_tlc(TRACE, cfg, env={"TRACE_FILE": path}, coverage=False, workers=workers, timeout=3000)
    finally:
        shutil.rmtree(tmp, ignore_errors=True)


def _where(r):
    tid = re.findall(r"/\\ tid = (\d+)", r.output)
    l = re.findall(r"/\\ l = (\d+)", r.output)
    return (int(tid[-1]), int(l[-1])) if tid and l else (None, None)


def validate(traces):
    """fast path: one state per event when everything is accepted; a locating run names trace and event otherwise
    -> (TlcResult, None | (trace index, event index, name of what failed))"""
    expected = sum(len(t["events"]) + 1 for t in traces)
    r = _tlc_traces(traces, "HiddenServicesTrace.cfg")
    if r.ok and r.distinct == expected:
        return r, None
    if not r.ok and r.violated not in (None, "TraceAccepted"):
        tid, l = _where(r)        # a property of the specification fails on a validated prefix
        if tid is not None:
            return r, (tid - 1, l - 2, r.violated)
    r2 = _tlc_traces(traces, "HiddenServicesTrace_locate.cfg")
    if r2.ok:
        raise MachineryError("trace validation: %d states for %d expected, but the locating run accepts everything"
                             % (r.distinct, expected))
    tid, l = _where(r2)
    if tid is None:
        raise MachineryError("trace validation: cannot locate the rejected event:\n" + r2.output[-2000:])
    if r2.violated != "TraceAccepted":
        return r, (tid - 1, l - 2, r2.violated)
    return r, (tid - 1, l - 1, "TraceAccepted")


VIEW = {"circ": lambda r: {"id": r["id"], "ct": r["ct"], "ih": r["ih"], "st": r["st"], "x": r["x"], "req": r["req"], "e2e": r["e2e"],
                           "hs": r["hs"] != {"e1": 0, "e2": 0, "st": 0}},
        "caches": lambda q: {"k": q["k"], "id": q["id"], "c": q["c"]}}


def _plain(v):
    if isinstance(v, dict):
        return {k: _plain(x) for k, x in v.items()}
    if isinstance(v, (set, frozenset)):
        return sorted((_plain(x) for x in v), key=lambda x: json.dumps(x, sort_keys=True))
    if isinstance(v, (list, tuple)):
        return [_plain(x) for x in v]
    return v


def explain(events, idx):
    """what the specification expected at the rejected event: the action alone (without the logged messages and
    projection) is applied to the validated prefix and its next state compared with what the real nodes showed"""
    ev = events[idx]
    cut = copy.deepcopy(events[:idx + 1])
    post = cut[-1].pop("post", None)
    sent = cut[-1].pop("sent", None)
    r = _tlc_traces([{"events": cut}], "HiddenServicesTrace_explain.cfg", workers=1)
    if r.violated != "NotDone" or not r.error_trace:
        return {"why": "the guard of %s does not hold in the state the validated prefix leads to" % ev["a"], "diff": ["guard"]}
    st = _plain(r.error_trace[-1][1])
    diff = []
    detail = {}
    if post is not None:
        for var in ("swarm", "conns", "ips", "circ", "exits", "intro", "rdv", "links", "pex", "pexOn", "caches", "cbs"):
            for n, real in post[var].items():
                spec = st.get(var, {}).get(n, [])
                if var in VIEW:
                    spec = [VIEW[var](x) for x in spec]
                key = lambda x: json.dumps(x, sort_keys=True)  # noqa: E731
                a, b = sorted(map(key, _plain(spec))), sorted(map(key, _plain(real)))
                if var == "cbs":
                    a, b = list(map(key, _plain(spec))), list(map(key, _plain(real)))
                if a != b:
                    diff.append(var)
                    detail["%s[%s]" % (var, n)] = {"specification": [json.loads(x) for x in a], "real nodes": [json.loads(x) for x in b]}
        a = sorted(json.dumps(x, sort_keys=True) for x in _plain(st.get("dht", [])))
        b = sorted(json.dumps(x, sort_keys=True) for x in post["dht"])
        if a != b:
            diff.append("dht")
    if not diff and sent is not None:
        diff.append("sent")
        detail["sent"] = {"real nodes": sent}
    return {"why": "state after the step differs" if diff else "unknown", "diff": sorted(set(diff)), "detail": detail}


def judge(ctx, runs, tag):
    traces = [{"events": r["events"]} for r in runs]
    r, bad = validate(traces)
    ctx.add_tlc(tag, r)
    for run in runs:
        for esc in run["escaped"]:
            ctx.violation("escape:%s@%s" % (esc["exc"], esc["site"]),
                          "an exception escaped the receive path of a HiddenTunnelCommunity node: %s" % esc,
                          {"profile": run["profile"], "seed": run["seed"], "args": run["args"]})
    if bad is None:
        ctx.traces(len(traces))
        ctx.evaluated(sum(len(t["events"]) for t in traces))
        for run in runs:
            acts = sorted({e["a"] for e in run["events"]})
            ctx.nontrivial((run["profile"], tuple(acts), len(run["events"])))
        return True
    ti, ei, what = bad
    run = runs[ti]
    ev = {k: v for k, v in run["events"][ei].items() if k not in ("post",)}
    if what == "TraceAccepted":
        ex = explain(run["events"], ei)
        sig = "trace:%s:%s" % (ev["a"], ",".join(ex["diff"]) or "guard")
        desc = ("real HiddenTunnelCommunity nodes leave HiddenServices.tla at event %d (%s) of run %s/%d: %s; %s"
                % (ei + 1, json.dumps(ev, sort_keys=True)[:600], run["profile"], run["seed"], ex["why"],
                   json.dumps(ex.get("detail", {}), sort_keys=True)[:1200]))
    else:
        sig = "trace-property:%s:%s" % (what, ev["a"])
        desc = ("property %s of HiddenServices.tla fails on the validated execution of run %s/%d after event %d (%s)"
                % (what, run["profile"], run["seed"], ei + 1, json.dumps(ev, sort_keys=True)[:600]))
        ex = {}
    ctx.violation(sig, desc, {"profile": run["profile"], "seed": run["seed"], "args": run["args"], "event_index": ei,
                              "event": ev, "explanation": ex})
    return False


# ------------------------------------------------------------------------------------------------ trace controls
def corrupted(runs):
    """three wrong behaviours made from an accepted run (the plain handshake)"""
    base = next(r for r in runs if r["profile"] == "plain")["events"]
    out = []
    # 1. the introduction point keeps an entry for a circuit it does not have (what G06-1 looks like in a projection)
    t = copy.deepcopy(base)
    last = next(e for e in reversed(t) if "post" in e)
    last["post"]["intro"]["C"] = last["post"]["intro"]["C"] + [{"pk": 99, "c": 77, "ih": 1}]
    out.append(("a projection with an introduction entry for an unknown circuit", t))
    # 2. the rendezvous point links although the link request is missing from the log
    t = [e for e in copy.deepcopy(base) if e["a"] != "OnLinkE2E"]
    out.append(("the rendezvous routes appear without a link-e2e", t))
    # 3. a linked-e2e with an identifier nobody waits for makes the circuit an e2e circuit
    t = copy.deepcopy(base)
    for e in t:
        if e["a"] == "OnLinkedE2E":
            e["m"]["id"] = 4242
    out.append(("a linked-e2e with an unknown identifier is honoured", t))
    return out


# ------------------------------------------------------------------------------------------------ entry
def run(tier, seed, replay=None):
    setup_repo_path()
    ctx = Ctx(PID, tier, seed, "model_checking")
    ctx.cov["rule"] = ("TLC explores HiddenServices.tla exhaustively for small name spaces (every order of handler runs over a "
                       "message set that is never emptied = loss, duplication, late arrival; budgets for API calls, disturbances, "
                       "forgeries); real HiddenTunnelCommunity nodes are stepped one datagram / timer / call at a time and every "
                       "step is validated by TLC as the named action: messages sent = messages of the action, projection = next "
                       "state; non-trivial = distinct (profile, set of actions, length) of accepted executions")
    ctx.assumptions += ["the circuit layer is abstracted to channels (its own specification is Onion.tla, C04/C05/C08/C09)",
                        "Diffie-Hellman, AEAD and the auth tag are symbolic (a key is [e1, e2, static]); the primitives are trusted",
                        "PexCommunity is created/unloaded for real but nobody walks in it (its own specification is Pex.tla, G05)",
                        "estimate_swarm_size, hop counts other than 1 and IPv6 are not exercised",
                        "a re-join while a lookup of the old Swarm object is pending and a node that joins one circuit twice "
                        "(duplicated extend) end the recorded run (outside the specification's vocabulary)"]
    if replay:
        with open(replay, encoding="utf-8") as f:
            rp = json.load(f)["replay"]
        runs = record([(rp["profile"], rp["seed"], rp.get("args") or {})])
        judge(ctx, runs, "replay")
        return ctx.finish()

    mc = MC_QUICK + (MC_THOROUGH if tier != "quick" else [])
    ctl = CTL_QUICK + (CTL_THOROUGH if tier != "quick" else [])
    ncpu = os.cpu_count() or 4
    jobs = Jobs(6 if tier == "quick" else 8)
    for _tag, cfg in mc:
        jobs.submit(cfg, max(2, ncpu // 4))
    for _name, cfg, _inv in ctl:
        jobs.submit(cfg, 2)

    runs = record(plan(tier, seed))
    ok = judge(ctx, runs, "traces")
    hist = {}
    for r in runs:
        for e in r["events"]:
            hist[e["a"]] = hist.get(e["a"], 0) + 1
    ctx.note("trace_actions", hist)
    ctx.note("runs", {"count": len(runs), "aborted": sum(1 for r in runs if r["aborted"]),
                      "with_e2e_callback": sum(1 for r in runs if r["callbacks"]),
                      "events": sum(len(r["events"]) for r in runs)})
    ctx.sample({"run": runs[0]["profile"], "first_events": [{k: v for k, v in e.items() if k != "post"} for e in runs[0]["events"][:6]]})
    if ok:
        need = CORE_ACTIONS if tier == "quick" else ALL_ACTIONS
        missing = [a for a in need if not hist.get(a)]
        if missing:
            raise MachineryError("actions of HiddenServices.tla that no recorded execution took: %s" % missing)
        for name, t in corrupted(runs):
            _r, bad = validate([{"events": t}])
            ctx.control("trace: " + name, bad is not None)

    for tag, cfg in mc:
        r = jobs.get(cfg)
        if not r.ok:
            raise MachineryError("%s: TLC reports %s on the specification itself" % (cfg, r.violated))
        ctx.add_tlc(tag, r)
    for name, cfg, inv in ctl:
        r = jobs.get(cfg)
        ctx.control("spec: " + name + " -> " + inv, r.violated == inv)
    ctx.cov["exhaustive"] = True
    return ctx.finish()
