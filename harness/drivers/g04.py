"""G04 - service container and bootstrappers (specification growth, not one of the 20 listed properties).

specs/Lifecycle.tla     : ipv8_service.IPv8 (configuration, start, ticker/on_tick, add_strategy, unload_overlay, stop,
                          produce_anonymized_endpoint)      - model checked, state graph replayed on the real IPv8 (R)
specs/LifecycleBoot.tla : Community.bootstrap/_bootstrap/ensure_blacklisted, DispersyBootstrapper,
                          UDPBroadcastBootstrapper         - model checked, state graph replayed on a real Community
                          with the real bootstrappers on the simulated network (R)
specs/LifecycleTrace.tla: recorded runs of the real service under the virtual clock (natural scheduling, real
                          RandomWalk + DispersyBootstrapper, API calls at random instants) validated by TLC (T)."""
from __future__ import annotations

import json
import os
import random
import re
import shutil
import time
import warnings
from concurrent.futures import ThreadPoolExecutor

from ..common import Ctx, setup_repo_path
from ..replay import diff_states, edge_cover
from ..tlc import MachineryError, parse_dot, run_tlc, scratch_dir

PID = "G04"

SVC_CONSTS = {
    "a": {"Ov": [1, 2], "ConfOv": [1, 2], "St": [1, 2, 3], "ConfSt": [1, 2], "OvOf": {1: 1, 2: 2, 3: 2},
          "Target": {1: -1, 2: 1, 3: -1}, "WI": 2, "MaxPeers": 1},
    "b": {"Ov": [1, 2, 3], "ConfOv": [1, 2], "St": [1, 2, 3, 4], "ConfSt": [1, 2, 3],
          "OvOf": {1: 1, 2: 2, 3: 2, 4: 3}, "Target": {1: 1, 2: -1, 3: 2, 4: 1}, "WI": 3, "MaxPeers": 2},
    "anon": {"Ov": [1, 2], "ConfOv": [1, 2], "St": [1, 2], "ConfSt": [1, 2], "OvOf": {1: 1, 2: 2},
             "Target": {1: -1, 2: 1}, "WI": 2, "MaxPeers": 1},
}


class TlcJobs:
    """All TLC runs of the check are started together (small models: JVM start-up dominates) and collected on demand."""

    def __init__(self):
        self.pool = ThreadPoolExecutor(max_workers=6)
        self.jobs = {}

    def submit(self, module, cfg, dump=False):
        def job():
            tmp = scratch_dir("g04-")
            try:
                dot = os.path.join(tmp, "g.dot") if dump else None
                r = run_tlc(module, cfg, dump=dot, coverage=dump, workers=2)
                return r, (parse_dot(dot) if dump and r.ok else None)
            finally:
                shutil.rmtree(tmp, ignore_errors=True)
        self.jobs[cfg] = self.pool.submit(job)

    def get(self, cfg):
        return self.jobs[cfg].result()


JOBS = None


def dump_graph(ctx, module, cfg, tag, expect_actions=None):
    r, g = JOBS.get(cfg)
    if not r.ok:
        raise MachineryError("%s %s: TLC reports %s on the specification itself" % (module, cfg, r.violated))
    ctx.add_tlc(tag, r)
    if expect_actions:
        dead = [a for a in expect_actions if not r.coverage.get(a, (0, 0))[1]]
        if dead:
            raise MachineryError("%s %s: actions never taken: %s" % (module, cfg, dead))
    return g


# ---------------------------------------------------------------------------------------------------
# binding R for Lifecycle.tla
# ---------------------------------------------------------------------------------------------------
def replay_service(ctx, cfgname, tag, max_ops, loop):
    from .. import g04_world as gw
    consts = SVC_CONSTS[tag]
    acts = ["Start", "Wake", "AddStrategy", "UnloadOverlay", "UnloadRun", "Stop", "SetPeers"]
    if tag == "anon":
        acts = [a for a in acts if a != "AddStrategy"] + ["ProduceAnon"]
    g = dump_graph(ctx, "LifecycleMC.tla", cfgname, "svc_" + tag, acts)
    nwalks = nedges = 0
    covered = set()
    t0 = time.monotonic()
    for init, walk in edge_cover(g, max_ops=max_ops, seed=ctx.seed):
        w = gw.SvcWorld(loop, consts)
        labels = []
        try:
            d = diff_states(gw.spec_view(g.states[init]), w.project())
            if d or w.problems:
                ctx.violation("svc:init:%s" % ",".join(sorted(d)),
                              "IPv8.__init__ does not build what the configuration says: %s %s" % (d, w.problems),
                              {"cfg": cfgname, "diff": d, "problems": w.problems})
                break
            for ei in walk:
                _s, name, args, dst = g.edges[ei]
                labels.append("%s%s" % (name, list(args)))
                try:
                    w.act(name, args)
                    proj = w.project()
                except Exception as exc:  # noqa: BLE001
                    ctx.violation("svc:escape:%s:%s" % (name, type(exc).__name__),
                                  "exception escapes %s on the real IPv8 service: %r" % (labels[-1], exc),
                                  {"cfg": cfgname, "actions": labels})
                    break
                d = diff_states(gw.spec_view(g.states[dst]), proj)
                covered.add(ei)
                nedges += 1
                if d or w.problems:
                    what = ",".join(sorted(d)) or "problem"
                    ctx.violation("svc:%s:%s" % (name, what),
                                  "real IPv8 service diverges from Lifecycle.tla after %s: %s %s"
                                  % (" ".join(labels), d, w.problems),
                                  {"cfg": cfgname, "actions": labels, "diff": d, "problems": w.problems})
                    break
        finally:
            w.close()
        nwalks += 1
        ctx.nontrivial((tag, tuple(walk)))
        if nwalks <= 2:
            ctx.sample({"service_walk": labels})
        if ctx.violations:
            break
    ctx.evaluated(nedges)
    ctx.traces(nwalks)
    ctx.note("replay_svc_" + tag, {"walks": nwalks, "real_operations": nedges, "graph_states": len(g.states),
                                   "graph_edges": len(g.edges), "edges_covered": len(covered),
                                   "complete_edge_cover": len(covered) == len(g.edges),
           "wall_s": round(time.monotonic() - t0, 1)})


BOOT_CONSTS = {
    "d": {"Boots": [1], "Kind": {1: "d"}, "ConfIPs": {1: ["A", "B"]}, "Names": {1: ["n1"]}, "DnsAddr": ["B", "D"],
          "Others": ["X"], "TO": 2},
    "du": {"Boots": [1, 2], "Kind": {1: "d", 2: "u"}, "ConfIPs": {1: ["A"], 2: []}, "Names": {1: ["n1"], 2: []},
           "DnsAddr": ["D"], "Others": ["X"], "TO": 2},
    "dd": {"Boots": [1, 2], "Kind": {1: "d", 2: "d"}, "ConfIPs": {1: ["A"], 2: ["A", "B"]}, "Names": {1: [], 2: []},
           "DnsAddr": [], "Others": ["X"], "TO": 2},
    "u": {"Boots": [1], "Kind": {1: "u"}, "ConfIPs": {1: []}, "Names": {1: []}, "DnsAddr": [], "Others": ["X", "Y"],
          "TO": 2},
}


def replay_boot(ctx, tag, max_ops, loop):
    from .. import g04_boot as gb
    consts = BOOT_CONSTS[tag]
    cfgname = "LifecycleBoot_%s.cfg" % tag
    acts = ["Bootstrap", "Tick", "Unload", "KeepAlive", "WalkOther", "Answer"]
    if any(consts["Names"].values()):
        acts.append("DnsResolve")
    if "u" in consts["Kind"].values():
        acts += ["OpenDone", "BcastIn"]
    g = dump_graph(ctx, "LifecycleBootMC.tla", cfgname, "boot_" + tag, acts)
    nwalks = nedges = 0
    covered = set()
    t0 = time.monotonic()
    for init, walk in edge_cover(g, max_ops=max_ops, seed=ctx.seed):
        w = gb.BootWorld(loop, consts)
        labels = []
        try:
            d = diff_states(gb.spec_view(g.states[init], consts), w.project())
            if d or w.problems:
                ctx.violation("boot:init:%s" % ",".join(sorted(d)),
                              "the overlay built from the configuration differs from LifecycleBoot.tla's initial state: "
                              "%s %s" % (d, w.problems), {"cfg": cfgname, "diff": d, "problems": w.problems})
                break
            for ei in walk:
                _s, name, args, dst = g.edges[ei]
                labels.append("%s%s" % (name, list(args)))
                try:
                    w.act(name, args)
                    proj = w.project()
                except Exception as exc:  # noqa: BLE001
                    ctx.violation("boot:escape:%s:%s" % (name, type(exc).__name__),
                                  "exception escapes %s on the real overlay/bootstrappers: %r" % (labels[-1], exc),
                                  {"cfg": cfgname, "actions": labels})
                    break
                d = diff_states(gb.spec_view(g.states[dst], consts), proj)
                covered.add(ei)
                nedges += 1
                if d or w.problems:
                    what = ",".join(sorted(d)) or "problem"
                    ctx.violation("boot:%s:%s" % (name, what),
                                  "real bootstrapping diverges from LifecycleBoot.tla after %s: %s %s"
                                  % (" ".join(labels), d, w.problems),
                                  {"cfg": cfgname, "actions": labels, "diff": d, "problems": w.problems})
                    break
        finally:
            w.close()
        nwalks += 1
        ctx.nontrivial((tag, tuple(walk)))
        if nwalks <= 1:
            ctx.sample({"bootstrap_walk": labels})
        if ctx.violations:
            break
    ctx.evaluated(nedges)
    ctx.traces(nwalks)
    ctx.note("replay_boot_" + tag, {"walks": nwalks, "real_operations": nedges, "graph_states": len(g.states),
                                    "graph_edges": len(g.edges), "edges_covered": len(covered),
                                    "complete_edge_cover": len(covered) == len(g.edges),
           "wall_s": round(time.monotonic() - t0, 1)})


def controls_boot(ctx):
    for cfg, inv, what in (("LifecycleBoot_ctl_noensure.cfg", "ContactedBlacklisted",
                            "walk_to without ensure_blacklisted violates ContactedBlacklisted"),
                           ("LifecycleBoot_ctl_norate.cfg", "RateLimit", "dropping the rate check violates RateLimit"),
                           ("LifecycleBoot_ctl_leak.cfg", "SocketsClosed",
                            "unload leaving the broadcast socket open violates SocketsClosed")):
        r, _g = JOBS.get(cfg)
        ctx.control("spec: " + what, r.violated == inv)


# ---------------------------------------------------------------------------------------------------
# binding T: recorded runs of the real service validated by TLC (specs/LifecycleTrace.tla)
# ---------------------------------------------------------------------------------------------------
def _tlc_traces(traces, cfg):
    tmp = scratch_dir("g04t-")
    try:
        path = os.path.join(tmp, "traces.json")
        with open(path, "w", encoding="utf-8") as f:
            json.dump(traces, f)
        return run_tlc("LifecycleTrace.tla", cfg, env={"TRACE_FILE": path}, coverage=False, workers=1)
    finally:
        shutil.rmtree(tmp, ignore_errors=True)


def _where(r):
    tid = re.findall(r"/\\ tid = (\d+)", r.output)
    l = re.findall(r"/\\ l = (\d+)", r.output)
    return (int(tid[-1]), int(l[-1])) if tid and l else (None, None)


def validate_runs(traces, wi):
    """Fast path: without the ENABLED-based acceptance invariant TLC walks every trace as far as it is a behaviour of the
    spec; everything was accepted iff it found one state per event (+ the initial ones).  Only when the count is short
    (or an invariant fails) a second run with TraceAccepted names the trace and the event.
    -> (TlcResult of the fast run, None | (trace index, event index, TlcResult of the locating run))"""
    expected = sum(len(t["events"]) + 1 for t in traces)
    r = _tlc_traces(traces, "LifecycleTrace_w%d.cfg" % wi)
    if r.ok and r.distinct == expected:
        return r, None
    r2 = _tlc_traces(traces, "LifecycleTrace_w%d_locate.cfg" % wi)
    if r2.ok:
        raise MachineryError("trace validation: %d states for %d expected, but the locating run accepts everything"
                             % (r.distinct, expected))
    tid, l = _where(r2)
    if tid is None:
        raise MachineryError("trace validation: cannot locate the rejected event:\n" + r2.output[-2000:])
    return r, (tid - 1, l - 1, r2)


def record_runs(ctx, count):
    from .. import g04_runs as gr
    out = {}
    for wi in (8, 2):
        rng = random.Random(ctx.seed * 1000 + wi)
        out[wi] = [{"events": gr.record_run(rng, wi)} for _ in range(count)]
    return out


def judge_runs(ctx, wi, traces, res):
    r, bad = res
    ctx.add_tlc("trace_w%d" % wi, r)
    if bad is None:
        ctx.traces(len(traces))
        ctx.evaluated(sum(len(t["events"]) for t in traces))
        for t in traces:
            ctx.nontrivial(("run", wi, tuple((e["op"], e["a"], e["k"], tuple(e["steps"])) for e in t["events"])))
        return
    ti, li, r2 = bad
    ev = traces[ti]["events"]
    why = r2.violated
    if why == "TraceAccepted":
        # would the pinned on_tick (no still-registered check) explain the event?  Then an invariant names the defect.
        rp = _tlc_traces([traces[ti]], "LifecycleTrace_w%d_pinned.cfg" % wi)
        if rp.violated and rp.violated != "TraceAccepted":
            why = rp.violated + " (the run is a behaviour of the pinned on_tick, Lifecycle.tla with StaleTick = TRUE)"
    small = [{k: v for k, v in e.items() if v not in (0, [], "")} for e in ev[max(0, li - 8):li + 1]]
    ctx.violation("trace:%s:%s" % (ev[li]["op"], why.split(" ")[0]),
                  "recorded run of the real IPv8 service (walker_interval %d) is not a behaviour of Lifecycle.tla at "
                  "event %d %s: %s" % (wi, li, small[-1], why),
                  {"walker_interval": wi, "event_index": li, "last_events": small, "trace": ev})


def corrupt_close_early(traces):
    for t in traces:
        ev = t["events"]
        ops = [e["op"] for e in ev]
        if "Stop" in ops and "Close" in ops:
            i, j = ops.index("Stop"), ops.index("Close")
            if any(o == "UnloadRun" for o in ops[i:j]):
                new = ev[:i + 1] + [ev[j]] + ev[i + 1:j] + ev[j + 1:]
                return [{"events": new}]
    return None


def corrupt_ghost_step(traces):
    from ..g04_runs import OVOF
    for t in traces:
        ev = t["events"]
        gone = None
        for i, e in enumerate(ev):
            if e["op"] == "UnloadOverlay":
                gone = e["a"]
            elif e["op"] in ("Wake",) and gone is not None:
                s = [x for x in OVOF if OVOF[x] == gone][0]
                new = [dict(x) for x in ev]
                new[i]["steps"] = list(new[i]["steps"]) + [s]
                return [{"events": new}]
    return None


def controls_service(ctx):
    for cfg, inv, what in (("Lifecycle_pinned.cfg", "StepOnlyLoaded",
                            "pinned on_tick (no still-registered check) violates StepOnlyLoaded"),
                           ("Lifecycle_ctl_le.cfg", "StepBelowTarget", "peer count <= target violates StepBelowTarget"),
                           ("Lifecycle_ctl_close.cfg", "EndpointLast",
                            "stop closing the endpoint before the unloads finished violates EndpointLast"),
                           ("Lifecycle_ctl_inplace.cfg", "PassComplete",
                            "unload_overlay filtering the lists in place violates PassComplete")):
        r, _g = JOBS.get(cfg)
        ctx.control("spec: " + what, r.violated == inv)


def run_replay(path):
    """./check G04 --replay replays/G04-xxxx.json : re-executes a stored failing walk (binding R) on the real objects,
    following the same labelled transitions in a freshly dumped state graph."""
    import ast
    from .. import g04_boot as gb
    from .. import g04_world as gw
    with open(path, encoding="utf-8") as f:
        doc = json.load(f)
    obj = doc.get("replay") or {}
    if "cfg" not in obj or "actions" not in obj:
        print("replay files of recorded runs are not re-executable on their own: re-run ./check G04 (seed %s)" % doc["seed"])
        return 2
    cfg = obj["cfg"]
    boot = cfg.startswith("LifecycleBoot_")
    tag = cfg.split("_", 1)[1][:-4]
    global JOBS
    JOBS = TlcJobs()
    JOBS.submit("LifecycleBootMC.tla" if boot else "LifecycleMC.tla", cfg, dump=True)
    r, g = JOBS.get(cfg)
    if not r.ok:
        raise MachineryError("%s: TLC reports %s" % (cfg, r.violated))
    loop = gw.new_loop()
    w = gb.BootWorld(loop, BOOT_CONSTS[tag]) if boot else gw.SvcWorld(loop, SVC_CONSTS[tag])
    view = (lambda st: gb.spec_view(st, BOOT_CONSTS[tag])) if boot else gw.spec_view
    cur = g.init[0]
    still = False
    try:
        for lbl in obj["actions"]:
            name, _, rest = lbl.partition("[")
            args = tuple(ast.literal_eval("[" + rest))
            nxt = [e for e in (g.edges[i] for i in g.out.get(cur, ())) if e[1] == name and tuple(e[2]) == args]
            if not nxt:
                raise MachineryError("replay: %s is not a transition of the specification here" % lbl)
            w.act(name, args)
            d = diff_states(view(g.states[nxt[0][3]]), w.project())
            print("%-28s %s" % (lbl, "conforms" if not (d or w.problems) else "DIVERGES %s %s" % (d, w.problems)))
            if d or w.problems:
                still = True
                break
            cur = nxt[0][3]
    finally:
        w.close()
        from .. import vloop
        vloop.uninstall()
    print("VIOLATION property=G04 replay=%s (still diverges)" % path if still else "G04 replay: conforms now")
    return 1 if still else 0


def run(tier, seed, replay=None):
    setup_repo_path()
    if replay:
        warnings.simplefilter("ignore")
        return run_replay(replay)
    warnings.simplefilter("ignore", RuntimeWarning)
    warnings.simplefilter("ignore", ResourceWarning)
    from .. import g04_world as gw
    ctx = Ctx(PID, tier, seed, "model_checking")
    ctx.cov["rule"] = ("R: every transition of the TLC state graphs of Lifecycle.tla / LifecycleBoot.tla is executed on the "
                       "real ipv8_service.IPv8 / Community + bootstrappers (edge cover; quick: seeded part of the larger "
                       "graphs) and the projected state compared after every action; T: runs of the real service under "
                       "the virtual clock (random API schedules, two walker intervals) are accepted by LifecycleTrace.tla "
                       "event by event with all invariants; non-trivial = distinct walks and distinct recorded runs")
    ctx.assumptions += ["caller discipline: stop() not concurrent with an unload_overlay() in progress or other API calls; "
                        "start/stop called once; a strategy is registered once and for its own overlay",
                        "take_step of the recording strategies takes no (virtual) time"]
    global JOBS
    JOBS = TlcJobs()
    for cfg in ("Lifecycle_a.cfg", "Lifecycle_anon.cfg", "Lifecycle_b.cfg"):
        JOBS.submit("LifecycleMC.tla", cfg, dump=True)
    for tag in ("d", "dd", "du", "u"):
        JOBS.submit("LifecycleBootMC.tla", "LifecycleBoot_%s.cfg" % tag, dump=True)
    for cfg in ("Lifecycle_pinned.cfg", "Lifecycle_ctl_le.cfg", "Lifecycle_ctl_close.cfg", "Lifecycle_ctl_inplace.cfg"):
        JOBS.submit("LifecycleMC.tla", cfg)
    for cfg in ("LifecycleBoot_ctl_noensure.cfg", "LifecycleBoot_ctl_norate.cfg", "LifecycleBoot_ctl_leak.cfg"):
        JOBS.submit("LifecycleBootMC.tla", cfg)
    # recorded runs first (run-mode clock), their validation by TLC overlaps with the replays below
    runs = record_runs(ctx, 120 if tier == "quick" else 1500)
    tjobs = {wi: JOBS.pool.submit(validate_runs, runs[wi], wi) for wi in runs}
    loop = gw.new_loop()
    controls_service(ctx)
    quick = tier == "quick"
    replay_service(ctx, "Lifecycle_a.cfg", "a", None, loop)
    if not ctx.violations:
        replay_service(ctx, "Lifecycle_anon.cfg", "anon", 3000 if quick else None, loop)
    if not ctx.violations:
        replay_service(ctx, "Lifecycle_b.cfg", "b", 25000 if quick else None, loop)
    controls_boot(ctx)
    for tag, cap in (("d", None), ("dd", None), ("du", 1500 if quick else None),
                     ("u", 1000 if quick else None)):
        if not ctx.violations:
            replay_boot(ctx, tag, cap, loop)
    for wi in runs:
        judge_runs(ctx, wi, runs[wi], tjobs[wi].result())
    if not ctx.violations:
        ctx.sample({"recorded_run": [{k: v for k, v in e.items() if v not in (0, [], "")}
                                     for e in runs[8][0]["events"][:12]]})
        bad = corrupt_close_early(runs[8] + runs[2])
        if bad is None:
            raise MachineryError("no recorded run with an unload between Stop and Close to corrupt")
        wi = 8 if any(bad[0]["events"][0] is t["events"][0] for t in runs[8]) else 2
        ctx.control("trace: endpoint closed before the unloads of stop() finished is rejected",
                    not _tlc_traces(bad, "LifecycleTrace_w%d_locate.cfg" % wi).ok)
        for wi in (8, 2):
            bad = corrupt_ghost_step(runs[wi])
            if bad is not None:
                ctx.control("trace: a step for a strategy of an unloaded overlay is rejected",
                            not _tlc_traces(bad, "LifecycleTrace_w%d_locate.cfg" % wi).ok)
                break
        else:
            raise MachineryError("no recorded run with a ticker run after an unload_overlay to corrupt")
    ctx.note("observations_not_judged", [
        "IPv8.start() runs the on_start entries bound at __init__ also for an overlay that was unloaded before start",
        "on_tick: smooth = walk_interval // len(strategies) is a floor division - with the default interval 0.5 there "
        "is never a pause between strategies (the pass is one synchronous block that holds overlay_lock)",
        "on_tick: the logger.exception call joins the traceback lines WITH the message as separator (adjacent string "
        "literals) - cosmetic",
        "stop() does not wait for an unload_overlay() that is still in progress (the endpoint can close under it); "
        "treated as caller discipline",
        "DispersyBootstrapper: an address learned by DNS is blacklisted only when it is first written to (next round or "
        "keep-alive); initialize() extends the blacklist list with addresses get_addresses() already put there "
        "(duplicates)",
        "UDPBroadcastBootstrapper.beacon sweeps ports 0..65534: port 65535 is never announced to although the docstring "
        "says ALL ports; the beacon of initialize() is not rate limited against the next get_addresses round"])
    ctx.cov["exhaustive"] = not quick
    from .. import vloop
    vloop.uninstall()
    return ctx.finish()
