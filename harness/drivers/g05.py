"""G05 - PEX / swarm side of hidden services: model checking of specs/Pex.tla (part S: Swarm + do_peer_discovery,
part P: PexCommunity network), replay of its state graphs and simulated behaviours on the real objects (binding R) and
TLC validation of recorded executions of real PexCommunity overlays at their shipped sizes (binding T)."""
from __future__ import annotations

import json
import os
import random
import re
import shutil

from ..common import Ctx, jsonable, setup_repo_path
from ..replay import edge_cover
from ..tlc import SPECS, MachineryError, parse_dot, parse_simulate_file, run_tlc, scratch_dir

PID = "G05"

S_ACTIONS = {"AddIntroPoint", "RemoveIntroPoint", "CleanUp", "AddConnection", "Linked", "RemoveCircuit", "Transfer",
             "Discover", "LookupDone", "LookupFail", "ManualLookup", "Tick"}
P_ACTIONS = {"StartAnnounce", "StopAnnounce", "Walk", "Deliver", "Lose", "GetIntroPoints", "PTick"}

CONTROLS = [   # (cfg, what must be violated)
    ("Pex_ctl_dupadd.cfg", {"SwarmNoDup"}, "add_intro_point without the equality scan violates SwarmNoDup"),
    ("Pex_ctl_expireused.cfg", {"ExpiresOnlyOldUnused"}, "expiry that ignores established connections violates ExpiresOnlyOldUnused"),
    ("Pex_ctl_nogate.cfg", {"LookupGate"}, "discovery without swarm_lookup_interval violates LookupGate"),
    ("Pex_ctl_forget.cfg", {"HistoryExact", "TotalsMonotone"}, "remove_connection that forgets the counters violates HistoryExact"),
    ("Pex_ctl_expirenewest.cfg", {"PexFresh"}, "expiry loop that looks at the newest entry violates PexFresh"),
    ("Pex_ctl_crossswarm.cfg", {"PexOwnSwarm"}, "processing another swarm's extra bytes violates PexOwnSwarm"),
]


def read_consts(cfg):
    """The CONSTANTS of a cfg file as Python values (ints, bools, sets of ints)."""
    with open(cfg if os.path.isabs(cfg) else os.path.join(SPECS, cfg), encoding="utf-8") as f:
        text = f.read()
    out = {}
    for name, val in re.findall(r"(\w+)\s*=\s*(\{[^}]*\}|\w+)", text):
        if val.startswith("{"):
            items = [x.strip() for x in val[1:-1].split(",") if x.strip()]
            out[name] = frozenset({"TRUE": True, "FALSE": False}.get(x, None) if x in ("TRUE", "FALSE") else int(x)
                                  for x in items)
        elif val in ("TRUE", "FALSE"):
            out[name] = val == "TRUE"
        elif re.fullmatch(r"-?\d+", val):
            out[name] = int(val)
    return out


def check_coverage(r, wanted, tag):
    missing = [a for a in sorted(wanted) if r.coverage.get(a, (0, 0))[1] == 0]
    if missing:
        raise MachineryError("%s: actions never taken (vacuous exploration): %s" % (tag, missing))


def model_check(ctx, cfg, tag, actions, dump=None, timeout=1800):
    r = run_tlc("Pex.tla", cfg, dump=dump, timeout=timeout)
    if not r.ok:
        raise MachineryError("Pex.tla/%s: TLC reports %s on the specification itself" % (cfg, r.violated))
    check_coverage(r, actions, tag)
    ctx.add_tlc(tag, r)
    return r


# ---------------------------------------------------------------------------------------------------
# binding R, part S
# ---------------------------------------------------------------------------------------------------
S_UNIT = 60


def s_world(cfg, cache={}):
    from ..g05_world import SwarmWorld
    consts = read_consts(cfg)
    key = tuple(sorted((k, v) for k, v in consts.items()))
    if key not in cache:
        cache.clear()
        cache[key] = SwarmWorld(consts, S_UNIT)
    return cache[key], consts


def replay_s_walk(ctx, w, consts, init_state, steps, meta, check_queries=True):
    """steps: [(name, args, spec_state_after)]. Returns False after a violation."""
    from ..g05_world import Mismatch, diff, spec_state_s
    w.reset(init_state["seeding"])
    labels = []
    meta = dict(meta, part="S", seeding=init_state["seeding"], variant0=ctx.seed,
                steps=[[n, jsonable(a)] for n, a, _ in steps])
    d0 = diff(spec_state_s(init_state, consts["Circuits"]), w.project())
    if d0:
        raise MachineryError("part S: the fresh world differs from the initial state: %s" % d0)
    for i, (name, args, st) in enumerate(steps):
        labels.append("%s%s" % (name, list(args)))
        exp = spec_state_s(st, consts["Circuits"])
        try:
            extra = w.step(name, args, variant=i + ctx.seed)
            got = w.project()
        except Mismatch as e:
            ctx.violation("replayS:%s:mismatch" % name,
                          "real Swarm / do_peer_discovery leaves Pex.tla at %s: %s" % (labels[-1], e),
                          dict(meta, actions=labels))
            return False
        d = diff(exp, got)
        probs = [k for k, v in extra.items() if not v]
        if not d and check_queries:
            probs += w.queries(exp)
        if d or probs:
            ctx.violation("replayS:%s:%s" % (name, ",".join(sorted(d)) or probs[0].split("(")[0]),
                          "real Swarm / do_peer_discovery diverges from Pex.tla (part S) after %s: %s %s"
                          % (labels[-1], d, probs), dict(meta, actions=labels, diff=d, problems=probs))
            return False
    return True


def replay_s_graph(ctx, cfg, tag, max_ops, actions=S_ACTIONS, skip_self_loops=False):
    tmp = scratch_dir("g05-")
    try:
        dot = os.path.join(tmp, "g.dot")
        model_check(ctx, cfg, tag, actions, dump=dot)
        g = parse_dot(dot)
    finally:
        shutil.rmtree(tmp, ignore_errors=True)
    w, consts = s_world(cfg)
    nwalks = nops = 0
    covered = set()
    for init, walk in edge_cover(g, max_ops=max_ops, seed=ctx.seed, skip_self_loops=skip_self_loops):
        steps = [(g.edges[e][1], g.edges[e][2], g.states[g.edges[e][3]]) for e in walk]
        ok = replay_s_walk(ctx, w, consts, g.states[init], steps, {"cfg": cfg})
        covered.update(walk)
        nops += len(walk)
        nwalks += 1
        ctx.nontrivial(("S", cfg, tuple(walk)))
        if nwalks <= 1:
            ctx.sample({"part": "S", "cfg": cfg, "actions": ["%s%s" % (n, list(a)) for n, a, _ in steps][:25]})
        if not ok:
            break
    ctx.evaluated(nops)
    ctx.traces(nwalks)
    ctx.note("replay_" + tag, {"walks": nwalks, "real_operations": nops, "graph_states": len(g.states),
                               "graph_edges": len(g.edges), "edges_covered": len(covered),
                               "complete_edge_cover": len(covered) == len(g.edges),
                               "self_loops_skipped": skip_self_loops})


def simulate_s(ctx, cfg, tag, num, depth):
    """Random behaviours of a larger instance (shipped proportions of the intervals), replayed step by step."""
    tmp = scratch_dir("g05s-")
    try:
        r = run_tlc("Pex.tla", cfg, simulate="file=%s,num=%d" % (os.path.join(tmp, "sim"), num), depth=depth,
                    seed=ctx.seed + 1, workers=1, coverage=False, timeout=1800)
        if r.violated:
            raise MachineryError("Pex.tla/%s (simulate): TLC reports %s" % (cfg, r.violated))
        files = sorted(f for f in os.listdir(tmp) if f.startswith("sim"))
        behaviours = [parse_simulate_file(os.path.join(tmp, f)) for f in files]
    finally:
        shutil.rmtree(tmp, ignore_errors=True)
    if not behaviours:
        raise MachineryError("simulate produced no behaviour for %s" % cfg)
    w, consts = s_world(cfg)
    seen_actions = set()
    nops = 0
    for b in behaviours:
        steps = [(lbl, args, st) for lbl, args, st in b[1:]]
        seen_actions.update(s[0] for s in steps)
        ok = replay_s_walk(ctx, w, consts, b[0][2], steps, {"cfg": cfg, "mode": "simulate"})
        nops += len(steps)
        ctx.nontrivial(("Ssim", cfg, tuple((s[0], repr(s[1])) for s in steps)))
        if not ok:
            break
    missing = S_ACTIONS - seen_actions
    if len(missing) > 2:
        raise MachineryError("simulate %s never took %s" % (cfg, sorted(missing)))
    ctx.evaluated(nops)
    ctx.traces(len(behaviours))
    ctx.note("simulate_" + tag, {"behaviours": len(behaviours), "real_operations": nops, "depth": depth,
                                 "actions_not_taken": sorted(missing),
                                 "ticks_reached": max(b[-1][2]["now"] for b in behaviours) - consts["T0"]})


# ---------------------------------------------------------------------------------------------------
# binding R, part P
# ---------------------------------------------------------------------------------------------------
def p_world(cfg, cache={}):
    from ..g05_world import PexWorld
    consts = read_consts(cfg)
    key = tuple(sorted((k, v) for k, v in consts.items()))
    if key not in cache:
        cache.clear()
        if 300 % consts["PexAge"]:
            raise MachineryError("PexAge must divide 300")
        cache[key] = PexWorld(consts, 300 // consts["PexAge"])
    return cache[key], consts


def replay_p_graph(ctx, cfg, tag, max_ops, actions=P_ACTIONS):
    from ..g05_world import Mismatch, diff, spec_state_p
    tmp = scratch_dir("g05-")
    try:
        dot = os.path.join(tmp, "g.dot")
        model_check(ctx, cfg, tag, actions, dump=dot)
        g = parse_dot(dot, keep_vars={"now", "pfor", "pips", "msgs", "ret"})
    finally:
        shutil.rmtree(tmp, ignore_errors=True)
    w, consts = p_world(cfg)
    nwalks = nops = 0
    covered = set()
    for init, walk in edge_cover(g, max_ops=max_ops, seed=ctx.seed):
        w.reset()
        labels = []
        for e in walk:
            _s, name, args, dst = g.edges[e]
            labels.append("%s%s" % (name, list(args)))
            try:
                w.step(name, args)
                d = diff(spec_state_p(g.states[dst]), w.project())
            except Mismatch as ex:
                d = {"mismatch": str(ex)}
            if d:
                ctx.violation("replayP:%s:%s" % (name, ",".join(sorted(d))),
                              "real PexCommunity diverges from Pex.tla (part P) after %s: %s" % (labels[-1], d),
                              {"cfg": cfg, "part": "P", "actions": labels, "diff": d,
                               "steps": [[g.edges[x][1], jsonable(g.edges[x][2])] for x in walk]})
                break
        covered.update(walk)
        nops += len(walk)
        nwalks += 1
        ctx.nontrivial(("P", cfg, tuple(walk)))
        if nwalks <= 1:
            ctx.sample({"part": "P", "cfg": cfg, "actions": labels[:25]})
        if ctx.violations:
            break
    ctx.evaluated(nops)
    ctx.traces(nwalks)
    ctx.note("replay_" + tag, {"walks": nwalks, "real_operations": nops, "graph_states": len(g.states),
                               "graph_edges": len(g.edges), "edges_covered": len(covered),
                               "complete_edge_cover": len(covered) == len(g.edges)})


# ---------------------------------------------------------------------------------------------------
# binding T, part P: real overlays at their shipped sizes (deque of 20, 10 keys per message, 300 s)
# ---------------------------------------------------------------------------------------------------
T_CONSTS = {"T0": 10, "Nodes": frozenset(range(1, 7)), "NSwarmA": 4, "PSeeders": frozenset(range(1, 13)),
            "PexCap": 20, "PexAge": 3}


def record_p_traces(count, length, rng, corrupt=None):
    from ..g05_world import PexWorld
    random.seed(rng.getrandbits(32))      # the code under test draws its samples from the global generator
    w = PexWorld(T_CONSTS, 100, sampler=False)
    traces = []
    nodes = sorted(T_CONSTS["Nodes"])
    seeders = sorted(T_CONSTS["PSeeders"])
    for _ti in range(count):
        w.reset()
        events = []
        heavy = _ti % 2 == 0              # two nodes announce more than 10 keys: samples are strict subsets, the
        script = []                       # learned lists of their neighbours run into the bound of 20
        if heavy:
            script = [("StartAnnounce", (1, s)) for s in seeders] + [("StartAnnounce", (2, s)) for s in seeders[1:]]
            rng.shuffle(script)
        for _ in range(length):
            x = rng.random()
            inflight = sorted(w.project()["msgs"])
            if script:
                name, args = script.pop()
            elif x < (0.05 if heavy else 0.22):
                name, args = "StartAnnounce", (rng.choice(nodes), rng.choice(seeders))
            elif x < (0.08 if heavy else 0.30):
                n = rng.choice(nodes)
                have = w.project()["pfor"][n]
                if not have:
                    continue
                name, args = "StopAnnounce", (n, rng.choice(have))
            elif x < 0.50:
                n, m = rng.sample(nodes, 2)
                if heavy and rng.random() < 0.7:
                    n, m = rng.choice([1, 2]), rng.choice([3, 4])
                name, args = "Walk", (n, m, None)
            elif x < 0.80 and inflight:
                t = rng.choice(inflight)
                name, args = "Deliver", ({"src": t[0], "dst": t[1], "k": t[2], "pks": t[3]}, None)
            elif x < 0.83 and inflight:
                t = rng.choice(inflight)
                name, args = "Lose", ({"src": t[0], "dst": t[1], "k": t[2], "pks": t[3]},)
            elif x < 0.94:
                name, args = "GetIntroPoints", (rng.choice(nodes),)
            else:
                name, args = "PTick", ()
            before = set(w.tags)
            w.step(name, args)
            p = w.project()
            sent = [w.tags[q] for q in sorted(set(w.tags) - before)]
            ev = {"a": name, "now": p["now"], "sent": [[t[0], t[1], t[2], list(t[3])] for t in sent]}
            if name in ("StartAnnounce", "StopAnnounce"):
                ev.update(n=args[0], s=args[1])
            elif name == "Walk":
                ev.update(n=args[0], m=args[1])
            elif name in ("Deliver", "Lose"):
                m = args[0]
                ev.update(msg=[m["src"], m["dst"], m["k"], list(m["pks"])])
            elif name == "GetIntroPoints":
                ev.update(n=args[0], lst=[list(i) for i in p["ret"][2]])
            ev["pfor"] = [list(p["pfor"][n]) for n in nodes]
            ev["pips"] = [[list(i) for i in p["pips"][n]] for n in nodes]
            events.append(ev)
        traces.append({"events": events})
    if corrupt == "stale-answer":       # an answer that still lists an entry older than 300 s
        for ev in reversed(traces[0]["events"]):
            if ev["a"] == "GetIntroPoints":
                ev["lst"] = [[2 if ev["n"] != 2 else 1, 1, ev["now"] - 4]] + ev["lst"]
                break
        else:
            raise MachineryError("control trace holds no GetIntroPoints event")
    elif corrupt == "foreign-entry":    # a node of swarm 2 lists a point of swarm 1 after a delivery
        for ev in reversed(traces[0]["events"]):
            if ev["a"] == "Deliver":
                ev["pips"][5] = [[1, 1, ev["now"]]] + ev["pips"][5]
                break
        else:
            raise MachineryError("control trace holds no Deliver event")
    return traces


def validate_p_traces(ctx, traces, tag, expect_reject=False, cfg="PexTrace.cfg", locate="PexTrace_locate.cfg",
                      what="PexCommunity"):
    """Fast path: count the states (every event accepted <=> sum(len + 1) distinct states, all invariants hold);
    only on failure a second run with `ENABLED TraceNext` locates the trace and the event."""
    tmp = scratch_dir("g05t-")
    want = sum(len(t["events"]) + 1 for t in traces)
    try:
        path = os.path.join(tmp, "traces.json")
        with open(path, "w", encoding="utf-8") as f:
            json.dump(traces, f)
        r = run_tlc("PexTrace.tla", cfg, env={"TRACE_FILE": path}, coverage=False, workers=4,
                    timeout=1800)
        accepted = r.ok and r.distinct == want
        if expect_reject:
            return not accepted
        if not accepted and r.ok:
            r = run_tlc("PexTrace.tla", locate, env={"TRACE_FILE": path}, coverage=False, workers=4,
                        timeout=1800)
            if r.ok:
                raise MachineryError("trace validation: %d states instead of %d but no event is rejected"
                                     % (r.distinct, want))
    finally:
        shutil.rmtree(tmp, ignore_errors=True)
    ctx.add_tlc(tag, r)
    if not r.ok:
        last = r.error_trace[-1][1] if r.error_trace else {}
        tid, l = last.get("tid"), last.get("l")
        bad = traces[tid - 1]["events"] if isinstance(tid, int) else []
        if r.violated != "TraceAccepted" and isinstance(l, int):
            l -= 1          # an invariant of Pex.tla fails in the state reached by event l-1
        lo = max(0, (l or 1) - 4)
        ctx.violation("trace%s:%s:%s" % (what[0], r.violated, bad[l - 1]["a"] if isinstance(l, int) and 0 < l <= len(bad) else "?"),
                      "recorded %s execution is not a behaviour of Pex.tla (%s) at event %s" % (what, r.violated, l),
                      {"events": bad[lo:(l or 0)], "event_index": l})
    else:
        ctx.traces(len(traces))
        ctx.evaluated(sum(len(t["events"]) for t in traces))
        for t in traces:
            ctx.nontrivial(("traceP", tuple((e["a"], e.get("n"), e.get("s")) for e in t["events"])))
    return r.ok



# ---------------------------------------------------------------------------------------------------
# binding T, hidden-services glue: real HiddenTunnelCommunity nodes create / drop the PEX overlays
# ---------------------------------------------------------------------------------------------------
def record_glue_trace(ctx, rng, length):
    from ..g05_world import GlueWorld, Mismatch
    random.seed(rng.getrandbits(32))      # first hops, samples of answers: drawn by the code from the global generator
    w = GlueWorld()
    ops = []
    established = set()
    try:
        for _ in range(length):
            x = rng.random()
            inflight = w.inflight()
            if x < 0.16:
                s, j, k = rng.choice(["S1", "S2"]), rng.randint(1, 3), rng.randint(1, 2)
                if (s, j, k) in established:
                    continue
                n0 = len(w.events)
                w.establish(s, j, k)
                established.add((s, j, k))
                ops.append("establish %s E%d swarm%d" % (s, j, k))
                if [(e["a"], e.get("n"), e.get("s")) for e in w.events[n0:]] != [("StartAnnounce", w.node_id(j, k), w.seeder_index(s, k))]:
                    ctx.violation("glue:establish", "establishing an introduction point at E%d for swarm %d did not start "
                                  "exactly one PEX announcement of that seeder key in that swarm's overlay: %s"
                                  % (j, k, [(e["a"], e.get("n"), e.get("s")) for e in w.events[n0:]]), {"ops": ops})
                    break
            elif x < 0.24 and established:
                s, j, k = rng.choice(sorted(established))
                established.discard((s, j, k))
                n0 = len(w.events)
                w.teardown(s, j, k)
                ops.append("teardown %s E%d swarm%d" % (s, j, k))
                if [(e["a"], e.get("n"), e.get("s")) for e in w.events[n0:]] != [("StopAnnounce", w.node_id(j, k), w.seeder_index(s, k))]:
                    ctx.violation("glue:teardown", "destroying the introduction circuit at E%d for swarm %d did not stop "
                                  "exactly one PEX announcement of that seeder key in that swarm's overlay: %s"
                                  % (j, k, [(e["a"], e.get("n"), e.get("s")) for e in w.events[n0:]]), {"ops": ops})
                    break
            elif x < 0.48:
                k = rng.randint(1, 2)
                a, b = rng.sample([1, 2, 3], 2)
                if w.walk(w.node_id(a, k), w.node_id(b, k)):      # the prefix of overlay (a, k) addresses swarm k at host b
                    ops.append("walk %d->%d" % (w.node_id(a, k), w.node_id(b, k)))
            elif x < 0.74 and inflight:
                t = rng.choice(inflight)
                w.deliver(t)
                ops.append("deliver %r" % (t,))
            elif x < 0.76 and inflight:
                t = rng.choice(inflight)
                w.deliver(t, lose=True)
                ops.append("lose %r" % (t,))
            elif x < 0.92:
                j, k = rng.randint(1, 3), rng.randint(1, 2)
                probs = w.ask(j, k)
                ops.append("ask E%d swarm%d" % (j, k))
                if probs:
                    ctx.violation("glue:ask", "peers-request to E%d for swarm %d: %s" % (j, k, probs), {"ops": ops})
                    break
            else:
                w.tick()
                ops.append("tick")
    except Mismatch as e:
        ctx.violation("glue:mismatch", "hidden-services PEX glue left the specification's state space: %s" % e,
                      {"ops": ops})
    ctx.note("glue_world_%d" % len([k for k in ctx.parts if k.startswith("glue_world_")]),
             {"operations": len(ops), "ask_circuits_rebuilt": getattr(w, "rebuilt", 0) - 3, "requests_lost": w.unreachable})
    return {"events": w.events}, ops



# ---------------------------------------------------------------------------------------------------
# ./check G05 --replay replays/G05-xxxx.json
# ---------------------------------------------------------------------------------------------------
def run_replay(path):
    """Re-executes a stored failing history of binding R: the state graph of the stored cfg is generated again, the stored
    labelled steps are followed in it (that yields the specification's states) and replayed on the real objects."""
    from ..g05_world import Mismatch, diff, spec_state_p
    with open(path, encoding="utf-8") as f:
        doc = json.load(f)
    obj = doc.get("replay") or {}
    if obj.get("mode") == "simulate" or "steps" not in obj or obj.get("part") not in ("S", "P"):
        print("this replay file is a recorded trace / simulated behaviour: re-run ./check G05 --tier %s with VERIF_SEED=%s"
              % (doc.get("tier"), doc.get("seed")))
        return run(doc.get("tier", "quick"), int(doc.get("seed", 0)))
    ctx = Ctx(PID, doc.get("tier", "quick"), int(doc.get("seed", 0)), "model_checking")
    tmp = scratch_dir("g05r-")
    try:
        dot = os.path.join(tmp, "g.dot")
        r = run_tlc("Pex.tla", obj["cfg"], dump=dot, coverage=False)
        if not r.ok:
            raise MachineryError("Pex.tla/%s: %s" % (obj["cfg"], r.violated))
        g = parse_dot(dot)
    finally:
        shutil.rmtree(tmp, ignore_errors=True)
    cur = [i for i in g.init if obj["part"] == "P" or g.states[i]["seeding"] == obj["seeding"]][0]
    init, steps = cur, []
    for name, args in obj["steps"]:
        nxt = [e for e in g.out.get(cur, ()) if g.edges[e][1] == name and jsonable(g.edges[e][2]) == args]
        if not nxt:
            raise MachineryError("the stored step %s%s is not in the state graph of %s" % (name, args, obj["cfg"]))
        steps.append((name, g.edges[nxt[0]][2], g.states[g.edges[nxt[0]][3]]))
        cur = g.edges[nxt[0]][3]
    if obj["part"] == "S":
        w, consts = s_world(obj["cfg"])
        ctx.seed = obj.get("variant0", ctx.seed)
        replay_s_walk(ctx, w, consts, g.states[init], steps, {"cfg": obj["cfg"]})
    else:
        w, consts = p_world(obj["cfg"])
        w.reset()
        for name, args, st in steps:
            try:
                w.step(name, args)
                d = diff(spec_state_p(st), w.project())
            except Mismatch as ex:
                d = {"mismatch": str(ex)}
            if d:
                ctx.violation("replayP:%s:%s" % (name, ",".join(sorted(d))),
                              "real PexCommunity diverges from Pex.tla (part P) after %s%s: %s" % (name, list(args), d), obj)
                break
    from .. import vloop
    vloop.uninstall()
    for _sig, desc, _p in ctx.violations:
        print("VIOLATION property=%s replay=%s (still diverges)\n  what: %s" % (PID, path, desc))
    if not ctx.violations:
        print("G05 replay: conforms now")
    return 1 if ctx.violations else 0


# ---------------------------------------------------------------------------------------------------
def run(tier, seed, replay=None):
    setup_repo_path()
    if replay:
        return run_replay(replay)
    ctx = Ctx(PID, tier, seed, "model_checking")
    ctx.cov["rule"] = ("TLC enumerates the call/handler/timer interleavings of one hidden swarm (Swarm + do_peer_discovery) "
                       "and of a three-node PEX network; walks covering the dumped graphs and simulated behaviours of a "
                       "larger instance are executed on the real HiddenTunnelCommunity/Swarm and PexCommunity objects and "
                       "the projected state is compared after every action; recorded random executions of six real "
                       "PexCommunity overlays are validated by TLC; non-trivial = distinct walks / behaviours / traces")
    ctx.assumptions += ["one tick of the specification is a whole number of seconds; time stamps fall on tick boundaries",
                        "the order of Swarm.intro_points is not modelled (a set and its length are)",
                        "part S: the network behind Swarm.lookup_func (send_peers_request) and create_e2e are observed "
                        "stand-ins; part P: introduction requests/responses travel over the simulated network"]
    rng = random.Random(seed)

    for cfg, want, what in CONTROLS:
        r = run_tlc("Pex.tla", cfg, coverage=False, timeout=900)
        ctx.control("spec: " + what, r.violated in want)

    quick = tier == "quick"
    no_tick = S_ACTIONS - {"Tick"}
    no_xfer = S_ACTIONS - {"Transfer"}
    # ---- part S: (cfg, tag, budget of real operations or None = complete edge cover, actions that must occur)
    s_graphs = ([("Pex_s_used.cfg", "s_used", 40000, no_xfer), ("Pex_s_q.cfg", "s_q", 15000, no_xfer),
                 ("Pex_s_connq.cfg", "s_connq", 12000, no_tick),
                 ("Pex_s_seeding.cfg", "s_seeding", 3000, {"Discover", "Tick", "AddIntroPoint"})] if quick else
                [("Pex_s_used.cfg", "s_used", None, no_xfer), ("Pex_s_ips.cfg", "s_ips", 200000, no_xfer),
                 ("Pex_s_conn_r.cfg", "s_conn_r", 150000, S_ACTIONS), ("Pex_s_connq.cfg", "s_connq", 100000, no_tick),
                 ("Pex_s_seeding.cfg", "s_seeding", None, {"Discover", "Tick", "AddIntroPoint"})])
    for cfg, tag, budget, acts in s_graphs:
        if not ctx.violations:
            replay_s_graph(ctx, cfg, tag, budget, acts, skip_self_loops=quick)
    if not ctx.violations:
        simulate_s(ctx, "Pex_s_sim.cfg", "s_sim", 20 if quick else 300, 400)
    if not quick and not ctx.violations:
        model_check(ctx, "Pex_s_conn.cfg", "s_conn", S_ACTIONS, timeout=3600)
        model_check(ctx, "Pex_s_ips2.cfg", "s_ips2", no_xfer, timeout=3600)
    # ---- part P
    no_ptick = P_ACTIONS - {"PTick"}
    p_graphs = ([("Pex_p_q.cfg", "p_q", 12000, no_ptick), ("Pex_p_age.cfg", "p_age", 12000, P_ACTIONS),
                 ("Pex_p_cap.cfg", "p_cap", 6000, no_ptick)] if quick else
                [("Pex_p_q.cfg", "p_q", 70000, no_ptick), ("Pex_p_age.cfg", "p_age", 70000, P_ACTIONS),
                 ("Pex_p_cap.cfg", "p_cap", 70000, no_ptick)])
    for cfg, tag, budget, acts in p_graphs:
        if not ctx.violations:
            replay_p_graph(ctx, cfg, tag, budget, acts)
    if not ctx.violations:
        model_check(ctx, "Pex_p_unload.cfg", "p_unload", P_ACTIONS)
        if not quick:
            model_check(ctx, "Pex_p_net.cfg", "p_net", P_ACTIONS, timeout=3600)
            model_check(ctx, "Pex_p_exp.cfg", "p_exp", P_ACTIONS, timeout=3600)
    ctx.cov["exhaustive"] = True
    if not ctx.violations:
        traces = record_p_traces(10 if quick else 100, 220, rng)
        validate_p_traces(ctx, traces, "p_trace")
        ctx.sample({"part": "P", "recorded": traces[0]["events"][:4]})
        bad = record_p_traces(1, 220, random.Random(seed + 1), corrupt="stale-answer")
        ctx.control("trace: an answer listing an entry older than 300 s is rejected", validate_p_traces(ctx, bad, "ctl", True))
        bad = record_p_traces(1, 220, random.Random(seed + 2), corrupt="foreign-entry")
        ctx.control("trace: a learned entry from the other swarm is rejected", validate_p_traces(ctx, bad, "ctl", True))
    if not ctx.violations:
        gl = [record_glue_trace(ctx, random.Random(seed * 100 + i), 300 if quick else 600) for i in range(1 if quick else 6)]
        if not ctx.violations:
            validate_p_traces(ctx, [t for t, _ in gl], "glue_trace", cfg="PexTrace_glue.cfg",
                              locate="PexTrace_glue_locate.cfg", what="glue (HiddenTunnelCommunity + PexCommunity)")
            ctx.sample({"part": "glue", "operations": gl[0][1][:30]})
            ev = [e for t, _ in gl for e in t["events"]]
            ctx.note("glue", {"worlds": len(gl), "events": len(ev),
                              "by_action": {a: sum(1 for e in ev if e["a"] == a) for a in sorted({e["a"] for e in ev})},
                              "answers_with_entries": sum(1 for e in ev if e["a"] == "GetIntroPoints" and len(e["lst"]) > 1)})
            bad = json.loads(json.dumps(gl[0][0]))
            for e in bad["events"]:
                if e["a"] == "StopAnnounce":          # the overlay keeps its learned list although it was dropped
                    e["pips"][e["n"] - 1] = [[(e["n"] % 3) + 1 + 3 * ((e["n"] - 1) // 3), 1, e["now"]]]
                    break
            else:
                raise MachineryError("glue trace holds no StopAnnounce event")
            ctx.control("trace: an overlay that survives its last announcement is rejected",
                        validate_p_traces(ctx, [bad], "ctl", True, cfg="PexTrace_glue.cfg"))
    from .. import vloop
    vloop.uninstall()
    return ctx.finish()
