"""G05 - PEX / swarm side of hidden services: model checking of specs/Pex.tla (part S: Swarm + do_peer_discovery,
part P: PexCommunity network), replay of its state graphs and simulated behaviours on the real objects (binding R) and
TLC validation of recorded executions of real PexCommunity overlays at their shipped sizes (binding T)."""
from __future__ import annotations

import json
import os
import random
import re
import shutil

from ..common import Ctx, setup_repo_path
from ..replay import edge_cover
from ..tlc import SPECS, MachineryError, parse_dot, parse_simulate_file, run_tlc, scratch_dir

PID = "G05"

S_ACTIONS = {"AddIntroPoint", "RemoveIntroPoint", "CleanUp", "AddConnection", "Linked", "RemoveCircuit", "Transfer",
             "Discover", "LookupDone", "LookupFail", "ManualLookup", "Tick"}
P_ACTIONS = {"StartAnnounce", "StopAnnounce", "Walk", "Deliver", "Lose", "GetIntroPoints", "PTick"}

CONTROLS = [   # (cfg, what must be violated)
    ("Pex_ctl_dupadd.cfg", {"SwarmNoDup"}, "add_intro_point without the equality scan violates SwarmNoDup"),
    ("Pex_ctl_expireused.cfg", {"ExpiresOnlyOldUnused"}, "expiry that ignores established connections violates ExpiresOnlyOldUnused"),
    ("Pex_ctl_nogate.cfg", {"LookupGate"}, "discovery without swarm_lookup_interval violates LookupGate"),
    ("Pex_ctl_forget.cfg", {"HistoryExact", "TotalsMonotone"}, "remove_connection that forgets the counters violates HistoryExact"),
    ("Pex_ctl_expirenewest.cfg", {"PexFresh"}, "expiry loop that looks at the newest entry violates PexFresh"),
    ("Pex_ctl_crossswarm.cfg", {"PexOwnSwarm"}, "processing another swarm's extra bytes violates PexOwnSwarm"),
]


def read_consts(cfg):
    """The CONSTANTS of a cfg file as Python values (ints, bools, sets of ints)."""
    with open(cfg if os.path.isabs(cfg) else os.path.join(SPECS, cfg), encoding="utf-8") as f:
        text = f.read()
    out = {}
    for name, val in re.findall(r"(\w+)\s*=\s*(\{[^}]*\}|\w+)", text):
        if val.startswith("{"):
            items = [x.strip() for x in val[1:-1].split(",") if x.strip()]
            out[name] = frozenset({"TRUE": True, "FALSE": False}.get(x, None) if x in ("TRUE", "FALSE") else int(x)
                                  for x in items)
        elif val in ("TRUE", "FALSE"):
            out[name] = val == "TRUE"
        elif re.fullmatch(r"-?\d+", val):
            out[name] = int(val)
    return out


def check_coverage(r, wanted, tag):
    missing = [a for a in sorted(wanted) if r.coverage.get(a, (0, 0))[1] == 0]
    if missing:
        raise MachineryError("%s: actions never taken (vacuous exploration): %s" % (tag, missing))


def model_check(ctx, cfg, tag, actions, dump=None, timeout=1800):
    r = run_tlc("Pex.tla", cfg, dump=dump, timeout=timeout)
    if not r.ok:
        raise MachineryError("Pex.tla/%s: TLC reports %s on the specification itself" % (cfg, r.violated))
    check_coverage(r, actions, tag)
    ctx.add_tlc(tag, r)
    return r


# ---------------------------------------------------------------------------------------------------
# binding R, part S
# ---------------------------------------------------------------------------------------------------
S_UNIT = 60


def s_world(cfg, cache={}):
    from ..g05_world import SwarmWorld
    consts = read_consts(cfg)
    key = tuple(sorted((k, v) for k, v in consts.items()))
    if key not in cache:
        cache.clear()
        cache[key] = SwarmWorld(consts, S_UNIT)
    return cache[key], consts


def replay_s_walk(ctx, w, consts, init_state, steps, meta, check_queries=True):
    """steps: [(name, args, spec_state_after)]. Returns False after a violation."""
    from ..g05_world import Mismatch, diff, spec_state_s
    w.reset(init_state["seeding"])
    labels = []
    d0 = diff(spec_state_s(init_state, consts["Circuits"]), w.project())
    if d0:
        raise MachineryError("part S: the fresh world differs from the initial state: %s" % d0)
    for i, (name, args, st) in enumerate(steps):
        labels.append("%s%s" % (name, list(args)))
        exp = spec_state_s(st, consts["Circuits"])
        try:
            extra = w.step(name, args, variant=i + ctx.seed)
            got = w.project()
        except Mismatch as e:
            ctx.violation("replayS:%s:mismatch" % name,
                          "real Swarm / do_peer_discovery leaves Pex.tla at %s: %s" % (labels[-1], e),
                          dict(meta, actions=labels))
            return False
        d = diff(exp, got)
        probs = [k for k, v in extra.items() if not v]
        if not d and check_queries:
            probs += w.queries(exp)
        if d or probs:
            ctx.violation("replayS:%s:%s" % (name, ",".join(sorted(d)) or probs[0].split("(")[0]),
                          "real Swarm / do_peer_discovery diverges from Pex.tla (part S) after %s: %s %s"
                          % (labels[-1], d, probs), dict(meta, actions=labels, diff=d, problems=probs))
            return False
    return True


def replay_s_graph(ctx, cfg, tag, max_ops, actions=S_ACTIONS):
    tmp = scratch_dir("g05-")
    try:
        dot = os.path.join(tmp, "g.dot")
        model_check(ctx, cfg, tag, actions, dump=dot)
        g = parse_dot(dot)
    finally:
        shutil.rmtree(tmp, ignore_errors=True)
    w, consts = s_world(cfg)
    nwalks = nops = 0
    covered = set()
    for init, walk in edge_cover(g, max_ops=max_ops, seed=ctx.seed):
        steps = [(g.edges[e][1], g.edges[e][2], g.states[g.edges[e][3]]) for e in walk]
        ok = replay_s_walk(ctx, w, consts, g.states[init], steps, {"cfg": cfg})
        covered.update(walk)
        nops += len(walk)
        nwalks += 1
        ctx.nontrivial(("S", cfg, tuple(walk)))
        if nwalks <= 1:
            ctx.sample({"part": "S", "cfg": cfg, "actions": ["%s%s" % (n, list(a)) for n, a, _ in steps][:25]})
        if not ok:
            break
    ctx.evaluated(nops)
    ctx.traces(nwalks)
    ctx.note("replay_" + tag, {"walks": nwalks, "real_operations": nops, "graph_states": len(g.states),
                               "graph_edges": len(g.edges), "edges_covered": len(covered),
                               "complete_edge_cover": len(covered) == len(g.edges)})


def simulate_s(ctx, cfg, tag, num, depth):
    """Random behaviours of a larger instance (shipped proportions of the intervals), replayed step by step."""
    tmp = scratch_dir("g05s-")
    try:
        r = run_tlc("Pex.tla", cfg, simulate="file=%s,num=%d" % (os.path.join(tmp, "sim"), num), depth=depth,
                    seed=ctx.seed + 1, workers=1, coverage=False, timeout=1800)
        if r.violated:
            raise MachineryError("Pex.tla/%s (simulate): TLC reports %s" % (cfg, r.violated))
        files = sorted(f for f in os.listdir(tmp) if f.startswith("sim"))
        behaviours = [parse_simulate_file(os.path.join(tmp, f)) for f in files]
    finally:
        shutil.rmtree(tmp, ignore_errors=True)
    if not behaviours:
        raise MachineryError("simulate produced no behaviour for %s" % cfg)
    w, consts = s_world(cfg)
    seen_actions = set()
    nops = 0
    for b in behaviours:
        steps = [(lbl, args, st) for lbl, args, st in b[1:]]
        seen_actions.update(s[0] for s in steps)
        ok = replay_s_walk(ctx, w, consts, b[0][2], steps, {"cfg": cfg, "mode": "simulate"})
        nops += len(steps)
        ctx.nontrivial(("Ssim", cfg, tuple((s[0], repr(s[1])) for s in steps)))
        if not ok:
            break
    missing = S_ACTIONS - seen_actions
    if len(missing) > 2:
        raise MachineryError("simulate %s never took %s" % (cfg, sorted(missing)))
    ctx.evaluated(nops)
    ctx.traces(len(behaviours))
    ctx.note("simulate_" + tag, {"behaviours": len(behaviours), "real_operations": nops, "depth": depth,
                                 "actions_not_taken": sorted(missing),
                                 "ticks_reached": max(b[-1][2]["now"] for b in behaviours) - consts["T0"]})


# ---------------------------------------------------------------------------------------------------
# binding R, part P
# ---------------------------------------------------------------------------------------------------
def p_world(cfg, cache={}):
    from ..g05_world import PexWorld
    consts = read_consts(cfg)
    key = tuple(sorted((k, v) for k, v in consts.items()))
    if key not in cache:
        cache.clear()
        if 300 % consts["PexAge"]:
            raise MachineryError("PexAge must divide 300")
        cache[key] = PexWorld(consts, 300 // consts["PexAge"])
    return cache[key], consts


def replay_p_graph(ctx, cfg, tag, max_ops):
    from ..g05_world import Mismatch, diff, spec_state_p
    tmp = scratch_dir("g05-")
    try:
        dot = os.path.join(tmp, "g.dot")
        model_check(ctx, cfg, tag, P_ACTIONS, dump=dot)
        g = parse_dot(dot, keep_vars={"now", "pfor", "pips", "msgs", "ret"})
    finally:
        shutil.rmtree(tmp, ignore_errors=True)
    w, consts = p_world(cfg)
    nwalks = nops = 0
    covered = set()
    for init, walk in edge_cover(g, max_ops=max_ops, seed=ctx.seed):
        w.reset()
        labels = []
        for e in walk:
            _s, name, args, dst = g.edges[e]
            labels.append("%s%s" % (name, list(args)))
            try:
                w.step(name, args)
                d = diff(spec_state_p(g.states[dst]), w.project())
            except Mismatch as ex:
                d = {"mismatch": str(ex)}
            if d:
                ctx.violation("replayP:%s:%s" % (name, ",".join(sorted(d))),
                              "real PexCommunity diverges from Pex.tla (part P) after %s: %s" % (labels[-1], d),
                              {"cfg": cfg, "actions": labels, "diff": d})
                break
        covered.update(walk)
        nops += len(walk)
        nwalks += 1
        ctx.nontrivial(("P", cfg, tuple(walk)))
        if nwalks <= 1:
            ctx.sample({"part": "P", "cfg": cfg, "actions": labels[:25]})
        if ctx.violations:
            break
    ctx.evaluated(nops)
    ctx.traces(nwalks)
    ctx.note("replay_" + tag, {"walks": nwalks, "real_operations": nops, "graph_states": len(g.states),
                               "graph_edges": len(g.edges), "edges_covered": len(covered),
                               "complete_edge_cover": len(covered) == len(g.edges)})


# ---------------------------------------------------------------------------------------------------
# binding T, part P: real overlays at their shipped sizes (deque of 20, 10 keys per message, 300 s)
# ---------------------------------------------------------------------------------------------------
T_CONSTS = {"T0": 10, "Nodes": frozenset(range(1, 7)), "NSwarmA": 4, "PSeeders": frozenset(range(1, 13)),
            "PexCap": 20, "PexAge": 3}


def record_p_traces(count, length, rng, corrupt=None):
    from ..g05_world import PexWorld
    w = PexWorld(T_CONSTS, 100, sampler=False)
    traces = []
    nodes = sorted(T_CONSTS["Nodes"])
    seeders = sorted(T_CONSTS["PSeeders"])
    for _ti in range(count):
        w.reset()
        events = []
        heavy = rng.random() < 0.5        # some nodes announce more than 10 keys: the sample is a strict subset
        for _ in range(length):
            x = rng.random()
            inflight = sorted(w.project()["msgs"])
            if x < 0.22:
                n, s = rng.choice(nodes), rng.choice(seeders)
                if heavy and rng.random() < 0.6:
                    n = nodes[0]
                name, args = "StartAnnounce", (n, s)
            elif x < 0.30:
                n = rng.choice(nodes)
                have = w.project()["pfor"][n]
                if not have:
                    continue
                name, args = "StopAnnounce", (n, rng.choice(have))
            elif x < 0.50:
                n, m = rng.sample(nodes, 2)
                name, args = "Walk", (n, m, None)
            elif x < 0.78 and inflight:
                t = rng.choice(inflight)
                name, args = "Deliver", ({"src": t[0], "dst": t[1], "k": t[2], "pks": t[3]}, None)
            elif x < 0.82 and inflight:
                t = rng.choice(inflight)
                name, args = "Lose", ({"src": t[0], "dst": t[1], "k": t[2], "pks": t[3]},)
            elif x < 0.92:
                name, args = "GetIntroPoints", (rng.choice(nodes),)
            else:
                name, args = "PTick", ()
            before = set(w.tags)
            w.step(name, args)
            p = w.project()
            sent = [w.tags[q] for q in sorted(set(w.tags) - before)]
            ev = {"a": name, "now": p["now"], "sent": [[t[0], t[1], t[2], list(t[3])] for t in sent]}
            if name in ("StartAnnounce", "StopAnnounce"):
                ev.update(n=args[0], s=args[1])
            elif name == "Walk":
                ev.update(n=args[0], m=args[1])
            elif name in ("Deliver", "Lose"):
                m = args[0]
                ev.update(msg=[m["src"], m["dst"], m["k"], list(m["pks"])])
            elif name == "GetIntroPoints":
                ev.update(n=args[0], lst=[list(i) for i in p["ret"][2]])
            ev["pfor"] = [list(p["pfor"][n]) for n in nodes]
            ev["pips"] = [[list(i) for i in p["pips"][n]] for n in nodes]
            events.append(ev)
        traces.append({"events": events})
    if corrupt == "stale-answer":       # an answer that still lists an entry older than 300 s
        for ev in reversed(traces[0]["events"]):
            if ev["a"] == "GetIntroPoints":
                ev["lst"] = [[2 if ev["n"] != 2 else 1, 1, ev["now"] - 4]] + ev["lst"]
                break
        else:
            raise MachineryError("control trace holds no GetIntroPoints event")
    elif corrupt == "foreign-entry":    # a node of swarm 2 lists a point of swarm 1 after a delivery
        for ev in reversed(traces[0]["events"]):
            if ev["a"] == "Deliver":
                ev["pips"][5] = [[1, 1, ev["now"]]] + ev["pips"][5]
                break
        else:
            raise MachineryError("control trace holds no Deliver event")
    return traces


def validate_p_traces(ctx, traces, tag, expect_reject=False):
    tmp = scratch_dir("g05t-")
    try:
        path = os.path.join(tmp, "traces.json")
        with open(path, "w", encoding="utf-8") as f:
            json.dump(traces, f)
        r = run_tlc("PexTrace.tla", "PexTrace.cfg", env={"TRACE_FILE": path}, coverage=False, workers=4,
                    timeout=1800)
    finally:
        shutil.rmtree(tmp, ignore_errors=True)
    if expect_reject:
        return not r.ok
    ctx.add_tlc(tag, r)
    if not r.ok:
        last = r.error_trace[-1][1] if r.error_trace else {}
        tid, l = last.get("tid"), last.get("l")
        bad = traces[tid - 1]["events"] if isinstance(tid, int) else []
        lo = max(0, (l or 1) - 4)
        ctx.violation("traceP:%s:%s" % (r.violated, bad[l - 1]["a"] if isinstance(l, int) and l <= len(bad) else "?"),
                      "recorded PexCommunity execution is not a behaviour of Pex.tla (%s) at event %s" % (r.violated, l),
                      {"events": bad[lo:(l or 0) + 1], "event_index": l})
    else:
        ctx.traces(len(traces))
        ctx.evaluated(sum(len(t["events"]) for t in traces))
        for t in traces:
            ctx.nontrivial(("traceP", tuple((e["a"], e.get("n"), e.get("s")) for e in t["events"])))
    return r.ok


# ---------------------------------------------------------------------------------------------------
def run(tier, seed, replay=None):
    setup_repo_path()
    ctx = Ctx(PID, tier, seed, "model_checking")
    ctx.cov["rule"] = ("TLC enumerates the call/handler/timer interleavings of one hidden swarm (Swarm + do_peer_discovery) "
                       "and of a three-node PEX network; walks covering the dumped graphs and simulated behaviours of a "
                       "larger instance are executed on the real HiddenTunnelCommunity/Swarm and PexCommunity objects and "
                       "the projected state is compared after every action; recorded random executions of six real "
                       "PexCommunity overlays are validated by TLC; non-trivial = distinct walks / behaviours / traces")
    ctx.assumptions += ["one tick of the specification is a whole number of seconds; time stamps fall on tick boundaries",
                        "the order of Swarm.intro_points is not modelled (a set and its length are)",
                        "part S: the network behind Swarm.lookup_func (send_peers_request) and create_e2e are observed "
                        "stand-ins; part P: introduction requests/responses travel over the simulated network"]
    rng = random.Random(seed)

    for cfg, want, what in CONTROLS:
        r = run_tlc("Pex.tla", cfg, coverage=False, timeout=900)
        ctx.control("spec: " + what, r.violated in want)

    quick = tier == "quick"
    # ---- part S
    replay_s_graph(ctx, "Pex_s_ips.cfg", "s_ips", 60000 if quick else None, S_ACTIONS - {"Transfer"})
    if not ctx.violations:
        replay_s_graph(ctx, "Pex_s_seeding.cfg", "s_seeding", None, {"Discover", "Tick", "AddIntroPoint"})
    if not ctx.violations:
        if quick:
            model_check(ctx, "Pex_s_conn.cfg", "s_conn", S_ACTIONS)
            w_ops = 30000
        else:
            w_ops = 400000
        replay_s_graph(ctx, "Pex_s_conn_r.cfg", "s_conn_r", w_ops)
    if not ctx.violations:
        simulate_s(ctx, "Pex_s_sim.cfg", "s_sim", 40 if quick else 400, 120)
    if not quick and not ctx.violations:
        model_check(ctx, "Pex_s_ips2.cfg", "s_ips2", S_ACTIONS - {"Transfer"}, timeout=3600)
    # ---- part P
    if not ctx.violations:
        replay_p_graph(ctx, "Pex_p_net.cfg", "p_net", 40000 if quick else None)
    if not ctx.violations:
        replay_p_graph(ctx, "Pex_p_cap.cfg", "p_cap", 20000 if quick else None)
    if not ctx.violations:
        if quick:
            model_check(ctx, "Pex_p_exp.cfg", "p_exp", P_ACTIONS)
        else:
            replay_p_graph(ctx, "Pex_p_exp.cfg", "p_exp", 400000)
        model_check(ctx, "Pex_p_unload.cfg", "p_unload", P_ACTIONS)
    ctx.cov["exhaustive"] = True
    if not ctx.violations:
        traces = record_p_traces(12 if quick else 120, 150, rng)
        validate_p_traces(ctx, traces, "p_trace")
        ctx.sample({"part": "P", "recorded": traces[0]["events"][:4]})
        bad = record_p_traces(1, 150, random.Random(seed + 1), corrupt="stale-answer")
        ctx.control("trace: an answer listing an entry older than 300 s is rejected", validate_p_traces(ctx, bad, "ctl", True))
        bad = record_p_traces(1, 150, random.Random(seed + 2), corrupt="foreign-entry")
        ctx.control("trace: a learned entry from the other swarm is rejected", validate_p_traces(ctx, bad, "ctl", True))
    return ctx.finish()
