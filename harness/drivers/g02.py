"""G02 - DHT lookup/crawl machinery, per-node query rate limiting and ping/refresh maintenance (specification growth).

Specifications
  specs/DhtCrawl.tla (+ DhtCrawlMC, DhtCrawlTrace)  one crawl of one routing table: Crawl, _find, _contact_node,
        on_find_response, request time-outs, the caching store.  P1 budget, P2 no node contacted twice, P3 closest known
        candidate first, P4 termination (deadlock freedom + liveness under fairness), P5 values / nodes reported,
        P6 caching at the closest responder without values.
  specs/DhtFind.tla   find / find_values / find_nodes above the crawls: one crawl per routing table, results reported
        together, with and without debug.  F1.
  specs/DhtNode.tla (+ DhtNodeMC, DhtNodeTrace)  one routing-table entry at a serving node: sliding-window query
        limiter (N1, N2), GOOD/UNKNOWN/BAD per the docstring (N3), PingChurn.take_step (N4, N5), and the link from a
        lookup's find request to the failure counter.

Bindings
 R  crawl: generated worlds (who answers what) - TLC explores every interleaving of answers, time-outs and loop drains;
    every edge of the dumped graph is executed on a real DHTCommunity whose peers are puppets with real keys (answers
    fabricated and signed by the harness) and nodes_todo / nodes_tried / the requests on the wire / responses / result /
    caching store are compared after every action.  `-simulate` behaviours with the shipped constants (24/4/8/top-4)
    on 30..60 node universes likewise.
    routing-table entry: depth-bounded graphs with the shipped time constants (5 s and 1 s ticks, clock jumps up to
    870 s) + `-simulate` behaviours with the shipped limit of 10: real ping/find requests, real introduction requests,
    real take_step, real find_values; entry state, outstanding requests, status and the reaction on the wire compared.
    find: every TLC state (0..2 routing tables incl. IPv6, value lists, values/nodes, debug) is one real call.
 T  real DHT networks (every node a real DHTCommunity with PingChurn, default settings) under a seeded scheduler with
    loss, dead nodes and a hammering client: every crawl (find_values, store_value) is recorded as DhtCrawl steps with
    the projection of the real Crawl object and validated by TLC (DhtCrawlTrace, all invariants in every state); every
    (server, requester) request history with microsecond times is validated against the limiter (DhtNodeTrace).

Genuine defects on the pinned tree (proposed_fixes/G02-1, G02-2; the check passes with VERIF_REPO=<patched tree>):
  G02-1 find(..., debug=True) raises TypeError with more than one routing table (GET /dht/values on a dual-stack node)
  G02-2 find_nodes(..., debug=True) raises TypeError (`_find` ignores debug for node lookups)

Allowed and noted (the intent is not stated; nothing is demanded):
  * a requester that does not fit in the routing table is never rate limited (the limiter state lives in the entry):
    measured by `observe_unadmitted`, counted in the network runs (`not_admitted`)
  * an entry dropped as BAD and re-created starts a new limiter window
  * answers to find requests sent through a Node object that came out of another node's answer do not credit the
    routing-table entry of that node (last_response / failed live on the crawl's own object)
  * the caching store (one node < TARGET_NODES) always stores the values in the finder's own storage as well
  * find_nodes reports every node contacted, answered or not; store_value therefore may pick token-less nodes
  * an empty routing table of one address family makes find raise DHTError although the other family has nodes
"""
from __future__ import annotations

import json
import os
import random
import shutil

from ..common import Ctx, setup_repo_path
from ..replay import diff_states, edge_cover
from ..tlc import SPECS, MachineryError, parse_dot, parse_simulate_file, run_tlc, scratch_dir, to_tla
from .. import vloop

PID = "G02"
LIB = ("-DTLA-Library=" + SPECS,)
TARGET = bytes(range(7, 27))

CRAWL_INVARIANTS = ["TypeOK", "InvBudget", "InvNoRepeat", "InvClosestFirst", "InvDone", "InvValues", "InvNodes",
                    "InvCache", "InvNoStoreOtherwise", "InvResponses"]
CRAWL_ACTIONS = ["Find", "Respond", "Drain", "Expire", "StoreAck", "StoreExpire"]


def tlc(*a, **k):
    """run_tlc timed with the real clock (time.time is virtual while this driver runs)"""
    t = vloop._REAL_TIME()
    r = run_tlc(*a, **k)
    r.wall = vloop._REAL_TIME() - t
    return r


_T = [None]


def lap(ctx, name):
    now = vloop._REAL_TIME()
    if _T[0] is not None:
        ctx.parts.setdefault("wall_by_part", {})[name] = round(now - _T[0], 1)
        if os.environ.get("G02_TIMING"):
            print("  [%s] %.1fs" % (name, now - _T[0]))
    _T[0] = now


def canon(g):
    """edges in a canonical order: the walks chosen by edge_cover do not depend on the order TLC's workers wrote them"""
    key = {sid: repr(sorted(st.items())) for sid, st in g.states.items()}     # (state ids are fingerprints: not stable)
    g.edges.sort(key=lambda e: (key[e[0]], e[1], repr(e[2]), key[e[3]]))
    g.init.sort(key=lambda sid: key[sid])
    g.out = {}
    g.finish()
    return g


def need_coverage(r, actions, what):
    missing = [a for a in actions if r.coverage.get(a, (0, 0))[1] == 0]
    if missing:
        raise MachineryError("%s: actions never taken (vacuous): %s" % (what, missing))


# ---------------------------------------------------------------------------------------------------------------------
# generated worlds
# ---------------------------------------------------------------------------------------------------------------------
def random_answer(rng, n, me, maxlen, nvals):
    kind = rng.random()
    vals, nodes = (), ()
    if kind < 0.22:
        vals = tuple(rng.sample(range(1, nvals + 1), rng.randint(1, min(3, nvals))))
        if rng.random() < 0.3:
            nodes = tuple(rng.sample(range(1, n + 1), rng.randint(1, min(maxlen, n))))
    else:
        ln = rng.choice([0, 1, 2, 2, 3, 3, 4, maxlen, maxlen])
        ln = min(ln, n, maxlen)
        pool = list(range(1, n + 1))
        if rng.random() < 0.8:
            pool.remove(me)              # an honest node does not list itself; some do
        nodes = tuple(rng.sample(pool, min(ln, len(pool))))
    return {"vals": vals, "nodes": nodes}


def random_world(rng, n, maxlen, nvals=4, alts=1, rt_max=3, nrts=1):
    ans = {}
    for me in range(1, n + 1):
        s = []
        for _ in range(alts):
            a = random_answer(rng, n, me, maxlen, nvals)
            if a not in s:
                s.append(a)
        ans[me] = s
    rts = []
    for _ in range(nrts):
        k = rng.randint(1, rt_max)
        # bias towards far nodes, so that the crawl has somewhere to go
        pool = list(range(1, n + 1))
        weights = [i for i in pool]
        chosen = set()
        while len(chosen) < min(k, n):
            chosen.add(rng.choices(pool, weights)[0])
        if chosen not in rts:
            rts.append(chosen)
    return ans, rts


def tla_answer(a):
    return "[vals |-> %s, nodes |-> %s]" % (to_tla(tuple(a["vals"])), to_tla(tuple(a["nodes"])))


def write_world_module(tmp, name, consts, worlds, modes, ctl=None, invariants=True, spec="Spec"):
    """worlds = [(ans, rts)]; a module extending DhtCrawl with the literal worlds + its cfg"""
    wt = []
    for ans, rts in worlds:
        anstxt = " @@ ".join("%d :> {%s}" % (n, ", ".join(tla_answer(a) for a in alts)) for n, alts in sorted(ans.items()))
        rtstxt = "{" + ", ".join(to_tla(frozenset(r)) for r in rts) + "}"
        wt.append("[ans |-> (%s),\n   rts |-> %s]" % (anstxt, rtstxt))
    with open(os.path.join(tmp, name + ".tla"), "w", encoding="utf-8") as f:
        f.write("---- MODULE %s ----\nEXTENDS DhtCrawl\nWorldsGen == <<\n  %s\n>>\n====\n" % (name, ",\n  ".join(wt)))
    c = dict(N=len(worlds[0][0]), MaxInit=8, MaxReq=24, MaxTasks=4, TopK=4, MaxStore=8)
    c.update(consts)
    ctl = ctl or {}
    lines = ["SPECIFICATION " + spec,
             "CONSTANTS " + " ".join("%s = %d" % kv for kv in c.items()),
             "  Modes = {%s}" % ", ".join('"%s"' % m for m in modes),
             "  " + " ".join("%s = %s" % (k, "TRUE" if ctl.get(k) else "FALSE") for k in
                             ("CtlNoTriedCheck", "CtlNoSort", "CtlCacheRecent", "CtlBudgetByResponses")),
             "CONSTANT Worlds <- WorldsGen"]
    if invariants:
        lines += ["INVARIANT " + i for i in CRAWL_INVARIANTS]
    cfg = os.path.join(tmp, name + ".cfg")
    with open(cfg, "w", encoding="utf-8") as f:
        f.write("\n".join(lines) + "\n")
    return name + ".tla", cfg


# ---------------------------------------------------------------------------------------------------------------------
# binding R for the crawl
# ---------------------------------------------------------------------------------------------------------------------
def label(name, args):
    def short(x):
        if isinstance(x, dict):
            return "{" + ",".join("%s:%s" % (k, short(v)) for k, v in sorted(x.items())) + "}"
        if isinstance(x, (tuple, list)):
            return "<" + ",".join(short(v) for v in x) + ">"
        if isinstance(x, (set, frozenset)):
            return "{" + ",".join(short(v) for v in sorted(x)) + "}"
        return str(x)
    return "%s(%s)" % (name, ",".join(short(a) for a in args))


def apply_crawl_action(run, name, args):
    if name == "Find":
        run.find(args[1], args[2])
    elif name == "Respond":
        run.respond(args[0], args[1]["vals"], args[1]["nodes"])
    elif name == "Drain":
        run.drain()
    elif name == "Expire":
        run.expire()
    elif name == "StoreAck":
        run.store_ack()
    elif name == "StoreExpire":
        run.store_expire()
    elif name == "Terminated":
        pass
    else:
        raise MachineryError("unknown action " + name)


def replay_steps(ctx, world, consts, steps, info, tag):
    """steps = [(name, args, expected spec state)] ; -> number of real operations executed"""
    from ..g02_world import CrawlRun, Escape, spec_crawl_projection
    run = CrawlRun(world, consts)
    labels = []
    nops = 0
    try:
        for name, args, st in steps:
            if name == "Terminated":
                continue
            labels.append(label(name, args))
            try:
                apply_crawl_action(run, name, args)
                d = diff_states(spec_crawl_projection(st), run.project())
            except Escape as e:
                ctx.violation("crawl:escape:%s:%s" % (name, type(e.exc).__name__),
                              "exception escapes the real code during %s: %s" % (labels[-1], e),
                              dict(info, actions=labels))
                break
            nops += 1
            if d:
                ctx.violation("crawl:replay:%s:%s" % (name, ",".join(sorted(d))),
                              "real crawl diverges from DhtCrawl.tla after %s: %s" % (labels[-1], d),
                              dict(info, actions=labels, diff=d))
                break
    finally:
        run.close()
    return nops, labels


_PUPPETS = {}
SEED = [0]


def puppets(n):
    from ..g02_world import Puppets
    if n not in _PUPPETS:
        _PUPPETS[n] = Puppets(n, TARGET, seed=SEED[0])
    return _PUPPETS[n]


def world_info(worlds, consts, n, w=None):
    ws = worlds if w is None else [worlds[w - 1]]
    return {"worlds": [{"answers": {str(k): v for k, v in ans.items()}, "rts": [sorted(x) for x in rts]} for ans, rts in ws],
            "consts": consts, "n": n}


def prep_world_graphs(rng, tag, n, consts, maxlen, modes, nworlds):
    """main thread: generate the worlds (seeded); returns a job for a pool thread"""
    worlds = [random_world(rng, n, maxlen, rt_max=consts.get("MaxInit", 8) + 1) for _ in range(nworlds)]

    def job():
        tmp = scratch_dir("g02-")
        try:
            mod, cfg = write_world_module(tmp, "G02w", consts, worlds, modes)
            dot = os.path.join(tmp, "g.dot")
            r = tlc(mod, cfg, cwd=tmp, java_opts=LIB, dump=dot, deadlock_off=False, workers=4, timeout=900)
            if not r.ok:
                raise MachineryError("DhtCrawl worlds %s: TLC reports %s on the specification itself" % (tag, r.violated))
            return r, canon(parse_dot(dot))
        finally:
            shutil.rmtree(tmp, ignore_errors=True)
    return dict(tag=tag, n=n, consts=consts, worlds=worlds, job=job)


def replay_world_graphs(ctx, prep, max_ops=None):
    """generated worlds: TLC explores every interleaving of answers, time-outs and drains; every edge of the graph is
    executed on the real code (or a seeded sample of max_ops operations)"""
    tag, n, consts, worlds = prep["tag"], prep["n"], prep["consts"], prep["worlds"]
    r, g = prep["future"].result()
    # (whether some world ends with a caching store depends on the generated answers: demanded of the big batches only)
    need_coverage(r, CRAWL_ACTIONS if len(worlds) >= 8 else CRAWL_ACTIONS[:4], "DhtCrawl worlds " + tag)
    ctx.add_tlc(tag, r)
    world = puppets(n)
    nwalks = nops = 0
    nv0 = len(ctx.violations)
    covered = set()
    for init, walk in edge_cover(g, max_ops=max_ops, seed=ctx.seed, skip_self_loops=True):
        steps = [(g.edges[ei][1], g.edges[ei][2], g.states[g.edges[ei][3]]) for ei in walk]
        info = dict(world_info(worlds, consts, n, steps[0][1][0]), part="crawl-graph")
        k, labels = replay_steps(ctx, world, consts, steps, info, tag)
        covered.update(walk)
        nops += k
        nwalks += 1
        ctx.nontrivial((tag, tuple(labels)))
        if nwalks == 1 and len(ctx.cov["samples"]) < 3:
            ctx.sample({"world": info["worlds"][0], "actions": labels})
        if len(ctx.violations) > nv0:
            break
    ctx.evaluated(nops)
    ctx.traces(nwalks)
    real_edges = sum(1 for e in g.edges if e[0] != e[3])
    st = {"worlds": len(worlds), "n": n, "consts": consts, "states": len(g.states), "edges": real_edges, "walks": nwalks,
          "real_operations": nops, "edges_covered": len(covered), "complete_edge_cover": len(covered) == real_edges,
          "tlc_wall": round(r.wall, 2)}
    ctx.note("crawl_replay_" + tag, st)
    return st


def prep_simulated(rng, seed, tag, n, consts, maxlen, num, depth, nworlds=3):
    worlds = [random_world(rng, n, maxlen, nvals=12, alts=2, rt_max=min(8, n), nrts=3) for _ in range(nworlds)]

    def job():
        tmp = scratch_dir("g02s-")
        try:
            mod, cfg = write_world_module(tmp, "G02s", consts, worlds, ["values", "nodes"])
            sim = os.path.join(tmp, "sim")
            r = tlc(mod, cfg, cwd=tmp, java_opts=LIB, simulate="file=%s,num=%d" % (sim, num), depth=depth, seed=seed,
                    workers=1, coverage=False)
            if not r.ok:
                raise MachineryError("DhtCrawl simulate %s: TLC reports %s on the specification itself" % (tag, r.violated))
            files = sorted(f for f in os.listdir(tmp) if f.startswith("sim"))
            return r, [parse_simulate_file(os.path.join(tmp, f)) for f in files]
        finally:
            shutil.rmtree(tmp, ignore_errors=True)
    return dict(tag=tag, n=n, consts=consts, worlds=worlds, job=job)


def replay_simulated(ctx, prep):
    """-simulate behaviours of larger worlds (the shipped constants) executed on the real code"""
    tag, n, consts, worlds = prep["tag"], prep["n"], prep["consts"], prep["worlds"]
    r, behaviours = prep["future"].result()
    world = puppets(n)
    nops = finished = 0
    longest = most = budget_hit = 0
    nv0 = len(ctx.violations)
    for b in behaviours:
        most = max(most, len(b[-1][2]["launched"]))
        budget_hit += 1 if len(b[-1][2]["launched"]) >= consts.get("MaxReq", 24) else 0
        steps = [(name, args, st) for name, args, st in b[1:]]
        if not steps:
            continue
        info = dict(world_info(worlds, consts, n, steps[0][1][0]), part="crawl-simulate")
        k, labels = replay_steps(ctx, world, consts, steps, info, tag)
        nops += k
        longest = max(longest, k)
        finished += 1 if b[-1][2]["phase"] == "done" else 0
        ctx.nontrivial((tag, tuple(labels)))
        if len(ctx.violations) > nv0:
            break
    ctx.evaluated(nops)
    ctx.traces(len(behaviours))
    st = {"behaviours": len(behaviours), "finished": finished, "real_operations": nops, "longest": longest,
          "most_contacted": most, "budget_exhausted": budget_hit, "n": n, "consts": consts, "tlc_wall": round(r.wall, 2)}
    ctx.note("crawl_simulate_" + tag, st)
    return st


# ---------------------------------------------------------------------------------------------------------------------
# binding R for one routing-table entry (DhtNode.tla)
# ---------------------------------------------------------------------------------------------------------------------
NODE_ACTIONS = ["Query", "Discover", "Churn", "Answer", "Tick"]


def cfg_constants(cfgname):
    import re
    with open(os.path.join(SPECS, cfgname), encoding="utf-8") as f:
        text = f.read()
    out = {}
    for k, v in re.findall(r"\b(\w+) = (\{[^}]*\}|\w+)", text):
        if v in ("TRUE", "FALSE"):
            out[k] = v == "TRUE"
        elif v.isdigit():
            out[k] = int(v)
        else:
            out[k] = v
    return out


_NODEWORLD = []


def node_world():
    from ..g02_world import NodeWorld
    if not _NODEWORLD:
        _NODEWORLD.append(NodeWorld(SEED[0]))
    else:
        from ..g02_world import get_loop
        get_loop("plain")
    return _NODEWORLD[0]


def apply_node_action(run, name, args):
    if name == "Query":
        run.query()
    elif name == "Discover":
        run.discover()
    elif name == "Churn":
        run.churn_step()
    elif name == "Answer":
        run.answer(args[0])
    elif name == "Lookup":
        run.lookup()
    elif name == "Tick":
        run.tick(args[0])
    else:
        raise MachineryError("unknown action " + name)


def replay_node_steps(ctx, consts, unit, steps, info):
    from ..g02_world import Escape, NodeRun, spec_node_projection
    run = NodeRun(node_world(), consts, unit)
    labels = []
    nops = 0
    try:
        for name, args, st in steps:
            labels.append(label(name, args))
            try:
                apply_node_action(run, name, args)
                d = diff_states(spec_node_projection(st, consts), run.project())
            except Escape as e:
                ctx.violation("node:escape:%s:%s" % (name, type(e.exc).__name__),
                              "exception escapes the real code during %s: %s" % (labels[-1], e), dict(info, actions=labels))
                break
            nops += 1
            if d:
                ctx.violation("node:replay:%s:%s" % (name, ",".join(sorted(d))),
                              "real routing-table entry diverges from DhtNode.tla after %s: %s" % (labels[-1], d),
                              dict(info, actions=labels, diff=d))
                break
    finally:
        run.close()
    return nops, labels


def prep_node_graph(module, cfgname):
    def job():
        tmp = scratch_dir("g02n-")
        try:
            dot = os.path.join(tmp, "g.dot")
            r = tlc(module, cfgname, dump=dot, workers=1)      # depth-bounded: one worker = strict breadth-first order
            if not r.ok:
                raise MachineryError("%s: TLC reports %s on the specification itself" % (cfgname, r.violated))
            return r, canon(parse_dot(dot))
        finally:
            shutil.rmtree(tmp, ignore_errors=True)
    return dict(cfg=cfgname, job=job)


def replay_node_graph(ctx, prep, unit, tag, max_ops=None, expect=NODE_ACTIONS):
    cfgname = prep["cfg"]
    consts = cfg_constants(cfgname)
    r, g = prep["future"].result()
    need_coverage(r, expect, cfgname)
    ctx.add_tlc(tag, r)
    info = {"part": "node-graph", "cfg": cfgname, "seconds_per_tick": unit}
    nwalks = nops = 0
    nv0 = len(ctx.violations)
    covered = set()
    for init, walk in edge_cover(g, max_ops=max_ops, seed=ctx.seed):
        steps = [(g.edges[ei][1], g.edges[ei][2], g.states[g.edges[ei][3]]) for ei in walk]
        k, labels = replay_node_steps(ctx, consts, unit, steps, info)
        covered.update(walk)
        nops += k
        nwalks += 1
        ctx.nontrivial((tag, tuple(labels)))
        if nwalks == 3 and len(ctx.cov["samples"]) < 5:
            ctx.sample({"cfg": cfgname, "actions": labels})
        if len(ctx.violations) > nv0:
            break
    ctx.evaluated(nops)
    ctx.traces(nwalks)
    st = {"cfg": cfgname, "states": len(g.states), "edges": len(g.edges), "walks": nwalks, "real_operations": nops,
          "edges_covered": len(covered), "complete_edge_cover": len(covered) == len(g.edges), "tlc_wall": round(r.wall, 2)}
    ctx.note("node_replay_" + tag, st)
    return st


def prep_node_sim(module, cfgname, seed, num, depth):
    def job():
        tmp = scratch_dir("g02m-")
        try:
            sim = os.path.join(tmp, "sim")
            r = tlc(module, cfgname, simulate="file=%s,num=%d" % (sim, num), depth=depth, seed=seed, workers=1,
                    coverage=False)
            if not r.ok:
                raise MachineryError("%s (simulate): TLC reports %s on the specification itself" % (cfgname, r.violated))
            return r, [parse_simulate_file(os.path.join(tmp, f)) for f in sorted(os.listdir(tmp)) if f.startswith("sim")]
        finally:
            shutil.rmtree(tmp, ignore_errors=True)
    return dict(cfg=cfgname, job=job)


def replay_node_sim(ctx, prep, unit, tag):
    cfgname = prep["cfg"]
    consts = cfg_constants(cfgname)
    r, behaviours = prep["future"].result()
    info = {"part": "node-simulate", "cfg": cfgname, "seconds_per_tick": unit}
    nops = 0
    seen = {}
    nv0 = len(ctx.violations)
    for b in behaviours:
        steps = list(b[1:])
        k, labels = replay_node_steps(ctx, consts, unit, steps, info)
        nops += k
        for name, _a, st in steps:
            seen[st["last"]] = seen.get(st["last"], 0) + 1
            seen["status:" + st["status"]] = seen.get("status:" + st["status"], 0) + 1
        ctx.nontrivial((tag, tuple(labels)))
        if len(ctx.violations) > nv0:
            break
    ctx.evaluated(nops)
    ctx.traces(len(behaviours))
    st = {"cfg": cfgname, "behaviours": len(behaviours), "real_operations": nops, "outcomes": seen,
          "tlc_wall": round(r.wall, 2)}
    ctx.note("node_simulate_" + tag, st)
    return st


# ---------------------------------------------------------------------------------------------------------------------
# find over several routing tables (DhtFind.tla): every TLC state is one real call
# ---------------------------------------------------------------------------------------------------------------------
def prep_find():
    def job():
        tmp = scratch_dir("g02f-")
        try:
            dot = os.path.join(tmp, "g.dot")
            r = tlc("DhtFind.tla", "DhtFind_mc.cfg", dump=dot, workers=1)
            if not r.ok:
                raise MachineryError("DhtFind_mc: TLC reports %s on the specification itself" % r.violated)
            return r, canon(parse_dot(dot))
        finally:
            shutil.rmtree(tmp, ignore_errors=True)
    return dict(job=job)


def replay_find(ctx, prep):
    from ..g02_world import FindWorld
    r, g = prep["future"].result()
    need_coverage(r, ["Return"], "DhtFind_mc")
    ctx.add_tlc("find", r)
    world = FindWorld(SEED[0])
    n = 0
    for src, name, _args, dst in g.edges:
        st0, st1 = g.states[src], g.states[dst]
        tables = tuple(tuple(t) for t in st0["tables"])
        got = world.run_find(tables, st0["debug"], st0["mode"])
        want = {"done": st1["ret"]["done"], "ok": st1["ret"]["ok"], "values": tuple(st1["ret"]["values"]),
                "ncrawls": st1["ret"]["ncrawls"]}
        n += 1
        ctx.nontrivial(("find", tables, st0["debug"], st0["mode"]))
        d = {k: {"spec": want[k], "impl": got[k]} for k in want if want[k] != got[k]}
        if d:
            ctx.violation("find:%s:tables=%d:debug=%s:%s" % (st0["mode"], len(tables), st0["debug"],
                                                            got.get("exception", "result")[:40]),
                          "find_%s over %d routing table(s), debug=%s: %s" % (st0["mode"], len(tables), st0["debug"], d),
                          {"part": "find", "mode": st0["mode"], "tables": tables, "debug": st0["debug"], "impl": got,
                           "spec": want})
    ctx.evaluated(n)
    ctx.traces(n)
    ctx.note("find_replay", {"calls": n, "states": len(g.states)})
    return n


# ---------------------------------------------------------------------------------------------------------------------
# binding T: recorded executions of real DHT networks validated by TLC
# ---------------------------------------------------------------------------------------------------------------------
def tlc_traces(module, cfg, traces):
    tmp = scratch_dir("g02t-")
    try:
        path = os.path.join(tmp, "traces.json")
        with open(path, "w", encoding="utf-8") as f:
            json.dump(traces, f)
        return tlc(module, cfg, env={"TRACE_FILE": path}, coverage=False, workers=1, java_opts=("-Xss64m",))
    finally:
        shutil.rmtree(tmp, ignore_errors=True)


def validate_traces(ctx, what, module, cfg, traces, tag, expect_reject=False):
    """-> accepted?  (fast path: one TLC run for the whole batch; on rejection the error trace names trace and event)"""
    if not traces:
        raise MachineryError("no %s traces recorded" % what)
    r = tlc_traces(module, cfg, traces)
    nev = sum(len(t["events"]) for t in traces)
    complete = r.ok and r.distinct == nev + len(traces)
    if expect_reject:
        return not complete
    ctx.add_tlc(tag, r)
    if complete:
        ctx.traces(len(traces))
        ctx.evaluated(nev)
        for t in traces:
            ctx.nontrivial((tag, json.dumps(t["events"][:40], sort_keys=True)))
        return True
    if r.ok:
        raise MachineryError("%s traces: TLC accepted but visited %d states for %d events + %d traces" % (
            what, r.distinct, nev, len(traces)))
    last = r.error_trace[-1][1] if r.error_trace else {}
    if not r.error_trace and "violated by the initial state" in r.output:
        last = {"_raw": r.output[r.output.index("violated by the initial state"):]}
    if "_raw" in last:          # a state too unusual for the value parser: the two registers are all we need
        import re
        m1, m2 = re.search(r"/\\ tid = (\d+)", last["_raw"]), re.search(r"/\\ l = (\d+)", last["_raw"])
        last = {"tid": int(m1.group(1)) if m1 else None, "l": int(m2.group(1)) if m2 else None}
    tid, l = last.get("tid"), last.get("l")
    bad = traces[tid - 1] if isinstance(tid, int) and 1 <= tid <= len(traces) else None
    ev = bad["events"][l - 1] if bad and isinstance(l, int) and 1 <= l <= len(bad["events"]) else None
    prefix = bad["events"][:l] if bad and isinstance(l, int) else None
    ctx.violation("%s-trace:%s:%s" % (what, r.violated, (ev or {}).get("a", "?")),
                  "recorded %s history is not a behaviour of the specification (%s) at event %s: %s" % (
                      what, r.violated, l, json.dumps(ev)[:600]),
                  {"part": what + "-trace", "violated": r.violated, "event_index": l, "event": ev, "prefix": prefix,
                   "spec_state_before": {k: v for k, v in last.items() if k not in ("tid",)}})
    return False


def network_part(ctx, seed, tag, n, **kw):
    from ..g02_net import NetRun
    t = vloop._REAL_TIME()
    net = NetRun(n, seed, **kw).run()
    wall = vloop._REAL_TIME() - t
    for where, exc in net.escapes[:5]:
        ctx.violation("net:escape:%s" % where.split(" ")[0], "exception escapes the real code (%s): %s" % (where, exc),
                      {"part": "network", "seed": seed, "n": n, "where": where, "exception": exc})
    crawls, pairs = net.crawl_traces(), net.pair_traces()
    ok1 = validate_traces(ctx, "crawl", "DhtCrawlTrace.tla", "DhtCrawlTrace.cfg", crawls, "trace_crawl_" + tag)
    ok2 = validate_traces(ctx, "limiter", "DhtNodeTrace.tla", "DhtNodeTrace.cfg", pairs, "trace_limiter_" + tag)
    st = dict(net.stats, nodes=n, wall_s=round(wall, 1), crawl_traces=len(crawls), pair_traces=len(pairs),
              crawl_events=sum(len(c["events"]) for c in crawls), pair_events=sum(len(c["events"]) for c in pairs),
              unfinished_crawls=sum(1 for c in crawls if not c["finished"]),
              budget_exhausted=sum(1 for c in crawls if len(c["events"][-1]["s"].get("tried", [])) >= 24))
    ctx.note("network_" + tag, st)
    if crawls:
        ctx.sample({"recorded_crawl_first_events": crawls[0]["events"][:2]})
    return crawls, pairs, ok1 and ok2, st


def trace_controls(ctx, pool, crawls, pairs):
    import copy
    rej = lambda what, t: pool.submit(validate_traces, ctx, what, "Dht%sTrace.tla" % ("Crawl" if what == "crawl" else "Node"),   # noqa: E731
                                      "Dht%sTrace.cfg" % ("Crawl" if what == "crawl" else "Node"), [t], "ctl", True)
    # (1) one logged candidate list altered
    bad1 = None
    for c in crawls:
        for i, e in enumerate(c["events"]):
            if e["a"] == "Drain" and e["chk"] and len(e["s"]["todo"]) >= 2:
                bad1 = copy.deepcopy(c)
                td = bad1["events"][i]["s"]["todo"]
                td[0], td[1] = td[1], td[0]
                break
        if bad1:
            break
    if bad1 is None:
        raise MachineryError("no recorded crawl with two candidates to corrupt")
    # (2) one time-out removed from a crawl
    bad2 = None
    for c in crawls:
        ev = c["events"]
        idx = [i for i, e in enumerate(ev) if e["a"] == "Expire" and any(x["chk"] for x in ev[i + 1:])]
        if idx:
            bad2 = copy.deepcopy(c)
            del bad2["events"][idx[0]]
            break
    if bad2 is None:
        raise MachineryError("no recorded crawl with a time-out")
    # (3) an eleventh request answered inside the window / a refusal below the limit / the documented boundary
    burst = {"server": 0, "client": 1, "events": [{"a": "q", "out": "served"} for _ in range(11)]}
    early = {"server": 0, "client": 1, "events": [{"a": "q", "out": "served"}, {"a": "t", "d": 1000},
                                                   {"a": "q", "out": "refused"}]}
    exact = {"server": 0, "client": 1, "events": [{"a": "q", "out": "served"} for _ in range(10)] +
             [{"a": "t", "d": 4999999}, {"a": "q", "out": "refused"}, {"a": "t", "d": 1}, {"a": "q", "out": "served"}]}
    f = [rej("crawl", bad1), rej("crawl", bad2), rej("limiter", burst), rej("limiter", early), rej("limiter", exact)]
    ctx.control("crawl trace with two candidates swapped is rejected", f[0].result())
    ctx.control("crawl trace with one time-out removed is rejected", f[1].result())
    ctx.control("limiter trace with 11 requests answered at one instant is rejected", f[2].result())
    ctx.control("limiter trace with a refusal below the limit is rejected", f[3].result())
    if f[4].result():
        raise MachineryError("the limiter trace specification rejects the documented boundary behaviour")


# ---------------------------------------------------------------------------------------------------------------------
# observation (not a verdict): a requester that does not fit in the routing table is never limited
# ---------------------------------------------------------------------------------------------------------------------
def observe_unadmitted(ctx):
    from ipv8.dht.payload import PingRequestPayload, PingResponsePayload
    from ipv8.dht.routing import Node as DhtNode
    from ipv8.keyvault.crypto import default_eccrypto
    from ..g02_world import NodeWorld, own_node_id
    w = node_world()
    ov = w.fresh_server()
    my = ov.get_my_node_id(w.puppet.my_peer)
    mybit = my[0] >> 7
    cbit = own_node_id(w.puppet.address, w.pk)[0] >> 7
    # fill the half of the identifier space the server does NOT live in with 8 other nodes, then talk from a ninth
    fillers = 0
    tries = 0
    want_bit = 1 - mybit
    if cbit != want_bit:
        ctx.note("observation_unadmitted", {"skipped": "the puppet's identifier lies in the server's own half"})
        return
    table = ov.get_routing_table(DhtNode(w.pk, w.puppet.address))
    while fillers < 8 and tries < 4000:
        tries += 1
        pk = default_eccrypto.generate_key("curve25519").pub().key_to_bin()
        addr = ("81.%d.%d.%d" % (tries // 65536 % 256, tries // 256 % 256, tries % 256), 8090)
        if own_node_id(addr, pk)[0] >> 7 == want_bit and table.add(DhtNode(pk, addr)) is not None:
            fillers += 1
    answered = 0
    for k in range(30):
        data = w.pov.ezr_pack(PingRequestPayload.msg_id, PingRequestPayload(90000 + k))
        w.net.deliver(w.net.inject(w.puppet.address, w.server_addr, data))
        w.loop.settle()
        while w.net.inflight:
            dg = w.net.inflight.popleft()
            answered += 1 if dg.data[22] == PingResponsePayload.msg_id else 0
    held = table.get(own_node_id(w.puppet.address, w.pk)) is not None
    ctx.note("observation_unadmitted", {
        "what": "30 pings at one instant from a node whose bucket is full (8 nodes, not splittable)", "held": held,
        "answered": answered, "limit": 10,
        "reading": "the limiter state lives in the routing-table entry; a requester that is not admitted is never limited "
                   "(allowed: N1 is stated for held nodes; reported as an observation)"})


def run(tier, seed, replay=None):
    setup_repo_path()
    from concurrent.futures import ThreadPoolExecutor
    if replay:
        # every part is a deterministic function of (tier, seed): a replay file is re-executed by running the check again
        # with the seed and tier it was recorded with; the file itself names the part, the actions and the divergence
        with open(replay, encoding="utf-8") as f:
            rec = json.load(f)
        tier, seed = rec.get("tier", tier), int(rec.get("seed", seed))
        print("replaying %s (tier %s, seed %d): %s" % (rec.get("signature"), tier, seed, rec.get("description", "")[:200]))
    ctx = Ctx(PID, tier, seed, "model_checking")
    ctx.cov["rule"] = ("crawl: TLC explores every interleaving of answers / time-outs / loop drains of generated worlds, every "
                       "edge of the state graph is executed on a real DHTCommunity (puppet peers with real keys) and the "
                       "projected Crawl state, the requests on the wire, the result and the caching store are compared; "
                       "-simulate behaviours with the shipped constants likewise; routing-table entry: graph + simulate "
                       "replay of queries, introductions, take_step, answers, lookups and clock jumps; find over 0..2 routing "
                       "tables x debug flag: every TLC state is one real call; real networks: recorded crawls and per-pair "
                       "request histories validated by TLC. non-trivial = distinct replayed walks / recorded traces")
    ctx.assumptions += ["signature primitives of the key vault are trusted (puppet answers are really signed)",
                        "closeness ranks are computed by the harness with its own XOR arithmetic on crc32(ip)+sha1(key)",
                        "requests sent in one loop iteration time out microseconds apart; the specification lets an "
                        "answer slip in between (superset of the real schedules)"]
    rng = random.Random(seed)
    random.seed(seed)            # request identifiers of the code under test come from the global generator
    SEED[0] = seed
    quick = tier == "quick"
    pool = ThreadPoolExecutor(max_workers=12)
    try:
        lap(ctx, "start")
        small = dict(MaxInit=2, MaxReq=4, MaxTasks=2)
        mid = dict(MaxInit=3, MaxReq=6, MaxTasks=3)
        sim_n = 40 if quick else 400
        preps = {}
        if quick:
            preps["g_small"] = prep_world_graphs(rng, "small", 6, small, 4, ["values", "nodes"], 8)
            preps["s_shipped"] = prep_simulated(rng, seed, "shipped", 30, {}, 8, 20, 140)
        else:
            preps["g_small"] = prep_world_graphs(rng, "small", 6, small, 4, ["values", "nodes"], 24)
            preps["g_mid"] = prep_world_graphs(rng, "mid", 8, mid, 5, ["values", "nodes"], 2)
            preps["g_shipped6"] = prep_world_graphs(rng, "shipped5", 5, {}, 4, ["values"], 4)
            preps["s_shipped"] = prep_simulated(rng, seed, "shipped", 30, {}, 8, 200, 140)
            preps["s_shipped60"] = prep_simulated(rng, seed, "shipped60", 60, {}, 8, 100, 140, nworlds=4)
        preps["find"] = prep_find()
        preps["n_t5"] = prep_node_graph("DhtNodeMC.tla", "DhtNode_t5.cfg")
        preps["n_t1"] = prep_node_graph("DhtNodeMC.tla", "DhtNode_t1.cfg")
        preps["n_sim1"] = prep_node_sim("DhtNode.tla", "DhtNode_sim1.cfg", seed, sim_n, 80)
        preps["n_limit10"] = prep_node_sim("DhtNode.tla", "DhtNode_limit10.cfg", seed, sim_n, 80)
        for pz in preps.values():
            pz["future"] = pool.submit(pz["job"])
        # ---- model checking of the specifications themselves (in the background) + spec-level negative controls
        jobs = {
            "crawl_live": pool.submit(tlc, "DhtCrawlMC.tla", "DhtCrawl_live.cfg", deadlock_off=False, workers=4),
            "node_mc": pool.submit(tlc, "DhtNode.tla", "DhtNode_mc.cfg", workers=2),
            "node_churn": pool.submit(tlc, "DhtNode.tla", "DhtNode_churn.cfg", workers=2),
        }
        if not quick:
            jobs["crawl_mc"] = pool.submit(tlc, "DhtCrawlMC.tla", "DhtCrawl_mc.cfg", deadlock_off=False, workers=8)
            jobs["node_limit10"] = pool.submit(tlc, "DhtNode.tla", "DhtNode_limit10.cfg", workers=4)
        ctl = {
            "crawl: add_response without the nodes_tried check violates InvNoRepeat":
                (pool.submit(tlc, "DhtCrawlMC.tla", "DhtCrawl_ctl_tried.cfg", coverage=False, workers=2), "InvNoRepeat"),
            "crawl: add_response without re-sorting violates InvClosestFirst":
                (pool.submit(tlc, "DhtCrawlMC.tla", "DhtCrawl_ctl_sort.cfg", coverage=False, workers=2), "InvClosestFirst"),
            "crawl: caching at the most recent responder violates InvCache":
                (pool.submit(tlc, "DhtCrawlMC.tla", "DhtCrawl_ctl_cache.cfg", coverage=False, workers=2), "InvCache"),
            "crawl: a budget that counts responses violates InvBudget":
                (pool.submit(tlc, "DhtCrawlMC.tla", "DhtCrawl_ctl_budget.cfg", coverage=False, workers=2), "InvBudget"),
            "node: remembering refused queries violates InvRefuse":
                (pool.submit(tlc, "DhtNode.tla", "DhtNode_ctl_refused.cfg", coverage=False, workers=2), "InvRefuse"),
            "node: a requester that is never admitted violates InvWindow":
                (pool.submit(tlc, "DhtNode.tla", "DhtNode_ctl_admit.cfg", coverage=False, workers=2), "InvWindow"),
            "node: an answer that does not reset the failure counter violates InvStatus":
                (pool.submit(tlc, "DhtNode.tla", "DhtNode_ctl_reset.cfg", coverage=False, workers=2), "InvStatus"),
            "node: take_step without bad-node removal violates InvChurn":
                (pool.submit(tlc, "DhtNode.tla", "DhtNode_ctl_remove.cfg", coverage=False, workers=2), "InvChurn"),
            "find: the pinned star-argument merge violates InvFindAll (proposed_fixes/G02-1.diff)":
                (pool.submit(tlc, "DhtFind.tla", "DhtFind_pinned.cfg", coverage=False, workers=1), "InvFindAll"),
            "find: the pinned node lookup that ignores debug violates InvFindAll (proposed_fixes/G02-2.diff)":
                (pool.submit(tlc, "DhtFind.tla", "DhtFind_pinned_nodes.cfg", coverage=False, workers=1), "InvFindAll"),
        }

        # ---- binding R: crawl
        if quick:
            replay_world_graphs(ctx, preps["g_small"], max_ops=6000)
            replay_simulated(ctx, preps["s_shipped"])
        else:
            replay_world_graphs(ctx, preps["g_small"])
            replay_world_graphs(ctx, preps["g_mid"], max_ops=120000)
            replay_world_graphs(ctx, preps["g_shipped6"], max_ops=60000)
            replay_simulated(ctx, preps["s_shipped"])
            replay_simulated(ctx, preps["s_shipped60"])
        lap(ctx, "crawl_replay")
        # ---- find over several routing tables
        replay_find(ctx, preps["find"])
        lap(ctx, "find_replay")
        # ---- binding R: one routing-table entry
        replay_node_graph(ctx, preps["n_t5"], 5, "t5", max_ops=4000 if quick else None)
        replay_node_graph(ctx, preps["n_t1"], 1, "t1", max_ops=4000 if quick else 150000, expect=NODE_ACTIONS + ["Lookup"])
        replay_node_sim(ctx, preps["n_sim1"], 1, "sim1")
        replay_node_sim(ctx, preps["n_limit10"], 1, "limit10")
        observe_unadmitted(ctx)
        ctx.note("allowed_and_noted", [
            "a requester that does not fit in the routing table is never rate limited (see observation_unadmitted)",
            "an entry dropped as BAD and re-created starts a new limiter window",
            "find answers received through a Node object taken from another node's answer do not credit the table entry",
            "the caching store also stores the values in the finder's own storage (one node < TARGET_NODES)",
            "find_nodes reports every contacted node, answered or not",
            "an empty routing table of one address family makes find raise although the other family has nodes"])
        lap(ctx, "node_replay")
        # ---- binding T: real networks
        crawls, pairs, ok, _st = network_part(ctx, seed, "n24", 24)
        _c, _p, ok2, st2 = network_part(ctx, seed + 500, "hammer", 10, loss=0.0, kill=0, lookups=5, duration=70.0, hammer=40)
        ok = ok and ok2
        if ok2 and not st2["refused"]:
            raise MachineryError("the hammering scenario produced no refused request (vacuous limiter traces)")
        if not quick:
            network_part(ctx, seed + 1000, "n16", 16, loss=0.0, kill=0, lookups=40)
            network_part(ctx, seed + 2000, "n40", 40, loss=0.08, kill=8, lookups=60, duration=200.0)
            network_part(ctx, seed + 3000, "n32", 32, loss=0.02, kill=4, lookups=50, strategy_period=0.5, duration=90.0)
        lap(ctx, "networks")
        if ok:
            trace_controls(ctx, pool, crawls, pairs)
        lap(ctx, "trace_controls")

        # ---- collect the background runs
        for name, fut in jobs.items():
            r = fut.result()
            if not r.ok:
                raise MachineryError("%s: TLC reports %s on the specification itself" % (name, r.violated))
            need_coverage(r, CRAWL_ACTIONS if name.startswith("crawl") else
                          (["Query", "Tick"] if name == "node_limit10" else NODE_ACTIONS + ["Lookup"]), name)
            ctx.add_tlc(name, r)
        for name, (fut, inv) in ctl.items():
            r = fut.result()
            ctx.control(name, r.violated == inv)
        lap(ctx, "background_tlc")
        ctx.cov["exhaustive"] = True
    except MachineryError as e:
        if not ctx.violations:
            raise
        # a part could not run to its end AFTER the real code had already been seen to diverge: report the divergence
        ctx.note("machinery_error_after_violation", str(e)[:500])
    finally:
        pool.shutdown(wait=False, cancel_futures=True)
        vloop.uninstall()
    return ctx.finish()
