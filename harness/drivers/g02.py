"""G02 - DHT lookup/crawl machinery, per-node query rate limiting and ping/refresh maintenance (specification growth).

specs/DhtCrawl.tla   one crawl (Crawl, _find, _contact_node, on_find_response, time-outs, caching store)
specs/DhtNode.tla    one routing-table entry at a serving node: query rate limiter, ping maintenance, GOOD/UNKNOWN/BAD

Bindings
 R  the TLC state graphs of generated fixed worlds (every interleaving of answers, time-outs and loop drains) and
    `-simulate` behaviours with the shipped constants are executed action by action on a real DHTCommunity whose
    peers are puppets with real keys (answers fabricated and signed by the harness); the projected state
    (nodes_todo, nodes_tried, requests on the wire, responses, result, caching store) is compared after every action.
 T  real DHT networks (every node a real DHTCommunity with PingChurn) under the virtual clock with loss and dead
    nodes; crawls and per-node query/ping histories are recorded and validated by TLC against the Trace specs.
"""
from __future__ import annotations

import json
import os
import random
import shutil

from ..common import Ctx, setup_repo_path
from ..replay import diff_states, edge_cover
from ..tlc import SPECS, MachineryError, parse_dot, parse_simulate_file, run_tlc, scratch_dir, to_tla
from .. import vloop

PID = "G02"
LIB = ("-DTLA-Library=" + SPECS,)
TARGET = bytes(range(7, 27))

CRAWL_INVARIANTS = ["TypeOK", "InvBudget", "InvNoRepeat", "InvClosestFirst", "InvDone", "InvValues", "InvNodes",
                    "InvCache", "InvNoStoreOtherwise", "InvResponses"]
CRAWL_ACTIONS = ["Find", "Respond", "Drain", "Expire", "StoreAck", "StoreExpire"]


def tlc(*a, **k):
    """run_tlc timed with the real clock (time.time is virtual while this driver runs)"""
    t = vloop._REAL_TIME()
    r = run_tlc(*a, **k)
    r.wall = vloop._REAL_TIME() - t
    return r


def need_coverage(r, actions, what):
    missing = [a for a in actions if r.coverage.get(a, (0, 0))[1] == 0]
    if missing:
        raise MachineryError("%s: actions never taken (vacuous): %s" % (what, missing))


# ---------------------------------------------------------------------------------------------------------------------
# generated worlds
# ---------------------------------------------------------------------------------------------------------------------
def random_answer(rng, n, me, maxlen, nvals):
    kind = rng.random()
    vals, nodes = (), ()
    if kind < 0.22:
        vals = tuple(rng.sample(range(1, nvals + 1), rng.randint(1, min(3, nvals))))
        if rng.random() < 0.3:
            nodes = tuple(rng.sample(range(1, n + 1), rng.randint(1, min(maxlen, n))))
    else:
        ln = rng.choice([0, 1, 2, 2, 3, 3, 4, maxlen, maxlen])
        ln = min(ln, n, maxlen)
        pool = list(range(1, n + 1))
        if rng.random() < 0.8:
            pool.remove(me)              # an honest node does not list itself; some do
        nodes = tuple(rng.sample(pool, min(ln, len(pool))))
    return {"vals": vals, "nodes": nodes}


def random_world(rng, n, maxlen, nvals=4, alts=1, rt_max=3, nrts=1):
    ans = {}
    for me in range(1, n + 1):
        s = []
        for _ in range(alts):
            a = random_answer(rng, n, me, maxlen, nvals)
            if a not in s:
                s.append(a)
        ans[me] = s
    rts = []
    for _ in range(nrts):
        k = rng.randint(1, rt_max)
        # bias towards far nodes, so that the crawl has somewhere to go
        pool = list(range(1, n + 1))
        weights = [i for i in pool]
        chosen = set()
        while len(chosen) < min(k, n):
            chosen.add(rng.choices(pool, weights)[0])
        if chosen not in rts:
            rts.append(chosen)
    return ans, rts


def tla_answer(a):
    return "[vals |-> %s, nodes |-> %s]" % (to_tla(tuple(a["vals"])), to_tla(tuple(a["nodes"])))


def write_world_module(tmp, name, consts, worlds, modes, ctl=None, invariants=True, spec="Spec"):
    """worlds = [(ans, rts)]; a module extending DhtCrawl with the literal worlds + its cfg"""
    wt = []
    for ans, rts in worlds:
        anstxt = " @@ ".join("%d :> {%s}" % (n, ", ".join(tla_answer(a) for a in alts)) for n, alts in sorted(ans.items()))
        rtstxt = "{" + ", ".join(to_tla(frozenset(r)) for r in rts) + "}"
        wt.append("[ans |-> (%s),\n   rts |-> %s]" % (anstxt, rtstxt))
    with open(os.path.join(tmp, name + ".tla"), "w", encoding="utf-8") as f:
        f.write("---- MODULE %s ----\nEXTENDS DhtCrawl\nWorldsGen == <<\n  %s\n>>\n====\n" % (name, ",\n  ".join(wt)))
    c = dict(N=len(worlds[0][0]), MaxInit=8, MaxReq=24, MaxTasks=4, TopK=4, MaxStore=8)
    c.update(consts)
    ctl = ctl or {}
    lines = ["SPECIFICATION " + spec,
             "CONSTANTS " + " ".join("%s = %d" % kv for kv in c.items()),
             "  Modes = {%s}" % ", ".join('"%s"' % m for m in modes),
             "  " + " ".join("%s = %s" % (k, "TRUE" if ctl.get(k) else "FALSE") for k in
                             ("CtlNoTriedCheck", "CtlNoSort", "CtlCacheRecent", "CtlBudgetByResponses")),
             "CONSTANT Worlds <- WorldsGen"]
    if invariants:
        lines += ["INVARIANT " + i for i in CRAWL_INVARIANTS]
    cfg = os.path.join(tmp, name + ".cfg")
    with open(cfg, "w", encoding="utf-8") as f:
        f.write("\n".join(lines) + "\n")
    return name + ".tla", cfg


# ---------------------------------------------------------------------------------------------------------------------
# binding R for the crawl
# ---------------------------------------------------------------------------------------------------------------------
def label(name, args):
    def short(x):
        if isinstance(x, dict):
            return "{" + ",".join("%s:%s" % (k, short(v)) for k, v in sorted(x.items())) + "}"
        if isinstance(x, (tuple, list)):
            return "<" + ",".join(short(v) for v in x) + ">"
        if isinstance(x, (set, frozenset)):
            return "{" + ",".join(short(v) for v in sorted(x)) + "}"
        return str(x)
    return "%s(%s)" % (name, ",".join(short(a) for a in args))


def apply_crawl_action(run, name, args):
    if name == "Find":
        run.find(args[1], args[2])
    elif name == "Respond":
        run.respond(args[0], args[1]["vals"], args[1]["nodes"])
    elif name == "Drain":
        run.drain()
    elif name == "Expire":
        run.expire()
    elif name == "StoreAck":
        run.store_ack()
    elif name == "StoreExpire":
        run.store_expire()
    elif name == "Terminated":
        pass
    else:
        raise MachineryError("unknown action " + name)


def replay_steps(ctx, world, consts, steps, info, tag):
    """steps = [(name, args, expected spec state)] ; -> number of real operations executed"""
    from ..g02_world import CrawlRun, Escape, spec_crawl_projection
    run = CrawlRun(world, consts)
    labels = []
    nops = 0
    try:
        for name, args, st in steps:
            if name == "Terminated":
                continue
            labels.append(label(name, args))
            try:
                apply_crawl_action(run, name, args)
                d = diff_states(spec_crawl_projection(st), run.project())
            except Escape as e:
                ctx.violation("crawl:escape:%s:%s" % (name, type(e.exc).__name__),
                              "exception escapes the real code during %s: %s" % (labels[-1], e),
                              dict(info, actions=labels))
                break
            nops += 1
            if d:
                ctx.violation("crawl:replay:%s:%s" % (name, ",".join(sorted(d))),
                              "real crawl diverges from DhtCrawl.tla after %s: %s" % (labels[-1], d),
                              dict(info, actions=labels, diff=d))
                break
    finally:
        run.close()
    return nops, labels


_PUPPETS = {}


def puppets(n):
    from ..g02_world import Puppets
    if n not in _PUPPETS:
        _PUPPETS[n] = Puppets(n, TARGET)
    return _PUPPETS[n]


def world_info(worlds, consts, n, w=None):
    ws = worlds if w is None else [worlds[w - 1]]
    return {"worlds": [{"answers": {str(k): v for k, v in ans.items()}, "rts": [sorted(x) for x in rts]} for ans, rts in ws],
            "consts": consts, "n": n}


def replay_world_graphs(ctx, rng, tag, n, consts, maxlen, modes, nworlds, max_ops=None):
    """generated worlds: TLC explores every interleaving of answers, time-outs and drains; every edge of the graph is
    executed on the real code (or a seeded sample of max_ops operations)"""
    worlds = [random_world(rng, n, maxlen, rt_max=consts.get("MaxInit", 8) + 1) for _ in range(nworlds)]
    tmp = scratch_dir("g02-")
    try:
        mod, cfg = write_world_module(tmp, "G02w", consts, worlds, modes)
        dot = os.path.join(tmp, "g.dot")
        r = tlc(mod, cfg, cwd=tmp, java_opts=LIB, dump=dot, deadlock_off=False)
        if not r.ok:
            raise MachineryError("DhtCrawl worlds %s: TLC reports %s on the specification itself" % (tag, r.violated))
        g = parse_dot(dot)
    finally:
        shutil.rmtree(tmp, ignore_errors=True)
    need_coverage(r, CRAWL_ACTIONS, "DhtCrawl worlds " + tag)
    ctx.add_tlc(tag, r)
    world = puppets(n)
    nwalks = nops = 0
    covered = set()
    for init, walk in edge_cover(g, max_ops=max_ops, seed=ctx.seed, skip_self_loops=True):
        steps = [(g.edges[ei][1], g.edges[ei][2], g.states[g.edges[ei][3]]) for ei in walk]
        info = dict(world_info(worlds, consts, n, steps[0][1][0]), part="crawl-graph")
        k, labels = replay_steps(ctx, world, consts, steps, info, tag)
        covered.update(walk)
        nops += k
        nwalks += 1
        ctx.nontrivial((tag, tuple(labels)))
        if nwalks == 1 and len(ctx.cov["samples"]) < 3:
            ctx.sample({"world": info["worlds"][0], "actions": labels})
        if ctx.violations:
            break
    ctx.evaluated(nops)
    ctx.traces(nwalks)
    real_edges = sum(1 for e in g.edges if e[0] != e[3])
    st = {"worlds": nworlds, "n": n, "consts": consts, "states": len(g.states), "edges": real_edges, "walks": nwalks,
          "real_operations": nops, "edges_covered": len(covered), "complete_edge_cover": len(covered) == real_edges,
          "tlc_wall": round(r.wall, 2)}
    ctx.note("crawl_replay_" + tag, st)
    return st


def replay_simulated(ctx, rng, tag, n, consts, maxlen, num, depth, nworlds=3):
    """-simulate behaviours of larger worlds (the shipped constants) executed on the real code"""
    worlds = [random_world(rng, n, maxlen, nvals=12, alts=2, rt_max=min(8, n), nrts=3) for _ in range(nworlds)]
    tmp = scratch_dir("g02s-")
    try:
        mod, cfg = write_world_module(tmp, "G02s", consts, worlds, ["values", "nodes"])
        sim = os.path.join(tmp, "sim")
        r = tlc(mod, cfg, cwd=tmp, java_opts=LIB, simulate="file=%s,num=%d" % (sim, num), depth=depth, seed=ctx.seed,
                workers=1, coverage=False)
        if not r.ok:
            raise MachineryError("DhtCrawl simulate %s: TLC reports %s on the specification itself" % (tag, r.violated))
        files = sorted(f for f in os.listdir(tmp) if f.startswith("sim"))
        behaviours = [parse_simulate_file(os.path.join(tmp, f)) for f in files]
    finally:
        shutil.rmtree(tmp, ignore_errors=True)
    world = puppets(n)
    nops = finished = 0
    longest = most = budget_hit = 0
    for b in behaviours:
        most = max(most, len(b[-1][2]["launched"]))
        budget_hit += 1 if len(b[-1][2]["launched"]) >= consts.get("MaxReq", 24) else 0
        steps = [(name, args, st) for name, args, st in b[1:]]
        if not steps:
            continue
        info = dict(world_info(worlds, consts, n, steps[0][1][0]), part="crawl-simulate")
        k, labels = replay_steps(ctx, world, consts, steps, info, tag)
        nops += k
        longest = max(longest, k)
        finished += 1 if b[-1][2]["phase"] == "done" else 0
        ctx.nontrivial((tag, tuple(labels)))
        if ctx.violations:
            break
    ctx.evaluated(nops)
    ctx.traces(len(behaviours))
    st = {"behaviours": len(behaviours), "finished": finished, "real_operations": nops, "longest": longest, "most_contacted": most,
          "budget_exhausted": budget_hit, "n": n,
          "consts": consts, "tlc_wall": round(r.wall, 2)}
    ctx.note("crawl_simulate_" + tag, st)
    return st


# ---------------------------------------------------------------------------------------------------------------------
# binding R for one routing-table entry (DhtNode.tla)
# ---------------------------------------------------------------------------------------------------------------------
NODE_ACTIONS = ["Query", "Discover", "Churn", "Answer", "Tick"]


def cfg_constants(cfgname):
    import re
    with open(os.path.join(SPECS, cfgname), encoding="utf-8") as f:
        text = f.read()
    out = {}
    for k, v in re.findall(r"\b(\w+) = (\{[^}]*\}|\w+)", text):
        if v in ("TRUE", "FALSE"):
            out[k] = v == "TRUE"
        elif v.isdigit():
            out[k] = int(v)
        else:
            out[k] = v
    return out


_NODEWORLD = []


def node_world():
    from ..g02_world import NodeWorld
    if not _NODEWORLD:
        _NODEWORLD.append(NodeWorld())
    else:
        from ..g02_world import get_loop
        get_loop("plain")
    return _NODEWORLD[0]


def apply_node_action(run, name, args):
    if name == "Query":
        run.query()
    elif name == "Discover":
        run.discover()
    elif name == "Churn":
        run.churn_step()
    elif name == "Answer":
        run.answer(args[0])
    elif name == "Lookup":
        run.lookup()
    elif name == "Tick":
        run.tick(args[0])
    else:
        raise MachineryError("unknown action " + name)


def replay_node_steps(ctx, consts, unit, steps, info):
    from ..g02_world import Escape, NodeRun, spec_node_projection
    run = NodeRun(node_world(), consts, unit)
    labels = []
    nops = 0
    try:
        for name, args, st in steps:
            labels.append(label(name, args))
            try:
                apply_node_action(run, name, args)
                d = diff_states(spec_node_projection(st, consts), run.project())
            except Escape as e:
                ctx.violation("node:escape:%s:%s" % (name, type(e.exc).__name__),
                              "exception escapes the real code during %s: %s" % (labels[-1], e), dict(info, actions=labels))
                break
            nops += 1
            if d:
                ctx.violation("node:replay:%s:%s" % (name, ",".join(sorted(d))),
                              "real routing-table entry diverges from DhtNode.tla after %s: %s" % (labels[-1], d),
                              dict(info, actions=labels, diff=d))
                break
    finally:
        run.close()
    return nops, labels


def replay_node_graph(ctx, module, cfgname, unit, tag, max_ops=None, expect=NODE_ACTIONS):
    consts = cfg_constants(cfgname)
    tmp = scratch_dir("g02n-")
    try:
        dot = os.path.join(tmp, "g.dot")
        r = tlc(module, cfgname, dump=dot)
        if not r.ok:
            raise MachineryError("%s: TLC reports %s on the specification itself" % (cfgname, r.violated))
        g = parse_dot(dot)
    finally:
        shutil.rmtree(tmp, ignore_errors=True)
    need_coverage(r, expect, cfgname)
    ctx.add_tlc(tag, r)
    info = {"part": "node-graph", "cfg": cfgname, "seconds_per_tick": unit}
    nwalks = nops = 0
    covered = set()
    for init, walk in edge_cover(g, max_ops=max_ops, seed=ctx.seed):
        steps = [(g.edges[ei][1], g.edges[ei][2], g.states[g.edges[ei][3]]) for ei in walk]
        k, labels = replay_node_steps(ctx, consts, unit, steps, info)
        covered.update(walk)
        nops += k
        nwalks += 1
        ctx.nontrivial((tag, tuple(labels)))
        if nwalks == 3 and len(ctx.cov["samples"]) < 5:
            ctx.sample({"cfg": cfgname, "actions": labels})
        if ctx.violations:
            break
    ctx.evaluated(nops)
    ctx.traces(nwalks)
    st = {"cfg": cfgname, "states": len(g.states), "edges": len(g.edges), "walks": nwalks, "real_operations": nops,
          "edges_covered": len(covered), "complete_edge_cover": len(covered) == len(g.edges), "tlc_wall": round(r.wall, 2)}
    ctx.note("node_replay_" + tag, st)
    return st


def replay_node_sim(ctx, module, cfgname, unit, tag, num, depth):
    consts = cfg_constants(cfgname)
    tmp = scratch_dir("g02m-")
    try:
        sim = os.path.join(tmp, "sim")
        r = tlc(module, cfgname, simulate="file=%s,num=%d" % (sim, num), depth=depth, seed=ctx.seed, workers=1,
                coverage=False)
        if not r.ok:
            raise MachineryError("%s (simulate): TLC reports %s on the specification itself" % (cfgname, r.violated))
        behaviours = [parse_simulate_file(os.path.join(tmp, f)) for f in sorted(os.listdir(tmp)) if f.startswith("sim")]
    finally:
        shutil.rmtree(tmp, ignore_errors=True)
    info = {"part": "node-simulate", "cfg": cfgname, "seconds_per_tick": unit}
    nops = 0
    seen = {}
    for b in behaviours:
        steps = list(b[1:])
        k, labels = replay_node_steps(ctx, consts, unit, steps, info)
        nops += k
        for name, _a, st in steps:
            seen[st["last"]] = seen.get(st["last"], 0) + 1
            seen["status:" + st["status"]] = seen.get("status:" + st["status"], 0) + 1
        ctx.nontrivial((tag, tuple(labels)))
        if ctx.violations:
            break
    ctx.evaluated(nops)
    ctx.traces(len(behaviours))
    st = {"cfg": cfgname, "behaviours": len(behaviours), "real_operations": nops, "outcomes": seen,
          "tlc_wall": round(r.wall, 2)}
    ctx.note("node_simulate_" + tag, st)
    return st


# ---------------------------------------------------------------------------------------------------------------------
# find over several routing tables (DhtFind.tla): every TLC state is one real call
# ---------------------------------------------------------------------------------------------------------------------
def replay_find(ctx):
    from ..g02_world import FindWorld
    tmp = scratch_dir("g02f-")
    try:
        dot = os.path.join(tmp, "g.dot")
        r = tlc("DhtFind.tla", "DhtFind_mc.cfg", dump=dot)
        if not r.ok:
            raise MachineryError("DhtFind_mc: TLC reports %s on the specification itself" % r.violated)
        g = parse_dot(dot)
    finally:
        shutil.rmtree(tmp, ignore_errors=True)
    need_coverage(r, ["Return"], "DhtFind_mc")
    ctx.add_tlc("find", r)
    world = FindWorld()
    n = 0
    for src, name, _args, dst in g.edges:
        st0, st1 = g.states[src], g.states[dst]
        tables = tuple(tuple(t) for t in st0["tables"])
        got = world.run_find(tables, st0["debug"])
        want = {"done": st1["ret"]["done"], "ok": st1["ret"]["ok"], "values": tuple(st1["ret"]["values"]),
                "ncrawls": st1["ret"]["ncrawls"]}
        n += 1
        ctx.nontrivial(("find", tables, st0["debug"]))
        d = {k: {"spec": want[k], "impl": got[k]} for k in want if want[k] != got[k]}
        if d:
            ctx.violation("find:tables=%d:debug=%s:%s" % (len(tables), st0["debug"], got.get("exception", "result")[:40]),
                          "find_values over %d routing table(s), debug=%s: %s" % (len(tables), st0["debug"], d),
                          {"part": "find", "tables": tables, "debug": st0["debug"], "impl": got, "spec": want})
    ctx.evaluated(n)
    ctx.traces(n)
    ctx.note("find_replay", {"calls": n, "states": len(g.states)})
    return n


def run(tier, seed, replay=None):
    setup_repo_path()
    ctx = Ctx(PID, tier, seed, "model_checking")
    rng = random.Random(seed)
    small = dict(MaxInit=2, MaxReq=4, MaxTasks=2)
    stats = []
    #print(replay_world_graphs(ctx, rng, "small", 6, small, 4, ["values", "nodes"], 8))
    #print(replay_simulated(ctx, rng, "shipped", 30, {}, 8, 30, 250))
    print(replay_find(ctx))
    print(replay_node_graph(ctx, "DhtNodeMC.tla", "DhtNode_t5.cfg", 5, "t5", max_ops=800))
    print(replay_node_graph(ctx, "DhtNodeMC.tla", "DhtNode_t1.cfg", 1, "t1", max_ops=2000, expect=NODE_ACTIONS + ["Lookup"]))
    print(replay_node_sim(ctx, "DhtNode.tla", "DhtNode_sim1.cfg", 1, "sim1", 100, 80))
    print(replay_node_sim(ctx, "DhtNode.tla", "DhtNode_limit10.cfg", 1, "limit10", 100, 80))
    vloop.uninstall()
    return ctx.finish()
