"""G01 - peer discovery strategies (RandomWalk, EdgeWalk, RandomChurn + Community.walk_to / get_new_introduction /
bootstrap + the Network graph): specs/Discovery.tla model checked by TLC and bound to the real code:

 R  every transition of TLC's state graphs (specs/Discovery_r_*.cfg: random walk with / without tracker, churn with one
    and two peers, edge walk) is executed on a real DiscoveryCommunity with the real strategies, Network, request cache
    and bootstrapper on the simulated network under the step-mode virtual clock; the remote parties are scripted with
    real signed datagrams; the draws of random.* follow the specification's choice; the projected state (Network,
    strategy tables, ping caches, what went on the wire) is compared with the TLC state after every action;
 T  seeded runs of the observer among live DiscoveryCommunity nodes (loss, delay, nodes going down and coming back,
    default and shortened timers, target_peers / max_peers limits) are recorded event by event and validated by TLC
    against specs/DiscoveryTrace.tla, which re-uses the actions of Discovery.tla and evaluates its eight safety
    properties in every recorded state / step.
Both bindings also start the observer with a global time close to / beyond 65535 (an overlay that has been running for a
few hours): that is where G01-1 (ping cache keyed by the unreduced global time) shows."""
from __future__ import annotations

import json
import multiprocessing
import os
import random
import re
import shutil
import time
from concurrent.futures import ThreadPoolExecutor

from ..common import Ctx, setup_repo_path
from ..replay import diff_states, edge_cover
from ..tlc import SPECS, MachineryError, parse_dot, run_tlc, scratch_dir

PID = "G01"
ACTIONS = ["Tick", "RecvIntroReq", "RecvSimResp", "RecvIntroResp", "RecvPong", "RecvOther", "WalkStep", "ChurnStep",
           "EdgeNbh", "EdgeStart", "EdgeGrow"]
INVARIANTS = ["TypeOK", "NetOK", "WalkWindow", "NoOwnAddress", "EdgeShape", "EdgeBound"]
PROPERTIES = ["DropOnlyAfterSilence", "PingDiscipline", "WalkTargets", "ForgetOnlyUnreachable", "WalkSpacing",
              "EdgeGrowsVerified", "PongCounted"]
CONTROLS = [("ctl_dropearly", "DropOnlyAfterSilence", "churn that drops after inactive_time violates DropOnlyAfterSilence"),
            ("ctl_nopingguard", "DropOnlyAfterSilence", "churn that drops without a ping on record violates DropOnlyAfterSilence"),
            ("ctl_pingflood", "PingDiscipline", "churn that pings at every step violates PingDiscipline"),
            ("ctl_pongunmatched", "PongCounted", "pongs that never match their ping cache (pinned send_ping) violate PongCounted"),
            ("ctl_nowindow", "WalkWindow", "random walk without the window test violates WalkWindow"),
            ("ctl_walkverified", "WalkTargets", "random walk over verified addresses violates WalkTargets"),
            ("ctl_forgetanswered", "DropOnlyAfterSilence", "walk time-out that forgets answering peers violates DropOnlyAfterSilence"),
            ("ctl_edgeany", "EdgeShape", "edge walk that appends any verified peer violates EdgeShape")]


def read_cfg(name):
    """the CONSTANTS of a specs/Discovery_*.cfg as Python values"""
    with open(os.path.join(SPECS, name), encoding="utf-8") as f:
        txt = f.read()
    par = {}
    for m in re.finditer(r"^\s+(\w+) (=|<-) (.+)$", txt, re.M):
        k, _op, v = m.groups()
        v = v.strip()
        if v == "MinusOne":
            par[k] = -1
        elif v in ("TRUE", "FALSE"):
            par[k] = v == "TRUE"
        elif v.startswith("{"):
            par[k] = re.findall(r'"(\w+)"', v) if '"' in v else [int(x) for x in re.findall(r"\d+", v)]
        elif v.startswith('"'):
            par[k] = v.strip('"')
        else:
            par[k] = int(v)
    return par


def tlc_workers(parallel):
    return max(2, (os.cpu_count() or 4) // max(1, parallel))


# ---------------------------------------------------------------------------------------------------------------
# binding R
# ---------------------------------------------------------------------------------------------------------------
def graph_of(cfg, workers=None):
    tmp = scratch_dir("g01-")
    try:
        dot = os.path.join(tmp, "g.dot")
        r = run_tlc("Discovery.tla", cfg, dump=dot, workers=workers)
        if not r.ok:
            raise MachineryError("Discovery %s: TLC reports %s on the specification itself" % (cfg, r.violated))
        g = parse_dot(dot)
    finally:
        shutil.rmtree(tmp, ignore_errors=True)
    return r, g


def replay_job(job):
    """(cfg, max_ops, seed) -> summary dict; runs in a forked worker: TLC dump + replay of the graph on the real code"""
    cfg, max_ops, seed, gt0 = job
    setup_repo_path()
    from .. import g01_world as gw
    gw.env()
    par = read_cfg(cfg)
    r, g = graph_of(cfg, workers=4)
    names = {"peers": par["Peers"], "ghosts": par["Ghosts"], "trackers": par["Trackers"]}
    nwalks = nops = 0
    covered = set()
    per_action = {}
    keys, sample, violation = [], None, None
    t0 = time.monotonic()
    for init, walk in edge_cover(g, max_ops=max_ops, seed=seed):
        w = gw.World(names, par, gt0=gt0)
        labels = []
        d0 = diff_states(gw.spec_view(g.states[init]), w.project())
        if d0:
            raise MachineryError("fresh world differs from Init: %s" % d0)
        for ei in walk:
            _s, name, args, dst = g.edges[ei]
            labels.append([name, _plain(args)])
            probs = w.act(name, args)
            d = diff_states(gw.spec_view(g.states[dst]), w.project())
            nops += 1
            covered.add(ei)
            per_action[name] = per_action.get(name, 0) + 1
            if d or probs:
                what = ",".join(sorted(d)) if d else "choice"
                violation = ("replay:%s:%s" % (name, what),
                             "real strategies diverge from Discovery.tla (%s) after %s%s: %s %s"
                             % (cfg, name, _plain(args), _plain(d), probs),
                             {"cfg": cfg, "gt0": gt0, "actions": labels, "diff": _plain(d), "choice_problems": probs})
                break
        nwalks += 1
        keys.append(hash((cfg, tuple(walk))))
        if sample is None:
            sample = {"cfg": cfg, "actions": labels[:12]}
        if violation:
            break
    r.output = ""
    return {"cfg": cfg, "r": r, "walks": nwalks, "ops": nops, "states": len(g.states), "edges": len(g.edges),
            "covered": len(covered), "per_action": per_action, "keys": keys, "sample": sample, "violation": violation,
            "replay_wall_s": round(time.monotonic() - t0, 1)}


def merge_replay(ctx, tag, res):
    ctx.add_tlc(tag, res["r"])
    ctx.evaluated(res["ops"])
    ctx.traces(res["walks"])
    for k in res["keys"]:
        ctx.nontrivial(k)
    if res["sample"] and tag in ("r_walk", "r_edge"):
        ctx.sample(res["sample"])
    if res["violation"]:
        ctx.violation(*res["violation"])
    ctx.note("replay_" + tag, {"cfg": res["cfg"], "walks": res["walks"], "real_operations": res["ops"],
                               "graph_states": res["states"], "graph_edges": res["edges"],
                               "edges_covered": res["covered"], "complete_edge_cover": res["covered"] == res["edges"],
                               "operations_per_action": res["per_action"], "replay_wall_s": res["replay_wall_s"]})
    return res["r"]


def record_job(job):
    """(profile index, seeds) -> recorded runs; runs in a forked worker"""
    pi, seeds = job
    setup_repo_path()
    from .. import g01_world as gw
    gw.env()
    return [record(gw, PROFILES[pi], s) for s in seeds]


def _plain(v):
    if isinstance(v, (set, frozenset)):
        return sorted((_plain(x) for x in v), key=repr)
    if isinstance(v, dict):
        return {str(k): _plain(x) for k, x in v.items()}
    if isinstance(v, (tuple, list)):
        return [_plain(x) for x in v]
    return v


def rerun_replay(ctx, gw, path):
    """--replay <file>: execute the stored action sequence again and report the divergence"""
    with open(path, encoding="utf-8") as f:
        doc = json.load(f)
    rep = doc.get("replay") or {}
    if "trace" in rep:
        validate(ctx, [rep["trace"]], "replay")
        return
    cfg = rep["cfg"]
    par = read_cfg(cfg)
    _r, g = graph_of(cfg)
    w = gw.World({"peers": par["Peers"], "ghosts": par["Ghosts"], "trackers": par["Trackers"]}, par,
                 gt0=rep.get("gt0", 0))
    cur = g.init[0]
    done = []
    for name, args in rep["actions"]:
        nxt = None
        for ei in g.out.get(cur, ()):
            _s, n2, a2, dst = g.edges[ei]
            if n2 == name and _plain(a2) == args:
                nxt = (a2, dst)
                break
        if nxt is None:
            raise MachineryError("replay: %s%s is not a transition of %s here" % (name, args, cfg))
        probs = w.act(name, nxt[0])
        done.append([name, args])
        d = diff_states(gw.spec_view(g.states[nxt[1]]), w.project())
        if d or probs:
            ctx.violation("replay:%s:%s" % (name, ",".join(sorted(d)) if d else "choice"),
                          "real strategies diverge from Discovery.tla (%s) after %s%s: %s %s"
                          % (cfg, name, args, _plain(d), probs), {"cfg": cfg, "actions": done, "diff": _plain(d)})
            return
        cur = nxt[1]
    ctx.evaluated(len(done))


# ---------------------------------------------------------------------------------------------------------------
# binding T
# ---------------------------------------------------------------------------------------------------------------
TRACE_CFG = """SPECIFICATION TraceSpec
CONSTANTS
  Peers = {%(peers)s}  Ghosts = {}  Trackers = {%(trackers)s}  Own = "own"
  UseWalk = TRUE  UseEdge = TRUE  UseChurn = TRUE
  Window = %(Window)d  WalkTimeout = %(WalkTimeout)d  TargetInterval = %(TargetInterval)d
  TargetPeers %(TargetPeers)s  MaxPeers %(MaxPeers)s
  EdgeLen = %(EdgeLen)d  NbSize = %(NbSize)d  EdgeTimeout = %(EdgeTimeout)d
  SampleSize = %(SampleSize)d  PingInterval = %(PingInterval)d  InactiveTime = %(InactiveTime)d  DropTime = %(DropTime)d
  MaxPings = 5  PingCacheTimeout = 10  BootTimeout = %(BootTimeout)d  MaxTime = %(MaxTime)d  TickLens = {1}
  IntroOwn = FALSE  Dev = {}
%(checks)s
"""
PROFILES = [
    # default timers of the library (unit 0.5 s): walk 3 s, ping every 10 s, inactive 27.5 s, drop 57.5 s
    dict(name="defaults", Window=5, WalkTimeout=6, TargetInterval=0, TargetPeers=-1, MaxPeers=-1, EdgeLen=4, NbSize=2,
         EdgeTimeout=6, SampleSize=8, PingInterval=20, InactiveTime=55, DropTime=115, BootTimeout=60,
         ticks=420, npeers=6, loss=0.05, delay=0.1, down=0.004, up=0.01),
    # shortened churn timers: many drops and returns; the observer has already claimed 65300 global times
    dict(name="fast-churn", Window=2, WalkTimeout=4, TargetInterval=0, TargetPeers=-1, MaxPeers=-1, EdgeLen=3, NbSize=2,
         EdgeTimeout=3, SampleSize=2, PingInterval=6, InactiveTime=12, DropTime=30, BootTimeout=40,
         ticks=300, npeers=5, loss=0.15, delay=0.15, down=0.02, up=0.03, gt0=65300),
    # limits: target_peers gate, max_peers, target_interval, window 1
    dict(name="limits", Window=1, WalkTimeout=3, TargetInterval=3, TargetPeers=3, MaxPeers=2, EdgeLen=3, NbSize=1,
         EdgeTimeout=2, SampleSize=1, PingInterval=4, InactiveTime=10, DropTime=24, BootTimeout=20,
         ticks=300, npeers=5, loss=0.1, delay=0.2, down=0.02, up=0.05),
    # heavy loss: walks time out, addresses are forgotten
    dict(name="lossy", Window=3, WalkTimeout=2, TargetInterval=0, TargetPeers=-1, MaxPeers=-1, EdgeLen=4, NbSize=3,
         EdgeTimeout=4, SampleSize=3, PingInterval=5, InactiveTime=8, DropTime=20, BootTimeout=10,
         ticks=300, npeers=7, loss=0.45, delay=0.1, down=0.01, up=0.05),
]


def record(gw, profile, seed):
    par = {k: v for k, v in profile.items() if k[0].isupper()}
    par.update(UseWalk=True, UseEdge=True, UseChurn=True, MaxPings=5, PingCacheTimeout=10)
    names = {"peers": ["p%d" % i for i in range(1, profile["npeers"] + 1)], "ghosts": [], "trackers": ["t1"]}
    w = gw.LiveWorld(names, par, random.Random(seed), unit=0.5, loss=profile["loss"], delay=profile["delay"],
                     down=profile["down"], up=profile["up"], gt0=profile.get("gt0", 0))
    events = w.run(profile["ticks"])
    return {"profile": profile["name"], "seed": seed, "par": par, "names": names, "ticks": profile["ticks"],
            "events": events}


def trace_stats(stats, docs):
    """what the recorded runs contain (vacuity of binding T)"""
    for d in docs:
        prev = None
        for e in d["events"]:
            stats[e["a"]] = stats.get(e["a"], 0) + 1
            if prev is not None:
                gone = set(prev["verified"]) - set(e["verified"])
                if gone:
                    stats["peers_dropped_by_churn"] = stats.get("peers_dropped_by_churn", 0) + len(gone)
                forgot = set(prev["known"]) - set(e["known"]) - gone
                if forgot:
                    stats["addresses_forgotten_by_walk"] = stats.get("addresses_forgotten_by_walk", 0) + len(forgot)
                if len(e["complete"]) > len(prev["complete"]):
                    stats["edges_completed"] = stats.get("edges_completed", 0) + 1
                if set(e["verified"]) - set(prev["verified"]):
                    stats["peers_verified"] = stats.get("peers_verified", 0) + 1
            if e["out_pings"]:
                stats["pings_sent"] = stats.get("pings_sent", 0) + len(e["out_pings"])
            if e["out_reqs"]:
                stats["introduction_requests_sent"] = stats.get("introduction_requests_sent", 0) + len(e["out_reqs"])
            prev = e


def run_validation(docs, locate=False):
    """TLC over one batch of traces that share their constants -> TlcResult"""
    d0 = docs[0]
    par = d0["par"]

    def lim(v):
        return "<- MinusOne" if v < 0 else "= %d" % v
    checks = ["INVARIANT " + i for i in INVARIANTS] + ["PROPERTY " + p for p in PROPERTIES]
    if locate:
        checks.insert(0, "INVARIANT TraceAccepted")
    tmp = scratch_dir("g01t-")
    try:
        path = os.path.join(tmp, "traces.json")
        with open(path, "w", encoding="utf-8") as f:
            json.dump({"traces": [{"events": d["events"]} for d in docs]}, f, separators=(",", ":"))
        cfg = os.path.join(tmp, "DiscoveryTrace.cfg")
        with open(cfg, "w", encoding="utf-8") as f:
            f.write(TRACE_CFG % dict(par, peers=", ".join('"%s"' % p for p in d0["names"]["peers"]),
                                     trackers=", ".join('"%s"' % p for p in d0["names"]["trackers"]),
                                     TargetPeers=lim(par["TargetPeers"]), MaxPeers=lim(par["MaxPeers"]),
                                     MaxTime=max(d["ticks"] for d in docs), checks="\n".join(checks)))
        r = run_tlc("DiscoveryTrace.tla", cfg, env={"TRACE_FILE": path}, coverage=False,
                    workers=min(len(docs), tlc_workers(2)), timeout=1800)
    finally:
        shutil.rmtree(tmp, ignore_errors=True)
    return r


def validate(ctx, docs, tag, expect_reject=False):
    """fast path: TLC walks every trace as far as it is a behaviour of the specification; all were accepted iff it found
    one state per event (+ the initial ones). Only then a second run with TraceAccepted names the trace and the event."""
    expected = sum(len(d["events"]) + 1 for d in docs)
    r = run_validation(docs)
    if r.ok and r.distinct == expected:
        if expect_reject:
            return False
        ctx.add_tlc(tag, r)
        ctx.traces(len(docs))
        ctx.evaluated(sum(len(d["events"]) for d in docs))
        for d in docs:
            ctx.nontrivial(("trace", d["profile"], d["seed"], len(d["events"])))
        return True
    if r.ok:
        r = run_validation(docs, locate=True)
        if r.ok:
            raise MachineryError("trace validation: %d states for %d expected, but the locating run accepts everything"
                                 % (r.distinct, expected))
    if expect_reject:
        return True
    ctx.add_tlc(tag, r)
    last = r.error_trace[-1][1] if r.error_trace else {}
    tid, lno = last.get("tid"), last.get("l")
    bad = docs[tid - 1] if isinstance(tid, int) and 1 <= tid <= len(docs) else docs[0]
    ev = bad["events"][lno - 1] if isinstance(lno, int) and 1 <= lno <= len(bad["events"]) else None
    prev = bad["events"][lno - 2] if isinstance(lno, int) and lno >= 2 else None
    if r.violated == "TraceAccepted":
        what = explain(prev, ev)
        ctx.violation("trace:%s:%s" % (ev["a"] if ev else "?", what[0]),
                      "recorded execution (profile %s, seed %s) is not a behaviour of Discovery.tla at event %s (%s): %s"
                      % (bad["profile"], bad["seed"], lno, ev["a"] if ev else "?", what[1]),
                      {"trace": {k: bad[k] for k in ("profile", "seed", "par", "names", "ticks")} |
                       {"events": bad["events"][:lno if isinstance(lno, int) else 0]}, "event_index": lno})
    else:
        ctx.violation("trace:%s" % r.violated,
                      "recorded execution (profile %s, seed %s) violates %s of Discovery.tla at event %s (%s)"
                      % (bad["profile"], bad["seed"], r.violated, lno, ev["a"] if ev else "?"),
                      {"trace": {k: bad[k] for k in ("profile", "seed", "par", "names", "ticks")} |
                       {"events": bad["events"][:(lno + 1) if isinstance(lno, int) else 0]}, "event_index": lno})
    return False


def explain(prev, ev):
    """which logged variables changed in the rejected event (for the signature and the message)"""
    if ev is None:
        return "?", "?"
    if prev is None:
        return "first", json.dumps(ev)[:300]
    changed = sorted(k for k in ev if k in prev and k not in ("a", "p", "x", "t", "w", "ch", "d", "now", "out_reqs", "out_pings")
                     and ev[k] != prev[k])
    detail = {k: {"before": prev[k], "after": ev[k]} for k in changed}
    detail["out_reqs"], detail["out_pings"] = ev.get("out_reqs"), ev.get("out_pings")
    args = {k: ev[k] for k in ("p", "x", "t", "w", "ch", "d") if k in ev}
    return ",".join(changed) or "out", "args %s changes %s" % (json.dumps(args), json.dumps(detail)[:900])


def corrupt(doc, how):
    """a deliberately wrong trace (negative control of the binding)"""
    d = json.loads(json.dumps(doc))
    evs = d["events"]
    if how == "early-drop":
        for i, e in enumerate(evs):
            if e["a"] == "ChurnStep" and e["verified"] and i > 0 and evs[i - 1]["verified"] == e["verified"]:
                p = e["verified"][0]
                d["events"] = evs[:i + 1]
                e["verified"] = [x for x in e["verified"] if x != p]
                e["known"] = [x for x in e["known"] if x != p]
                e["introBy"][p] = "none"
                for k, v in (("lastResp", -1), ("npings", 0), ("pinged", -1), ("pingT", -1)):
                    e[k][p] = v
                return d
    elif how == "extra-walk":
        for i, e in enumerate(evs):
            if e["a"] == "WalkStep" and e["verified"] and len(e["out_reqs"]) == 1:
                extra = [p for p in e["verified"] if p not in e["out_reqs"]]
                if extra:
                    d["events"] = evs[:i + 1]
                    e["out_reqs"] = sorted(e["out_reqs"] + extra[:1])
                    return d
    raise MachineryError("cannot build the %s control from this trace" % how)


# ---------------------------------------------------------------------------------------------------------------
def run(tier, seed, replay=None):
    setup_repo_path()
    ctx = Ctx(PID, tier, seed, "model_checking")
    ctx.cov["rule"] = ("TLC enumerates every interleaving of strategy steps, clock ticks and (unsolicited, late, missing) "
                       "datagrams over small universes; every transition of the replay graphs is one call / one signed "
                       "datagram on a real DiscoveryCommunity with the real strategies and the projected state is compared "
                       "with the TLC state; recorded runs among live nodes are validated event by event by TLC. "
                       "non-trivial = distinct (configuration, graph walk) pairs and distinct recorded runs")
    ctx.assumptions += ["every remote peer has exactly one address (no NAT, no address change: those are C13's subject)",
                        "one overlay per Network (get_peers() = verified peers)",
                        "bootstrap servers are silent until the overlay has contacted them (they are blacklisted from then on)",
                        "the order of lists derived from sets (get_peers()[:n], get_walkable_addresses()[:n]) is arbitrary: "
                        "in the replay the harness permutes these lists so that the specification's subset comes first",
                        "random.choice / randint / sample / random of the strategy, community and bootstrapper modules are "
                        "re-bound to the harness' chooser (scripted in R, seeded in T)"]
    if replay:
        from .. import g01_world as gw
        gw.env()
        rerun_replay(ctx, gw, replay)
        gw.env()["vloop"].uninstall()          # Ctx.finish reads time.time(): give it the real clock back
        return ctx.finish()
    quick = tier == "quick"
    t_start = time.monotonic()
    mc_cfgs = ["walk_slow", "walk_q", "edge_q", "churn_q"] if quick else \
        ["walk_slow", "walk", "edge", "churn", "all", "walk3", "edge_nb2"]
    # (tag, configuration, operations budget, global time the observer starts with)
    r_cfgs = [("r_walk2", "r_walk2", None, 0), ("r_edge", "r_edge", None, 0),
              ("r_churn1", "r_churn1", 10000 if quick else None, 0),
              ("r_churn", "r_churn", 10000 if quick else 150000, 0), ("r_walk", "r_walk", 10000 if quick else 150000, 0),
              ("r_churn1_gt", "r_churn1", 5000 if quick else None, 65533)]
    n_per = 2 if quick else 12

    # worker processes (forked before any thread exists) drive the real code: one per replay graph, one per profile
    procs = multiprocessing.get_context("fork").Pool(min(9, os.cpu_count() or 4))
    pool = ThreadPoolExecutor(max_workers=4)
    phases = {}
    try:
        replays = {t: procs.apply_async(replay_job, (("Discovery_%s.cfg" % c, m, seed, g0),)) for t, c, m, g0 in r_cfgs}
        records = [procs.apply_async(record_job, ((pi, [seed * 1000 + pi * 100 + i for i in range(n_per)]),))
                   for pi in range(len(PROFILES))]
        ctl = {c[0]: pool.submit(run_tlc, "Discovery.tla", "Discovery_%s.cfg" % c[0], coverage=False, workers=2)
               for c in CONTROLS}
        mcs = {c: pool.submit(run_tlc, "Discovery.tla", "Discovery_%s.cfg" % c, workers=4, timeout=3000)
               for c in mc_cfgs}
        for name, prop, text in CONTROLS:
            r = ctl[name].result()
            ctx.control(text, r.violated == prop)
        phases["controls"] = round(time.monotonic() - t_start, 1)

        # ---- binding T (validation by TLC while the replay workers run)
        first = None
        stats = {}
        batches = []
        for pi, prof in enumerate(PROFILES):
            docs = records[pi].get(timeout=3000)
            first = first or docs[0]
            trace_stats(stats, docs)
            batches.append((prof["name"], docs))
        phases["recorded"] = round(time.monotonic() - t_start, 1)
        ctx.note("recorded_runs", stats)
        for name, docs in batches:
            if not validate(ctx, docs, "trace_" + name):
                break
        if not ctx.violations:
            acts = {}
            for e in first["events"]:
                acts[e["a"]] = acts.get(e["a"], 0) + 1
            ctx.sample({"recorded_run": {"profile": first["profile"], "events": len(first["events"]), "by_action": acts}})
            ctx.control("trace in which churn drops an answering peer is rejected",
                        validate(ctx, [corrupt(first, "early-drop")], "ctl", True))
            ctx.control("trace with a second, unexplained introduction request in a walk step is rejected",
                        validate(ctx, [corrupt(first, "extra-walk")], "ctl", True))
        phases["traces"] = round(time.monotonic() - t_start, 1)

        # ---- binding R
        coverage = {}
        for c, _c, _m, _g in r_cfgs:
            r = merge_replay(ctx, c, replays[c].get(timeout=6000))
            for a, (_d, t) in r.coverage.items():
                coverage[a] = coverage.get(a, 0) + t
        phases["replay"] = round(time.monotonic() - t_start, 1)

        # ---- model checking results, vacuity
        for c in mc_cfgs:
            r = mcs[c].result()
            ctx.add_tlc(c, r)
            if not r.ok:
                raise MachineryError("Discovery_%s.cfg: TLC reports %s on the specification itself" % (c, r.violated))
            for a, (_d, t) in r.coverage.items():
                coverage[a] = coverage.get(a, 0) + t
        missing = [a for a in ACTIONS if not coverage.get(a)]
        if missing and not ctx.violations:
            raise MachineryError("vacuity: specification actions never taken: %s" % missing)
        ctx.note("action_coverage", {a: coverage.get(a, 0) for a in ACTIONS})
    finally:
        pool.shutdown(wait=True, cancel_futures=True)
        procs.terminate()
        procs.join()
    ctx.cov["exhaustive"] = not quick
    ctx.note("observations", OBSERVATIONS)
    ctx.note("defects_reported", DEFECTS)
    phases["model_checking_joined"] = round(time.monotonic() - t_start, 1)
    ctx.note("phases_finished_at_s", phases)
    return ctx.finish()


OBSERVATIONS = [
    "RandomChurn never drops a peer whose last_response is still 0 (verified by its first datagram, silent ever after): "
    "it is pinged every ping_interval for ever (should_drop / is_inactive return False for last_response == 0)",
    "RandomChurn._pinged is not cleared by an answer: a drop can rely on a ping that was sent before the peer's last answer "
    "when the peer was not sampled in between; entries of peers removed by somebody else are never deleted",
    "EdgeWalk never refreshes a full neighbourhood: dropped peers stay roots and are asked for introductions for ever; "
    "complete_edges only grows",
    "Community.on_introduction_response records the observer's own address when a peer introduces it; RandomWalk then walks "
    "to itself (replayed in Discovery_r_walk2.cfg with IntroOwn = TRUE)",
    "on_introduction_request admits a peer while len(get_peers()) == max_peers (max_peers + 1 peers), whereas the "
    "peer_limit_reached flag of the response uses <=",
    "PingChurn (ipv8/dht/churn.py) is not modelled here: it maintains the DHT routing tables (C14 / C15 territory)",
]
DEFECTS = [
    "G01-1 (genuine, fires on the pinned tree; proposed_fixes/G01-1.diff + .repro.py): DiscoveryCommunity.send_ping "
    "registers its PingRequestCache under the unreduced global time while the ping / pong carry global_time % 65536; "
    "after 65535 claimed global times no pong matches its cache: PongCounted is violated (replay r_churn1_gt with the "
    "observer's global time starting at 65533, recorded runs of profile fast-churn starting at 65300), Peer.pings "
    "receives no further samples and RandomChurn pings every peer every ping_interval for ever",
]
