"""G08 - the endpoint stack below the overlays (specification growth, not one of the 20 listed properties).

specs/EndpointStack.tla : Endpoint (listener registry), UDPEndpoint / UDPv6Endpoint (open, close, send, datagram_received,
                          loop turn), DispatcherEndpoint (routing by address type, fan-out), StatisticsEndpoint
                          - model checked; the dumped state graphs are replayed (binding R) on
     kind "fake": the real DispatcherEndpoint / StatisticsEndpoint over recording interfaces that use the real Endpoint
                  base class (registry, notify_listeners),
     kind "udp" : the real classes over real UDPEndpoint / UDPv6Endpoint on loopback sockets under a real asyncio loop,
   with the stack shapes  dispatcher | statistics(dispatcher) | bare UDPEndpoint | statistics(UDPEndpoint);
   after every action the projected state (registries, life cycle, sockets, byte counters, bytes seen on the wire,
   statistics table) and the observable outcome (which interface transmitted, who was notified how often, exception)
   are compared with the TLC state.  Graphs without the statistics layer are replayed on stacks WITH it as well
   (transparency: the layer must not change anything observable).  Every third open() of a UDP interface finds its port
   taken by the harness (port fallback).
specs/EndpointStackTrace.tla : random executions of the full stack statistics -> dispatcher -> UDPEndpoint + UDPv6Endpoint
   (3 listeners, 2 prefixes, 7 address kinds, 4 lengths, 3 message ids) recorded and validated by TLC (binding T).

Pinned tree: the check fires on three genuine defects (proposed_fixes/G08-1..3: statistics layer does not forward the
listener registry, add_prefix_listener duplicates the general listeners, a closed UDPEndpoint still transmits until the
loop turns); the specification models the repaired behaviour, the constants StatsForwards / DupGeneral / SendWhileClosing
switch the pinned deviations on (negative controls)."""
from __future__ import annotations

import os
import random
import re
import shutil
import time
from concurrent.futures import ThreadPoolExecutor

from ..common import Ctx, setup_repo_path
from ..replay import diff_states, edge_cover
from ..tlc import SPECS, FrozenDict, MachineryError, parse_dot, parse_value, run_tlc, scratch_dir

PID = "G08"
MODULE = "EndpointStack.tla"
ALL_ACTIONS = {"Add", "AddP", "Remove", "Recv", "Notify", "Send", "DOpen", "DClose", "IOpen", "IClose", "Settle", "Reset",
               "ErrorCb", "Enable"}

CONTROLS = [
    ("EndpointStack_ctl_dup.cfg", {"NotifyOnce"},
     "add_prefix_listener that appends the general listeners again violates NotifyOnce"),
    ("EndpointStack_ctl_dupstats.cfg", {"StatsExact"},
     "with that duplication the statistics layer (a general listener) counts a datagram twice: violates StatsExact"),
    ("EndpointStack_ctl_statsfwd.cfg", {"NotifyOnce"},
     "a statistics layer that keeps registrations to itself violates NotifyOnce"),
    ("EndpointStack_ctl_closing.cfg", {"SendRouting"},
     "send that still transmits between close() and the loop turn violates SendRouting"),
]


def cfg_consts(cfg):
    """The CONSTANTS of one of the generated cfg files as python values."""
    out = {}
    with open(os.path.join(SPECS, cfg), encoding="utf-8") as f:
        for line in f:
            m = re.match(r"\s+(\w+) = (.*)$", line)
            if m:
                out[m.group(1)] = parse_value(m.group(2).strip())
    return out


class TlcJobs:
    """All TLC runs are started together (small models: JVM start-up dominates) and collected on demand."""

    def __init__(self, par):
        self.pool = ThreadPoolExecutor(max_workers=par)
        self.jobs = {}

    def submit(self, cfg, dump=False, workers=2, timeout=1800):
        if cfg in self.jobs:
            return

        def job():
            tmp = scratch_dir("g08-")
            try:
                dot = os.path.join(tmp, "g.dot") if dump else None
                r = run_tlc(MODULE, cfg, dump=dot, coverage=True, workers=workers, timeout=timeout)
                return r, (parse_dot(dot) if dump and r.ok else None)
            finally:
                shutil.rmtree(tmp, ignore_errors=True)
        self.jobs[cfg] = self.pool.submit(job)

    def get(self, cfg):
        return self.jobs[cfg].result()


def check_model(ctx, jobs, cfg, tag, consts):
    r, g = jobs.get(cfg)
    if not r.ok:
        raise MachineryError("%s %s: TLC reports %s on the specification itself" % (MODULE, cfg, r.violated))
    if tag not in ctx.parts.get("tlc", {}):
        ctx.add_tlc(tag, r)
        want = set(ALL_ACTIONS)
        if not consts["WithStats"]:
            want.discard("Enable")
        if not consts["Closing"]:
            want.discard("Settle")
        if not consts["AddrKinds"]:
            want.discard("Send")
        dead = [a for a in sorted(want) if not r.coverage.get(a, (0, 0))[1]]
        if dead:
            raise MachineryError("%s %s: actions never taken: %s" % (MODULE, cfg, dead))
    return g


def spec_view(st):
    """TLC prints a function whose domain is 1..n as a sequence: the per-message-id table when MsgIds = {1}."""
    stat = st.get("stat")
    if stat is not None and any(isinstance(v, tuple) for v in stat.values()):
        st = dict(st)
        st["stat"] = FrozenDict({p: FrozenDict({i + 1: x for i, x in enumerate(v)}) if isinstance(v, tuple) else v
                                 for p, v in stat.items()})
    return st


def last_diff(spec_last, obs):
    d = {}
    for k in ("act", "deliv", "wire", "out"):
        if spec_last[k] != obs[k]:
            d["last." + k] = {"spec": spec_last[k], "impl": obs[k]}
    return d


def replay_walk(har, kind, stack, consts, g, init, walk, sabotage=None):
    """-> (edges executed, labels, None | (action name, diff, problems))."""
    from .. import g08_world as gw
    w = gw.World(har, kind, stack, consts)
    if sabotage:
        sabotage(w)
    labels = []
    try:
        n, bad = _walk(w, kind, g, init, walk, labels)
    finally:
        left = w.teardown()
    if bad is None and left and not sabotage:
        labels.append("teardown")
        bad = ("Teardown", {}, ["%d socket(s) of the interfaces stay open after close() and a loop turn" % left])
    return n, labels, bad


def _walk(w, kind, g, init, walk, labels):
    n = 0
    d = diff_states(spec_view(g.states[init]), w.project())
    if d or w.problems:
        return n, ("Init", d, list(w.problems))
    for ei in walk:
        _s, name, args, dst = g.edges[ei]
        labels.append("%s%s" % (name, list(args)))
        want = spec_view(g.states[dst])
        obs = w.step(name, args)
        d = last_diff(want["last"], obs)
        if "last.wire" in d and kind == "udp":
            # (never seen on loopback) give a datagram that is still on its way the time to arrive
            more = w.observe_wire(w._last_sent, wait=0.3)
            if more:
                obs["wire"] = frozenset(set(obs["wire"]) | more)
                if obs["out"] == "dropped":
                    obs["out"] = "sent"
                d = last_diff(want["last"], obs)
        d.update(diff_states(want, w.project()))
        if not d and not w.problems:
            w.check_lan(want["ifs"])
        n += 1
        if d or w.problems:
            return n, (name, d, list(w.problems))
    return n, None


def replay_graph(ctx, har, jobs, cfg, tag, kind, stack, max_ops, seed_off=0):
    consts = cfg_consts(cfg)
    g = check_model(ctx, jobs, cfg, cfg[len("EndpointStack_"):-4], consts)
    nwalks = nedges = 0
    t0 = time.monotonic()
    fired = False
    for init, walk in edge_cover(g, max_ops=max_ops, seed=ctx.seed * 7 + seed_off):
        n, labels, bad = replay_walk(har, kind, stack, consts, g, init, walk)
        nedges += n
        nwalks += 1
        ctx.nontrivial((tag, tuple(walk)))
        if nwalks <= 1:
            ctx.sample({"part": tag, "stack": "%s/%s" % (stack, kind), "actions": labels[:40]})
        if bad:
            name, d, problems = bad
            what = ",".join(sorted(d)) or "problem"
            layer = "stats" if stack.startswith("stats") else "plain"
            ctx.violation("replay:%s:%s:%s" % (layer, name, what),
                          "real endpoint stack (%s over %s interfaces) diverges from EndpointStack.tla after %s: %s %s"
                          % (stack, kind, " ".join(labels[-12:]), dict(d), problems),
                          {"cfg": cfg, "kind": kind, "stack": stack, "actions": labels, "diff": d, "problems": problems,
                           "steps": [[g.edges[ei][1], list(g.edges[ei][2])] for ei in walk[:len(labels)]]})
            fired = True
            break
    ctx.evaluated(nedges)
    ctx.traces(nwalks)
    ctx.note("replay_" + tag, {"cfg": cfg, "stack": stack, "kind": kind, "walks": nwalks, "real_operations": nedges,
                               "graph_states": len(g.states), "graph_edges": len(g.edges),
                               "complete_edge_cover": max_ops is None and not fired,
                               "wall_s": round(time.monotonic() - t0, 1)})
    return not fired


def binding_control(ctx, har, jobs, cfg, kind, stack, sabotage, what):
    """A world that deviates on purpose must be caught by the replay (the binding is not vacuous)."""
    consts = cfg_consts(cfg)
    jobs.submit(cfg, dump=True)
    g = check_model(ctx, jobs, cfg, cfg[len("EndpointStack_"):-4], consts)
    caught = False
    for init, walk in edge_cover(g, max_ops=6000, seed=ctx.seed):
        _n, _labels, bad = replay_walk(har, kind, stack, consts, g, init, walk, sabotage=sabotage)
        if bad:
            caught = True
            break
    ctx.control("replay: " + what, caught)


def sab_broadcast(w):
    def send(addr, packet, interface=None):
        for ep in w.disp.interfaces.values():
            if ep.is_open():
                ep.send(addr, packet)
    w.disp.send = send


def sab_deaf_remove(w):
    w.top.remove_listener = lambda listener: None


def sab_count_twice(w):
    orig = w.stats.add_received_stat

    def twice(prefix, identifier, num_bytes, timestamp=None):
        orig(prefix, identifier, num_bytes, timestamp)
        orig(prefix, identifier, num_bytes, timestamp)
    w.stats.add_received_stat = twice


def sab_keep_counting(w):
    ep = w.ifaces["v4"]

    def datagram_received(data, addr, ep=ep):
        w.arrived += 1
        ep.bytes_down += len(data)
        ep.notify_listeners((addr, data))
    ep.datagram_received = datagram_received


# ---------------------------------------------------------------------------------------------------
# binding T: random executions of the full real stack (statistics -> dispatcher -> UDP v4 + v6), validated by TLC
# ---------------------------------------------------------------------------------------------------
TRACE_CFG = "EndpointStackTrace.cfg"


def record_trace(har, rng, n_events):
    """-> (trace dict, None | description of a problem the world itself noticed)."""
    import json

    from .. import g08_world as gw
    consts = cfg_consts(TRACE_CFG)
    w = gw.World(har, "udp", "stats-disp", consts)
    ls, ps, ids = sorted(consts["Listeners"]), sorted(consts["Prefixes"]), sorted(consts["MsgIds"])
    sizes, kinds = sorted(consts["Sizes"]), sorted(consts["AddrKinds"])
    reg = {l: set() for l in ls}
    events = []
    menu = (["Add"] * 3 + ["AddP"] * 5 + ["Remove"] * 3 + ["Recv"] * 10 + ["Notify"] * 2 + ["Send"] * 10 + ["DOpen"] * 3 +
            ["DClose"] * 2 + ["IOpen"] * 2 + ["IClose"] * 2 + ["Settle"] * 2 + ["Reset"] + ["ErrorCb"] + ["Enable"] * 3)
    try:
        while len(events) < n_events:
            name = rng.choice(menu)
            ev = {"a": name}
            if name == "Add":
                free = [l for l in ls if not reg[l]]
                if not free:
                    continue
                ev["l"] = rng.choice(free)
                reg[ev["l"]] = {"gen"}
                args = (ev["l"],)
            elif name == "AddP":
                free = [(l, p) for l in ls for p in ps if "gen" not in reg[l] and p not in reg[l]]
                if not free:
                    continue
                ev["l"], ev["p"] = rng.choice(free)
                reg[ev["l"]].add(ev["p"])
                args = (ev["l"], ev["p"])
            elif name == "Remove":
                ev["l"] = rng.choice(ls)
                reg[ev["l"]] = set()
                args = (ev["l"],)
            elif name in ("Recv", "Notify", "Send"):
                ev["p"] = rng.choice(ps + ["px"])
                ev["s"] = rng.choice(sizes)
                ev["m"] = ids[0] if ev["s"] == 22 else rng.choice(ids)
                if name == "Recv":
                    ev["i"] = rng.choice(w.ifnames)
                    args = (ev["i"], ev["p"], ev["m"], ev["s"])
                elif name == "Notify":
                    args = (ev["p"], ev["m"], ev["s"])
                else:
                    ev["k"] = rng.choice(kinds)
                    args = (ev["k"], "auto", ev["p"], ev["m"], ev["s"])
            elif name in ("IOpen", "IClose", "ErrorCb"):
                ev["i"] = rng.choice(w.ifnames)
                args = (ev["i"],)
            elif name == "Settle":
                if not any(v == "closing" for v in w.project()["ifs"].values()):
                    continue
                args = ()
            elif name == "Enable":
                ev["p"] = rng.choice(ps)
                ev["b"] = rng.random() < 0.7
                args = (ev["p"], ev["b"])
            else:
                args = ()
            obs = w.step(name, args)
            if name == "Send" and not obs["wire"] and obs["out"] == "dropped":
                more = w.observe_wire(w._last_sent, wait=0.001)      # loopback delivers synchronously; belt and braces
                if more:
                    obs = dict(obs, wire=frozenset(more), out="sent")
            st = w.project()
            if w.problems:
                return {"events": events}, "%s%s: %s" % (name, list(args), w.problems)
            ev.update({"ifs": st["ifs"], "socks": st["socks"], "gen": st["gen"], "pm": st["pm"], "up": st["up"],
                       "down": st["down"], "sentB": st["sentB"], "tracked": sorted(st["tracked"]),
                       "stat": {p: {str(m): v for m, v in per.items()} for p, per in st["stat"].items()},
                       "deliv": obs["deliv"], "wire": sorted(obs["wire"]), "out": obs["out"]})
            events.append(json.loads(json.dumps(ev)))
    finally:
        left = w.teardown()
    if left:
        return {"events": events}, "%d socket(s) stay open after close() and a loop turn" % left
    return {"events": events}, None


def tlc_traces(traces, cfg):
    import json
    tmp = scratch_dir("g08t-")
    try:
        path = os.path.join(tmp, "traces.json")
        with open(path, "w", encoding="utf-8") as f:
            json.dump(traces, f)
        return run_tlc("EndpointStackTrace.tla", cfg, env={"TRACE_FILE": path}, coverage=False, workers=4)
    finally:
        shutil.rmtree(tmp, ignore_errors=True)


def validate_traces(ctx, traces, tag):
    """Fast path: without the ENABLED-based acceptance invariant TLC follows every trace as far as it is a behaviour of the
    specification; all were accepted iff it found one state per event (+ the initial ones).  Only then a second run names
    the trace and the event."""
    expected = sum(len(t["events"]) + 1 for t in traces)
    r = tlc_traces(traces, TRACE_CFG)
    ctx.add_tlc(tag, r)
    if r.ok and r.distinct == expected:
        ctx.traces(len(traces))
        ctx.evaluated(expected - len(traces))
        for t in traces:
            ctx.nontrivial(("trace", tuple((e["a"], e.get("l"), e.get("p"), e.get("i"), e.get("k"), e.get("s")) for e in t["events"])))
        return True
    r2 = tlc_traces(traces, "EndpointStackTrace_locate.cfg")
    if r2.ok:
        raise MachineryError("trace validation: %d states for %d expected, but the locating run accepts everything"
                             % (r.distinct, expected))
    last = r2.error_trace[-1][1] if r2.error_trace else {}
    tid, l = last.get("tid"), last.get("l")
    if not isinstance(tid, int) or not isinstance(l, int):
        # a trace rejected at its first event: TLC prints the initial state without a 'State 1:' header
        tids, ls = re.findall(r"^/\\ tid = (\d+)", r2.output, re.M), re.findall(r"^/\\ l = (\d+)", r2.output, re.M)
        if not tids or not ls:
            raise MachineryError("trace validation: cannot locate the rejected event:\n" + r2.output[-2000:])
        tid, l = int(tids[-1]), int(ls[-1])
    evs = traces[tid - 1]["events"]
    if r2.violated == "TraceAccepted":
        e = evs[l - 1]
        what = "event %d (%s) of a recorded execution is not the %s step of EndpointStack.tla from the state before it" \
               % (l, {k: e[k] for k in ("a", "l", "p", "i", "k", "m", "s", "b") if k in e}, e["a"])
        spec_before = {k: v for k, v in last.items() if k in ("ifs", "gen", "pm", "up", "down", "tracked", "stat", "reg")}
        ctx.violation("trace:%s" % e["a"], what + "; logged after it: %s; specification before it: %s"
                      % ({k: e[k] for k in ("ifs", "gen", "pm", "up", "down", "sentB", "tracked", "deliv", "wire", "out")}, spec_before),
                      {"events": evs[:l], "event_index": l})
    else:
        ctx.violation("trace:inv:%s" % r2.violated, "a recorded execution reaches a state that violates %s at event %s"
                      % (r2.violated, l), {"events": evs[:l], "event_index": l})
    return False


def corrupt(traces, how):
    """A copy of one recorded trace with one deliberately wrong observation."""
    import copy
    for t in traces:
        for idx, e in enumerate(t["events"]):
            if how == "twice" and e["a"] == "Recv" and any(v == 1 for v in e["deliv"].values()):
                bad = copy.deepcopy(t)
                l = sorted(k for k, v in e["deliv"].items() if v == 1)[0]
                bad["events"][idx]["deliv"][l] = 2
                return [bad]
            if how == "ghost-send" and e["a"] == "Send" and e["out"] == "dropped" and e["k"] in ("c4", "t4") \
                    and e["ifs"]["v4"] in ("closing", "closed"):
                bad = copy.deepcopy(t)
                bad["events"][idx]["out"] = "sent"
                bad["events"][idx]["wire"] = ["v4"]
                for later in bad["events"][idx:]:
                    if later["a"] == "Reset" and later is not bad["events"][idx]:
                        break
                    later["up"]["v4"] += e["s"]
                    later["sentB"]["v4"] += e["s"]
                return [bad]
            if how == "stat" and e["a"] == "Recv" and e["ifs"][e["i"]] == "open" and e["s"] > 22 and e["p"] in e["tracked"]:
                bad = copy.deepcopy(t)
                for later in bad["events"][idx:]:
                    if e["p"] not in later["tracked"]:
                        break
                    later["stat"][e["p"]][str(e["m"])]["nd"] += 1
                    later["stat"][e["p"]][str(e["m"])]["bd"] += e["s"]
                return [bad]
    raise MachineryError("no recorded event to corrupt (%s)" % how)


def run_replay(path):
    """Re-executes the stored failing walk: the graph of the stored cfg is generated again, the stored steps are followed
    in it (that yields the specification's states) and executed on a fresh real stack."""
    import json

    from .. import g08_world as gw
    from ..common import jsonable
    with open(path, encoding="utf-8") as f:
        doc = json.load(f)
    obj = doc.get("replay") or {}
    if "steps" not in obj:
        print("this replay file holds no walk: re-run ./check G08 --tier %s with VERIF_SEED=%s" % (doc.get("tier"), doc.get("seed")))
        return run(doc.get("tier", "quick"), int(doc.get("seed", 0)))
    jobs = TlcJobs(1)
    jobs.submit(obj["cfg"], dump=True, workers=4)
    r, g = jobs.get(obj["cfg"])
    if not r.ok:
        raise MachineryError("%s %s: %s" % (MODULE, obj["cfg"], r.violated))
    cur = g.init[0]
    walk = []
    for name, args in obj["steps"]:
        nxt = [e for e in g.out.get(cur, ()) if g.edges[e][1] == name and jsonable(g.edges[e][2]) == args]
        if not nxt:
            raise MachineryError("the stored step %s%s is not in the state graph of %s" % (name, args, obj["cfg"]))
        walk.append(nxt[0])
        cur = g.edges[nxt[0]][3]
    har = gw.Harness()
    try:
        _n, labels, bad = replay_walk(har, obj["kind"], obj["stack"], cfg_consts(obj["cfg"]), g, g.init[0], walk)
    finally:
        har.close()
    if bad:
        print("VIOLATION property=%s replay=%s (still diverges)\n  what: after %s: %s %s"
              % (PID, path, " ".join(labels[-12:]), dict(bad[1]), bad[2]))
        return 1
    print("G08 replay: conforms now")
    return 0


def run(tier, seed, replay=None):
    setup_repo_path()
    if replay:
        return run_replay(replay)
    from .. import g08_world as gw
    ctx = Ctx(PID, tier, seed, "model_checking")
    ctx.cov["rule"] = ("TLC enumerates the interleavings of registration, traffic, life-cycle, loop-turn, reset and statistics "
                       "calls on a stack of 1-2 interfaces; walks covering every edge of the dumped graphs (quick: a seeded "
                       "budget of them) are executed on the real stack - recording interfaces and real UDP sockets on "
                       "loopback, with and without the statistics layer, with and without the dispatcher - and projected "
                       "state + observable outcome compared after every action; non-trivial = distinct (part, walk) pairs")
    ctx.assumptions += ["loopback UDP delivers a datagram that was accepted by sendto (the harness waits for the arrival)",
                        "LAN address discovery (get_lan_addresses) is replaced by a fixed list",
                        "a listener is registered at most once per prefix and not for all traffic and a prefix at once",
                        "datagrams above the MTU / to the null address (asyncio reports them through error_received, "
                        "UDPEndpoint counts them as sent) are not modelled"]
    quick = tier == "quick"
    jobs = TlcJobs(6 if quick else 4)
    for cfg, _want, _what in CONTROLS:
        jobs.submit(cfg, workers=1)
    # (cfg, tag, kind, stack, budget of real operations; None = complete edge cover)
    if quick:
        plan = [("EndpointStack_reg1.cfg", "reg1", "fake", "disp", 60000),
                ("EndpointStack_fan.cfg", "fan", "fake", "disp", 40000),
                ("EndpointStack_statsq.cfg", "stats", "fake", "stats-disp", 40000),
                ("EndpointStack_reg1.cfg", "reg1_transparent", "fake", "stats-disp", 12000),
                ("EndpointStack_udpq.cfg", "udp", "udp", "disp", 12000),
                ("EndpointStack_udp1q.cfg", "udp1_bare", "udp", "bare", None),
                ("EndpointStack_udp1q.cfg", "udp1_transparent", "udp", "stats-bare", 5000),
                ("EndpointStack_statsudpq.cfg", "statsudp", "udp", "stats-disp", 8000),
                ("EndpointStack_statsudpq.cfg", "statsudp_bare", "udp", "stats-bare", 4000)]
        mc_only = []
    else:
        plan = [("EndpointStack_reg1.cfg", "reg1", "fake", "disp", None),
                ("EndpointStack_reg2.cfg", "reg2", "fake", "disp", 200000),
                ("EndpointStack_fan.cfg", "fan", "fake", "disp", 150000),
                ("EndpointStack_statsq.cfg", "statsq", "fake", "stats-disp", 200000),
                ("EndpointStack_stats.cfg", "stats", "fake", "stats-disp", 200000),
                ("EndpointStack_stats2.cfg", "stats2", "fake", "stats-disp", 100000),
                ("EndpointStack_statsreg.cfg", "statsreg", "fake", "stats-disp", 100000),
                ("EndpointStack_reg1.cfg", "reg1_transparent", "fake", "stats-disp", 60000),
                ("EndpointStack_reg1.cfg", "reg1_bare", "fake", "bare", 60000),
                ("EndpointStack_udp.cfg", "udp", "udp", "disp", 150000),
                ("EndpointStack_udp1.cfg", "udp1", "udp", "disp", 60000),
                ("EndpointStack_udp1.cfg", "udp1_bare", "udp", "bare", 150000),
                ("EndpointStack_udp1.cfg", "udp1_transparent", "udp", "stats-bare", 60000),
                ("EndpointStack_udp.cfg", "udp_transparent", "udp", "stats-disp", 60000),
                ("EndpointStack_statsudpq.cfg", "statsudp", "udp", "stats-disp", 100000),
                ("EndpointStack_statsudpq.cfg", "statsudp_bare", "udp", "stats-bare", 60000),
                ("EndpointStack_statsudp.cfg", "statsudp2", "udp", "stats-disp", 60000),
                ("EndpointStack_statsudp.cfg", "statsudp2_bare", "udp", "stats-bare", 60000)]
        mc_only = ["EndpointStack_big.cfg", "EndpointStack_big2.cfg"]
    for cfg in dict.fromkeys(p[0] for p in plan):
        jobs.submit(cfg, dump=True)
    for cfg in ("EndpointStack_fan.cfg", "EndpointStack_reg1.cfg", "EndpointStack_statsq.cfg", "EndpointStack_udp1q.cfg"):
        jobs.submit(cfg, dump=True)         # the graphs of the binding controls
    for cfg in mc_only:
        jobs.submit(cfg, workers=4, timeout=3000)

    for cfg, want, what in CONTROLS:
        r, _ = jobs.get(cfg)
        ctx.control("spec: " + what, r.violated in want)

    har = gw.Harness()
    try:
        # every part runs (the parts look at different classes); a part stops at its first divergence
        for i, (cfg, tag, kind, stack, budget) in enumerate(plan):
            replay_graph(ctx, har, jobs, cfg, tag, kind, stack, budget, seed_off=i)
        for cfg in mc_only:
            check_model(ctx, jobs, cfg, cfg[len("EndpointStack_"):-4], cfg_consts(cfg))
        ctx.cov["exhaustive"] = True       # TLC explores the complete state space of every configuration in both tiers
        # ---- binding T
        rng = random.Random(seed)
        traces, trouble = [], None
        for _ in range(12 if quick else 80):
            t, trouble = record_trace(har, rng, 250)
            if trouble:
                ctx.violation("trace:world", "recorded execution of the full stack: " + trouble, t)
                break
            traces.append(t)
        if traces and not trouble:
            ok = validate_traces(ctx, traces, "trace")
            acts = {}
            for t in traces:
                for e in t["events"]:
                    acts[e["a"]] = acts.get(e["a"], 0) + 1
            ctx.note("traces", {"recorded": len(traces), "events": sum(acts.values()), "by_action": acts,
                                "sends_that_left": sum(1 for t in traces for e in t["events"] if e["a"] == "Send" and e["wire"]),
                                "datagrams_served": sum(1 for t in traces for e in t["events"]
                                                        if e["a"] == "Recv" and sum(e["deliv"].values()))})
            if ok:
                ctx.sample({"part": "trace", "first_events": [{k: e[k] for k in ("a", "l", "p", "i", "k", "m", "s", "b", "out", "wire", "deliv") if k in e}
                                                              for e in traces[0]["events"][:10]]})
                ctls = [("twice", "a listener notified twice for one datagram is rejected"),
                        ("ghost-send", "a datagram that left through a closed interface is rejected"),
                        ("stat", "a received message counted twice by the statistics is rejected")]
                futs = [(what, jobs.pool.submit(tlc_traces, corrupt(traces, how), "EndpointStackTrace_locate.cfg"))
                        for how, what in ctls]
                for what, fut in futs:
                    ctx.control("trace: " + what, not fut.result().ok)
        if not ctx.violations:
            binding_control(ctx, har, jobs, "EndpointStack_fan.cfg", "fake", "disp", sab_broadcast,
                            "a dispatcher that sends through every open interface is caught")
            binding_control(ctx, har, jobs, "EndpointStack_reg1.cfg", "fake", "disp", sab_deaf_remove,
                            "a stack whose remove_listener does nothing is caught")
            binding_control(ctx, har, jobs, "EndpointStack_statsq.cfg", "fake", "stats-disp", sab_count_twice,
                            "statistics that count a received message twice are caught")
            binding_control(ctx, har, jobs, "EndpointStack_udp1q.cfg", "udp", "bare", sab_keep_counting,
                            "a UDP endpoint that keeps serving datagrams after close() is caught")
        left = gw.count_socket_fds() - har.baseline
        if left > 0 and not ctx.violations:
            ctx.violation("leak:sockets", "%d socket descriptor(s) of the process stay open after every stack was closed" % left,
                          {"left": left})
        ctx.note("socket_descriptors_left", left)
        ctx.note("udp_port_fallbacks_exercised", har.port_fallbacks)
    finally:
        har.close()
        jobs.pool.shutdown(wait=False, cancel_futures=True)
    return ctx.finish()
