"""C09 - tunnel state is always reclaimed, whatever gets lost.
Onion.tla with its discrete clock model-checked (loss, abandonment, relay/exit initiated teardown); fault enumeration on
real nodes under the virtual clock: circuits of 1..3 hops, teardown by every party at every phase, every subset (up to
2, thorough 3) of the control messages lost, time advanced past the bound; every run validated by TLC, which evaluates
Reclaimed in every state and Quiet (+ all outside sockets closed) at the deadline."""
from __future__ import annotations

import itertools

from ..common import Ctx, setup_repo_path
from .. import onion_check as K
from .. import onion_runs as R

PID = "C09"
NONTRIVIAL = {"Lose", "Vanish", "NodeRemoveRelay", "NodeRemoveExit", "RemoveCircuit", "ExpectQuiet"}
BOUND_MS = 20000 + 5000 + 5000          # max_time_inactive + sweep interval + remove_tunnel_delay
BUILD_MS = 6 * 10000                    # retry budget of a half-built circuit: circuit_timeout


def is_control(w, d):
    x = d.data
    if len(x) > 22 and x[22] == 8:
        return True                      # destroy
    return len(x) > 29 and x[22] == 0 and x[27] != 0 and x[29] in (2, 3) or \
        (len(x) > 29 and x[22] == 0 and x[27] == 0 and w.measure_depth(x[29:]) > 0 and False)


def scenario(ctx, seed, goal, phase, party, lose, record_controls=None, dups=()):
    """phase: 'half' (stop when hop 1 joined) | 'ready' | 'transfer'; party: who tears down ('o-destroy', 'o-quiet',
    'o-vanish', 'relay', 'exit'); lose: set of ordinal numbers of control messages (created/create/destroy and every
    cell sent after the teardown started) that are dropped instead of delivered"""
    w = R.world("line4", seed)
    try:
        # how the exit's outside sockets come into existence: both at once / only the first (the second is still being
        # opened when the teardown arrives) / not at all before the teardown
        w.transport_mode = ("auto", "half", "hold")[seed % 3]
        if seed % 2 == 1:
            # the exit also wants circuits of its own but knows no exit it could use: its do_circuits fails every round
            # (the periodic sweep must run nevertheless)
            w.loop.call(w.ov["x"].build_tunnels, 1)
            w.loop.drain()
        k = 0            # ordinal of lossable messages
        torn = [False]
        lossable = []

        def pump(limit=400):
            nonlocal k
            n = 0
            while w.net.inflight and n < limit:
                d = w.net.inflight[0]
                x = d.data
                ctrl = (len(x) > 22 and x[22] == 8) or (len(x) > 29 and x[22] == 0 and x[27] != 0) or \
                       (len(x) > 29 and x[22] == 0 and w.describe(d)["dst"] == "o" and not torn[0]) or torn[0]
                if ctrl:
                    k += 1
                    lossable.append(k)
                    if k in lose:
                        w.lose(d.seq)
                        n += 1
                        continue
                    if k in dups:
                        w.dup(d.seq)          # the copy is delivered right behind the original (it is not numbered)
                        twin = w.net.inflight[-1]
                        w.deliver(d.seq)
                        w.deliver(twin.seq)
                        n += 2
                        continue
                w.deliver(d.seq)
                n += 1
        w.create_circuit("o", goal)
        if seed % 4 == 3:
            # the application gave up waiting for this circuit: the future it was handed is cancelled (valid API use)
            w.cancel_ready("o", 1)
        if phase == "half":
            # let exactly the first hop join, then stop delivering to the originator's next extend
            for _ in range(2):
                if w.net.inflight:
                    d = w.net.inflight[0]
                    k += 1
                    lossable.append(k)
                    if k in lose:
                        w.lose(d.seq)
                    elif k in dups:
                        w.dup(d.seq)
                        twin = w.net.inflight[-1]
                        w.deliver(d.seq)
                        w.deliver(twin.seq)
                    else:
                        w.deliver(d.seq)
        else:
            pump()
        cid = 1
        if phase == "transfer" and any(c["cid"] == cid and not c["closing"] and len(c["hops"]) == goal
                                       for c in w.project()["circ"]["o"]):
            w.send_data("o", cid, 1)
            for _ in range(goal - 1 if goal > 1 else 0):
                if w.net.inflight:
                    w.deliver(w.net.inflight[0].seq)        # data is in the middle of the path
        if phase == "half" and party in ("relay", "exit"):
            # a joined node that tears down while the originator's next extend is still in flight would simply be
            # re-joined by that extend (its exit entry lives on for remove_tunnel_delay): the torn-down case is the one
            # where that extend does not arrive
            for d in list(w.net.inflight):
                w.lose(d.seq)
        torn[0] = True
        t_down = w.now_ms()
        built = any(c.state == "READY" for c in w.ov["o"].circuits.values())
        if party == "o-destroy":
            if w.ov["o"].circuits:
                w.remove_circuit("o", cid, True)
        elif party == "o-quiet":
            if w.ov["o"].circuits:
                w.remove_circuit("o", cid, False)
        elif party == "o-vanish":
            w.vanish("o")
        elif party == "relay":
            st = w.project()
            done = False
            for n in w.names:
                if st["relay"][n]:
                    w.node_remove_relay(n, st["relay"][n][0]["cid"])
                    done = True
                    break
            if not done:
                for n in w.names:
                    if st["exit"][n]:
                        w.node_remove_exit(n, st["exit"][n][0]["cid"])
                        break
        elif party == "nobody":
            pass            # nobody tears anything down: the circuit is simply left to the lost messages and the timers
        elif party == "exit":
            st = w.project()
            for n in reversed(w.names):
                if st["exit"][n]:
                    w.node_remove_exit(n, st["exit"][n][-1]["cid"])
                    break
        pump()
        # time passes: every timer fires in order; whatever is sent is delivered unless it is in the loss set
        # a circuit that is not ready when it is abandoned may use its whole retry budget before the limits apply
        # time passes until everything is quiet - at the very latest 2 x (inactivity + sweep + delay) after the teardown
        # (+ the retry budget of a circuit that was not ready yet): the entries in front of a lost destroy keep being
        # refreshed by the originator's pings until its own circuit has timed out. The exact, activity-based bound is the
        # invariant Reclaimed, which TLC evaluates in every state of the run.
        cap = t_down + 2 * BOUND_MS + (0 if built else BUILD_MS) + 15000

        def quiet():
            others = [n for n in w.names if not (party == "o-vanish" and n == "o")]
            return all(w._idle(n) for n in others) and all(w.open_transports(n) == 0 for n in others)
        for _ in range(6000):
            pump()
            if quiet() and not w.net.inflight:
                break
            if party == "nobody" and w.now_ms() > t_down + 45000 and \
                    any(c.state == "READY" for c in w.ov["o"].circuits.values()):
                break           # nothing essential was lost: the circuit lives on
            ts = w.loop.timers()
            if not ts or int(round((ts[0]._when - w.t0) * 1000)) > cap:
                break
            w.fire_next_timer()
        alive = any(c.state == "READY" for c in w.ov["o"].circuits.values())
        if party == "nobody" and alive:
            pass            # nobody tore down and what was lost did not matter: the circuit is alive and kept alive
        elif party == "o-vanish":
            if w.now_ms() > w.last_tick_ms:
                w._emit_tick()
            w.log("ExpectQuietOthers", n="o")
        else:
            w.expect_quiet()
        tr = {"events": w.events, "topology": "line4", "seed": seed,
              "profile": "g%d %s %s lose=%s%s" % (goal, phase, party, sorted(lose), " dup=%s" % sorted(dups) if dups else "")}
        K.check_escapes(ctx, w, tr, "fault-enum")
        if record_controls is not None:
            record_controls.append(len(lossable))
        return tr, w.header()
    finally:
        w.close()


def run(tier, seed, replay=None):
    setup_repo_path()
    ctx = Ctx(PID, tier, seed, "fault_enumeration")
    ctx.cov["rule"] = ("for hop counts 1..3 x phase (half-built, ready, mid-transfer) x tearing-down party (originator with and "
                       "without destroy, originator vanishing, relay, exit) a loss-free reference run numbers the control "
                       "messages; every subset of them up to size 2 (thorough 3, sampled beyond 250 per cell) is dropped in a "
                       "fresh run of the real nodes under the virtual clock, time advanced past max_time_inactive + sweep + "
                       "remove_tunnel_delay (+ retry budget); TLC validates each run against Onion.tla and evaluates Reclaimed "
                       "in every state and Quiet + closed outside sockets at the deadline; non-trivial = distinct runs with a loss "
                       "or a teardown")
    if replay and K.replay_file(ctx, PID, replay, NONTRIVIAL):
        return ctx.finish()
    ctx.assumptions += ["bounds derive from the default settings actually in force (20 s inactivity, 5 s sweep, 5 s delay, 6 x 10 s "
                        "retry budget); max_time (1 h) is the last resort the statement allows and is not reached",
                        "a vanished originator's own tables are not required to empty (it is gone)"]
    bg = K.Background(["Onion_c09_q.cfg", "Onion_c09_join.cfg"] + (["Onion_c09.cfg"] if tier == "thorough" else []),
                      [("Onion_c09_noreclaim.cfg", "Reclaimed", "spec whose sweep skips relay entries violates Reclaimed")])
    import random
    rng = random.Random(seed)
    runs, hdr = [], None
    maxf = 2 if tier == "quick" else 3
    cap = 2 if tier == "quick" else 250
    parties = ("o-destroy", "o-quiet", "o-vanish", "relay", "exit")
    cells = [(g, ph, pa) for g in (1, 2, 3) for ph in ("half", "ready", "transfer") for pa in parties]
    cells += [(g, "half", "nobody") for g in (1, 2, 3)]
    if tier == "quick":
        # every hop count; the parties rotate with the seed over the phases, the loss-only cells are always there
        keep = []
        for gi, g in enumerate((1, 2, 3)):
            keep.append((g, "half", "nobody"))
            for pi, ph in enumerate(("half", "ready", "transfer")):
                keep.append((g, ph, parties[(gi + pi + seed) % 5]))
            keep.append((g, "ready", "exit" if g > 1 else "o-quiet"))
        cells = [c for c in cells if c in keep]
    enumerated = 0
    ctrl_counts = {}
    for ci, (g, ph, pa) in enumerate(cells):
        counts = []
        tr, hdr = scenario(ctx, seed * 1000 + ci, g, ph, pa, set(), counts)
        if pa != "nobody":
            runs.append(tr)
        ncontrol = counts[0]
        ctrl_counts[(g, ph, pa)] = ncontrol
        # every single loss always; larger sets up to the cap
        sets = [(i,) for i in range(1, ncontrol + 1)]
        more = [s for f in range(2, maxf + 1) for s in itertools.combinations(range(1, ncontrol + 1), f)]
        if len(more) > cap:
            more = rng.sample(more, cap)
        for s in sets + more:
            tr, hdr = scenario(ctx, seed * 1000 + ci, g, ph, pa, set(s))
            runs.append(tr)
            enumerated += 1
    # duplicated control messages (each single one), alone and followed by the loss of a later one: for the cells in which
    # a circuit is left half-built or abandoned
    ndup = 0
    for ci, (g, ph, pa) in enumerate(cells):
        if pa not in ("nobody", "o-quiet", "o-vanish") or g < 2:
            continue
        n_ctrl = ctrl_counts.get((g, ph, pa), 0)
        pairs = [((d,), ()) for d in range(1, n_ctrl + 1)] + [((d,), (l,)) for d in range(1, n_ctrl + 1) for l in range(d + 1, n_ctrl + 1)]
        if len(pairs) > (4 if tier == "quick" else 60):
            pairs = rng.sample(pairs, 4 if tier == "quick" else 60)
        for d, l in pairs:
            tr, hdr = scenario(ctx, seed * 1000 + 500 + ci, g, ph, pa, set(l), dups=set(d))
            runs.append(tr)
            ndup += 1
    ctx.note("duplicate_enumeration", {"runs": ndup})
    ctx.note("fault_enumeration", {"cells": len(cells), "fault_sets": enumerated, "runs": len(runs),
                                   "events": sum(len(t["events"]) for t in runs)})
    # validate in batches (one JVM per ~150 runs)
    for i in range(0, len(runs), 150):
        K.validate_family(ctx, PID, runs[i:i + 150], "line4", hdr, "fault-enum[%d]" % (i // 150), NONTRIVIAL,
                          track_wire=False)
    if runs and not ctx.violations:
        K.trace_control(ctx, "run whose relay entry is still there at the deadline is rejected", [runs[0]], "line4", hdr,
                        _leak_relay)
    # random reclaim profile incl. lowered limits (public settings): join limit and relay_early budget
    base = seed * 1000
    K.random_family(ctx, PID, "line4", "reclaim", range(base, base + (3 if tier == "quick" else 12)),
                    260 if tier == "quick" else 600, NONTRIVIAL)
    K.random_family(ctx, PID, "two_origins", "lossy", range(base, base + (2 if tier == "quick" else 8)), 260, NONTRIVIAL,
                    settings={"max_joined_circuits": 2, "max_relay_early": 3}, max_joined=2, max_early=3)
    # the join limit at its boundary: exactly `limit` entries, then one more create
    for limit in ((1, 2) if tier == "quick" else (1, 2, 3, 4)):
        lim = []
        for goal in (1, 2):
            tr, hdr_l = join_limit(ctx, seed * 50 + limit * 3 + goal, limit, goal)
            lim.append(tr)
        K.validate_family(ctx, PID, lim, "two_origins", hdr_l, "join-limit %d" % limit, NONTRIVIAL | {"CreateCircuit"},
                          max_joined=limit)
    bg.collect(ctx)
    return ctx.finish()


def join_limit(ctx, seed, limit, goal):
    """the two originators fill the only exit up to its limit, ask for more (refused), free one entry (accepted again)"""
    w = R.world("two_origins", seed, settings={"max_joined_circuits": limit})
    try:
        def settle(ms):
            w.run_until(w.now_ms() + ms)
        made = []
        for i in range(limit + 2):
            o = ("o", "o2")[i % 2]
            ev = w.create_circuit(o, goal)
            if ev is not None:
                made.append((o, max(c["cid"] for c in ev["post"]["circ"][o])))
            settle(3000)
        peak = max(len(w.ov[n].relay_from_to) + len(w.ov[n].exit_sockets) for n in w.names)
        ctx.note("join_limit_peak_%d_g%d" % (limit, goal), peak)
        ready = [(o, c) for o, c in made if w.real_cid(c) in w.ov[o].circuits and w.ov[o].circuits[w.real_cid(c)].state == "READY"]
        if ready:
            o, c = ready[0]
            w.remove_circuit(o, c, True)
            settle(12000)
            w.create_circuit("o2" if o == "o" else "o", goal)
            settle(12000)
        tr = {"events": w.events, "topology": "two_origins", "seed": seed, "profile": "join-limit %d g%d" % (limit, goal)}
        K.check_escapes(ctx, w, tr, "join-limit")
        return tr, w.header()
    finally:
        w.close()


def _leak_relay(t):
    ev = t["events"][-1]
    ev["post"]["relay"]["r1"] = [{"cid": 1, "to": 2, "next": "r2", "dir": "F", "early": 1}]
    for e in t["events"][-1:]:
        e["a"] = "ExpectQuiet"
