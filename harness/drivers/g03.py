"""G03 - attestation wallet overlay (ipv8/attestation/wallet/community.py + caches.py): model checking of
specs/WalletProtocol.tla (request / chunk transfer / verification / challenge state machine with a lossy, duplicating network,
cache time-outs in deadline order and an authenticated adversarial peer) and conformance of the real AttestationCommunity:

 R  every transition of the dumped state graphs (quick: a seeded sample beyond a budget) is executed on real overlays under the
    step-mode loop and the manual simulated network; after every action the projection of the real objects (all four cache
    classes with their armed timers, allowed_attestations, the sqlite table, cached blobs, suspended callbacks, each proving
    cache's aggregate / remaining challenges / callback results, every datagram in flight decoded from its bytes, Lamport
    clocks) must equal the TLC state.  TLC -simulate behaviours of a 12 bit-pair attestation cover the challenge window.
 T  seeded random schedules of the same overlays with the shipped id_metadata (Boneh, 16 bit-pairs, 2 chunks) algorithm and with
    the transparent stub algorithm are recorded and validated by TLC against specs/WalletProtocolTrace.tla (fast path: state
    count; ENABLED only to locate a failure)."""
from __future__ import annotations

import os
import random
import shutil
import time

from ..common import Ctx, setup_repo_path
from ..replay import diff_states, edge_cover
from ..tlc import MachineryError, parse_dot, parse_simulate_file, run_tlc, scratch_dir, to_tla

PID = "G03"
INVS = ["StoredIntact", "ChunkIsolation", "VerifyOnce", "ResultConsistent", "ConsentGiven", "CachesSane", "DbAppendOnly"]

PRE = {"NoPre": [], "PreOwn2": [dict(owner=2, by=2, ans=[1, 2])],
       "PreAdv": [dict(owner=2, by=2, ans=[1, 2]), dict(owner=3, by=3, ans=[1, 1])],
       "PreAdvOnly": [dict(owner=3, by=3, ans=[1, 1])],
       "PreOwn12": [dict(owner=2, by=2, ans=[1, 2, 0, 1, 1, 2, 0, 0, 1, 2, 1, 0])]}
# replayed graphs: cfg -> (node ids, adversarial ids, Pre, attribute values the verifier asks about)
GRAPHS = {
    "req_g": ([1, 2], [], "NoPre", None),
    "req_adv_g": ([1, 2, 3], [3], "PreAdv", None),
    "ver_g": ([1, 2], [], "PreOwn2", [[1, 2]]),
    "ver_h_g": ([1, 2], [], "PreOwn2", [[1, 2]]),
    "ver_to_g": ([1, 2], [], "PreOwn2", [[1, 2]]),
    "ver_adv_g": ([1, 3], [3], "PreAdvOnly", [[1, 1]]),
    "req_q_g": ([1, 2], [], "NoPre", None),
    "req_adv_q_g": ([1, 2, 3], [3], "PreAdv", None),
    "ver_q_g": ([1, 2], [], "PreOwn2", [[1, 2]]),
    "window_sim": ([1, 2], [], "PreOwn12", [[1, 2, 0, 1, 1, 2, 0, 0, 1, 2, 1, 0]]),
}
ACTIONS = ["RequestAttestation", "OnRequest", "AttestAnswer", "OnChunk", "Verify", "OnVerifyRequest", "Consent",
           "OnChallenge", "OnResponse", "ReqTimeout", "VerTimeout", "ProvTimeout", "PendTimeout", "Tick", "Drop", "AdvSend"]
COV_NAME = {"RequestStep": "RequestAttestation", "OnRequestStep": "OnRequest", "AttestStep": "AttestAnswer",
            "OnChunkStep": "OnChunk", "VerifyStep": "Verify", "OnVerifyReqStep": "OnVerifyRequest", "ConsentStep": "Consent",
            "OnChallengeStep": "OnChallenge", "OnResponseStep": "OnResponse", "ReqTimeoutStep": "ReqTimeout",
            "VerTimeoutStep": "VerTimeout", "ProvTimeoutStep": "ProvTimeout", "PendTimeoutStep": "PendTimeout",
            "TickStep": "Tick", "DropStep": "Drop", "AdvStep": "AdvSend"}


def classify(act, diff, world):
    """stable signature of a divergence between the real overlay and the specification"""
    name = act[0]
    keys = ",".join(sorted(diff))
    if name == "OnResponse" and ("ver" in diff or "pendC" in diff or "net" in diff or "provC" in diff):
        d = diff.get("ver")
        if d:
            ns = [len(v["results"]) for v in d["spec"]]
            ni = [len(v["results"]) for v in d["impl"]]
            if ni != ns:
                return "G03-1:completion-callback-repeated"
        return "G03-1:late-response-processed"
    return "replay:%s:%s" % (name, keys)


def jsonable_act(act):
    return [dict(x) if isinstance(x, dict) else (list(x) if isinstance(x, tuple) else x) for x in act]


# ---------------------------------------------------------------------------------------------------------------------
# binding R
# ---------------------------------------------------------------------------------------------------------------------
def make_world(cfgkey):
    from ..g03_world import World
    ids, adv, pre, values = GRAPHS[cfgkey]
    return World(ids, adv=adv, pre=PRE[pre], nchunks=2, values=values)


def run_walk(ctx, cfgkey, states_of, walk_acts, tag, seen_actions):
    """walk_acts: [(act tuple, spec state after)]; -> number of real operations"""
    from ..g03_world import Divergence, norm_spec
    w = make_world(cfgkey)
    n = 0
    labels = []
    try:
        d = diff_states(norm_spec(states_of, w.ids), w.project())
        if d:
            raise MachineryError("G03 %s: the harness cannot establish the initial state: %s" % (cfgkey, d))
        for act, st in walk_acts:
            labels.append(jsonable_act(act))
            try:
                w.apply(act[0], act[1:])
                d = diff_states(norm_spec(st, w.ids), w.project())
            except Divergence as e:
                d = {"harness": {"spec": "action executable", "impl": "%s (%s)" % (e, e.sig)}}
            n += 1
            seen_actions.add(act[0])
            if d:
                sig = classify(act, d, w)
                ctx.violation(sig, "real AttestationCommunity diverges from WalletProtocol.tla (%s) after %s: %s"
                              % (cfgkey, act[0], {k: v for k, v in d.items()}),
                              {"kind": "graph", "cfgkey": cfgkey, "cfg": "WalletProtocol_%s.cfg" % cfgkey, "actions": labels,
                               "diff": {k: repr(v) for k, v in d.items()}, "swallowed": w.swallowed})
                break
    finally:
        w.close()
    return n


def replay_graph(ctx, cfgkey, max_ops, seen_actions):
    tmp = scratch_dir("g03-")
    try:
        dot = os.path.join(tmp, "g.dot")
        # one worker for the small graphs: the dump (and with it the seeded sample of walks) is then deterministic
        r = run_tlc("WalletProtocolL.tla", "WalletProtocol_%s.cfg" % cfgkey, dump=dot, coverage=False,
                    workers=1 if cfgkey not in ("req_g", "req_adv_g", "ver_g") else None)
        if not r.ok:
            raise MachineryError("WalletProtocol_%s: TLC reports %s on the specification itself" % (cfgkey, r.violated))
        ctx.add_tlc(cfgkey, r)
        g = parse_dot(dot)
    finally:
        shutil.rmtree(tmp, ignore_errors=True)
    nwalks = nops = 0
    covered = set()
    t0 = time.monotonic()
    for init, walk in edge_cover(g, max_ops=max_ops, seed=ctx.seed):
        acts = [(g.states[g.edges[ei][3]]["act"], g.states[g.edges[ei][3]]) for ei in walk]
        nops += run_walk(ctx, cfgkey, g.states[init], acts, cfgkey, seen_actions)
        covered.update(walk)
        nwalks += 1
        ctx.nontrivial((cfgkey, tuple(walk)))
        if nwalks == 1:
            ctx.sample({"graph": cfgkey, "actions": [jsonable_act(a)[:1] + [str(x)[:80] for x in a[1:]] for a, _ in acts]})
        if ctx.violations:
            break
    ctx.evaluated(nops)
    ctx.traces(nwalks)
    ctx.note("replay_" + cfgkey, {"walks": nwalks, "real_operations": nops, "graph_states": len(g.states),
                                  "graph_edges": len(g.edges), "edges_covered": len(covered),
                                  "complete_edge_cover": len(covered) == len(g.edges),
                                  "wall_s": round(time.monotonic() - t0, 1)})


def replay_simulate(ctx, cfgkey, num, depth, seen_actions):
    tmp = scratch_dir("g03s-")
    try:
        base = os.path.join(tmp, "sim")
        r = run_tlc("WalletProtocolL.tla", "WalletProtocol_%s.cfg" % cfgkey, simulate="file=%s,num=%d" % (base, num),
                    depth=depth, seed=ctx.seed + 1, workers=1, coverage=False)
        if r.violated:
            raise MachineryError("WalletProtocol_%s (simulate): TLC reports %s" % (cfgkey, r.violated))
        files = sorted(f for f in os.listdir(tmp) if f.startswith("sim"))
        behaviours = [parse_simulate_file(os.path.join(tmp, f)) for f in files]
    finally:
        shutil.rmtree(tmp, ignore_errors=True)
    if not behaviours:
        raise MachineryError("TLC -simulate produced no behaviour for %s" % cfgkey)
    nops = windowed = completed = 0
    for beh in behaviours:
        acts = [(st["act"], st) for _l, _a, st in beh[1:]]
        nops += run_walk(ctx, cfgkey, beh[0][2], acts, cfgkey, seen_actions)
        ctx.nontrivial((cfgkey, tuple(repr(a) for a, _ in acts)))
        last = beh[-1][2]
        if any(len(v["results"]) for v in last["ver"]):
            completed += 1
        if any(a[0] == "OnResponse" and any(m["t"] == "chal" and m["ch"][0] == 1 and m["ch"][2] > 10 for m in st["net"])
               for a, st in acts):
            windowed += 1
        if ctx.violations:
            break
    if not ctx.violations and not windowed:
        raise MachineryError("no simulated behaviour reached a challenge beyond the first window (vacuous)")
    ctx.evaluated(nops)
    ctx.traces(len(behaviours))
    ctx.note("simulate_" + cfgkey, {"behaviours": len(behaviours), "real_operations": nops,
                                    "behaviours_sending_challenges_beyond_the_window": windowed,
                                    "behaviours_completing_the_verification": completed})


# ---------------------------------------------------------------------------------------------------------------------
# binding T
# ---------------------------------------------------------------------------------------------------------------------
def boneh_answers(world, blob):
    """honest per-challenge answers of a Boneh attestation (labels the blob for the specification; needs the one-time key
    the harness itself generated for the request)"""
    ov = world.ov[world.honest()[0]]
    alg = ov.get_id_algorithm(world.fmt)
    att = alg.get_attestation_class().unserialize(blob, world.fmt)
    k = world.pk_id.get(att.PK.serialize())
    if k is None:
        raise MachineryError("attestation for a key the harness does not know")
    sk = world.sk_obj[k]
    return [alg.create_challenge_response(sk, att, c)[0] for c in alg.create_challenges(att.PK, att)]


def exec_action(w, fmt, name, args, rng):
    """one action on the real overlays; -> the arguments as the specification sees them"""
    nblobs = len(w.blob)
    if name == "AttestAnswer" and fmt != "g03_stub" and len(args[2]):
        # the real algorithm attests a byte string; the specification's value is its vector of honest answers
        if args[1] > len(w.askA[args[0]]):
            from ..g03_world import Divergence
            raise Divergence("no-ask", "no suspended attestation request %d at node %d" % (args[1], args[0]))
        a = w.askA[args[0]].pop(args[1] - 1)
        w.loop.call(a["fut"].set_result, rng.choice(w.boneh_values))
        w.loop.drain()
        w._absorb()
        if len(w.blob) != nblobs + 1:
            raise MachineryError("attesting did not produce exactly one new blob")
        return (args[0], args[1], tuple(boneh_answers(w, w.blob[nblobs + 1])))
    w.apply(name, args)
    if name == "OnResponse" and not w.hc_consulted:
        return (args[0], args[1], -1)
    return tuple(args)


def from_json(x):
    from ..tlc import FrozenDict
    if isinstance(x, dict):
        return FrozenDict({k: from_json(v) for k, v in x.items()})
    if isinstance(x, list):
        return tuple(from_json(v) for v in x)
    return x


def record_trace(rng, fmt, steps, profile):
    """one seeded random schedule on three real overlays; -> (events, values, ticks)"""
    from ..g03_world import World
    w = World([1, 2, 3], adv=[3] if profile.get("adv") else [], pre=[], nchunks=2, fmt=fmt,
              values=[[1, 2], [0, 0]] if fmt == "g03_stub" else None)
    w.boneh_values = [b"val", b"other"]
    if fmt != "g03_stub":
        w.raw_values = w.boneh_values
    events, values, ticks = [], set(), set()
    nreq = nver = ndup = ndrop = nto = nadv = 0
    blob_ans = {}
    try:
        def post():
            return w.project()

        def log(name, args):
            events.append({"name": name, "a": tuple(args), "post": post()})
        for _step in range(steps):
            st = w.project()
            opts = []
            honest = w.honest()
            if nreq < profile["req"]:
                n = rng.choice(honest)
                p = rng.choice([x for x in w.ids if x != n and x not in w.adv])
                opts.append((3 if nreq == 0 else 1, ("RequestAttestation", (n, p))))
            if nver < profile["ver"]:
                cands = []
                for oi, o in enumerate(w.ids):
                    for (h, _k) in st["db"][oi]:
                        for n in honest:
                            ni = w.ids.index(n)
                            if n != o and not any(c["h"] == h for c in st["provC"][ni]) and \
                                    not any(c["h"] == h for c in st["verC"][ni]):
                                cands.append((n, o, h))
                if cands:
                    opts.append((2, ("Verify", rng.choice(cands))))
            for m in sorted(st["net"], key=lambda m: (m["src"], m["gt"], m["seq"], m["t"], m["r"], m["data"])):
                keep = ndup < profile["dup"] and rng.random() < 0.05
                name = {"req": "OnRequest", "chunk": "OnChunk", "vreq": "OnVerifyRequest", "chal": "OnChallenge",
                        "resp": "OnResponse"}[m["t"]]
                if name == "OnResponse":
                    hc = rng.choice([0, 1, 2]) if rng.random() < profile["honesty"] else -1
                    opts.append((4, (name, (m, keep, hc))))
                else:
                    opts.append((4, (name, (m, keep))))
                if ndrop < profile["drop"] and rng.random() < 0.04:
                    opts.append((1, ("Drop", (m,))))
            for n in honest:
                ni = w.ids.index(n)
                for i in range(1, len(st["askA"][ni]) + 1):
                    val = () if rng.random() < 0.1 else tuple(rng.choice([[1, 2], [0, 0]]))
                    opts.append((4, ("AttestAnswer", (n, i, val))))
                for i in range(1, len(st["askV"][ni]) + 1):
                    opts.append((4, ("Consent", (n, i, rng.random() < 0.85))))
            dls = [(c["dl"], kind, n, c) for ni, n in enumerate(w.ids) for kind in ("reqC", "verC", "provC", "pendC")
                   for c in st[kind][ni]]
            if dls and nto < profile["to"]:
                mn = min(d[0] for d in dls)
                first = sorted([d for d in dls if d[0] == mn], key=lambda d: (d[1], d[2], repr(sorted(d[3].items()))))
                dl, kind, n, c = rng.choice(first)
                args = {"reqC": lambda: ("ReqTimeout", (n, c["peer"], c["gt"])), "verC": lambda: ("VerTimeout", (n, c["h"])),
                        "provC": lambda: ("ProvTimeout", (n, c["h"])), "pendC": lambda: ("PendTimeout", (n, c["ch"]))}[kind]()
                opts.append((0.15 if len(opts) > 1 else 5, args))
                if mn - st["now"] > 5 and rng.random() < 0.05:
                    opts.append((0.5, ("Tick", (5,))))
            if w.adv and nadv < profile["advmsgs"]:
                a = 3
                for ni, n in enumerate(w.ids):
                    if n in w.adv:
                        continue
                    for c in st["verC"][ni]:
                        i = rng.randrange(2)
                        opts.append((0.3, ("AdvSend", (w_msg("chunk", a, n, 0, h=c["h"], seq=i, data=i + 1),))))
                    for c in st["reqC"][ni]:
                        i = rng.randrange(2)
                        for v in st["verC"][ni]:
                            opts.append((0.3, ("AdvSend", (w_msg("chunk", a, n, c["gt"], h=v["h"], seq=i, data=i + 1),))))
                    for (h, _k) in st["db"][ni]:
                        opts.append((0.2, ("AdvSend", (w_msg("chal", a, n, 0, h=h, ch=(2, 0, 1)),))))
            if not opts:
                break
            total = sum(o[0] for o in opts)
            x = rng.random() * total
            for wt, (name, args) in opts:
                x -= wt
                if x <= 0:
                    break
            if name == "AdvSend" and args[0] in st["net"]:
                continue
            args = exec_action(w, fmt, name, args, rng)
            if name == "AttestAnswer" and len(args[2]):
                values.add(tuple(args[2]))
            nreq += name == "RequestAttestation"
            nver += name == "Verify"
            ndrop += name == "Drop"
            nto += name.endswith("Timeout")
            nadv += name == "AdvSend"
            if name.startswith("On") and args[1]:
                ndup += 1
            if name == "Tick":
                ticks.add(args[0])
            log(name, args)
        summary = {"events": len(events), "results": [[r[0] for r in rs] for rs in w.results],
                   "user_certainties": w.user_results, "stored": sum(len(s) for s in w.project()["db"]),
                   "swallowed": len(w.swallowed)}
    finally:
        w.close()
    return events, values, ticks, summary


def w_msg(t, src, dst, gt, **kw):
    from ..g03_world import msg
    return msg(t, src, dst, gt, **kw)


def validate_traces(ctx, traces, values, ticks, adv, tag, expect_reject=False, nodes=(1, 2, 3), pre=(), meta=None):
    expected = sum(len(t) + 1 for t in traces)
    tmp = scratch_dir("g03t-")
    try:
        with open(os.path.join(tmp, "WalletTraceData.tla"), "w", encoding="utf-8") as f:
            f.write("---- MODULE WalletTraceData ----\nEXTENDS Integers, TLC\n")
            f.write("TraceNodes == %s\nTraceAdv == %s\nTracePre == %s\n"
                    % (to_tla(frozenset(nodes)), to_tla(frozenset(adv)),
                       to_tla(tuple({"owner": p["owner"], "by": p["by"], "ans": tuple(p["ans"])} for p in pre))))
            f.write("TraceValues == %s\nTraceTicks == %s\n" % (to_tla(frozenset(values)), to_tla(frozenset(ticks))))
            f.write("Traces == <<\n" + ",\n".join("<<" + ",\n".join(to_tla(e) for e in t) + ">>" for t in traces) + "\n>>\n====\n")

        def run(cfg):
            return run_tlc("WalletProtocolTrace.tla", cfg, coverage=False, java_opts=("-DTLA-Library=" + tmp,), timeout=1800)
        r = run("WalletProtocolTrace.cfg")
        located = None
        if r.ok and r.distinct < expected:
            r2 = run("WalletProtocolTrace_locate.cfg")
            if r2.ok:
                raise MachineryError("trace validation: %d states for %d expected, but the locating run accepts everything"
                                     % (r.distinct, expected))
            r, located = r2, True
    finally:
        shutil.rmtree(tmp, ignore_errors=True)
    if expect_reject:
        return not r.ok
    ctx.add_tlc(tag, r)
    if not r.ok:
        last = r.error_trace[-1][1] if r.error_trace else {}
        tid, l = last.get("tid"), last.get("l")
        ev = None
        if isinstance(tid, int) and isinstance(l, int) and l <= len(traces[tid - 1]):
            ev = traces[tid - 1][l - 1] if located else traces[tid - 1][max(0, l - 2)]
        name = ev["name"] if ev else "?"
        sig = "trace:%s:%s" % (r.violated, name)
        if name == "OnResponse" and r.violated in ("TraceAccepted", "VerifyOnce", "ResultConsistent", "CachesSane"):
            sig = "G03-1:completion-callback-repeated"
        ctx.violation(sig, "recorded execution of the real AttestationCommunity is not a behaviour of WalletProtocol.tla "
                           "(%s) at event %s (%s) of trace %s" % (r.violated, l, name, tid),
                      {"kind": "trace", "meta": meta, "adv": list(adv),
                       "actions": [jsonable_act((e["name"],) + tuple(e["a"])) for e in traces[tid - 1]]
                       if isinstance(tid, int) else None,
                       "violated": r.violated, "trace": tid, "event_index": l,
                       "event": {"name": name, "a": repr(ev["a"])[:2000]} if ev else None,
                       "post": {k: repr(v)[:1500] for k, v in ev["post"].items()} if ev else None})
    else:
        ctx.traces(len(traces))
        ctx.evaluated(sum(len(t) for t in traces))
        for t in traces:
            ctx.nontrivial(("trace", tuple((e["name"], repr(e["a"])) for e in t)))
    return r.ok


def record_and_validate(ctx, rng, fmt, count, steps, profile, tag):
    traces, values, ticks, sums = [], set(), set(), []
    for _ in range(count):
        ev, vals, tk, summary = record_trace(rng, fmt, steps, profile)
        traces.append(ev)
        values |= vals
        ticks |= tk
        sums.append(summary)
    ok = validate_traces(ctx, traces, values, ticks, [3] if profile.get("adv") else [], tag, meta={"fmt": fmt})
    ctx.note("traces_" + tag, {"traces": len(traces), "events": sum(len(t) for t in traces),
                               "verifications_completed": sum(1 for s in sums for r in s["results"] if r),
                               "attestations_stored": sum(s["stored"] for s in sums),
                               "exceptions_swallowed_by_on_packet": sum(s["swallowed"] for s in sums),
                               "action_histogram": _hist(traces)})
    return ok, traces, values, ticks


def _hist(traces):
    h = {}
    for t in traces:
        for e in t:
            h[e["name"]] = h.get(e["name"], 0) + 1
    return h


def replay_file(ctx, path, rng):
    """--replay: re-execute the recorded actions on the real overlays and let TLC judge the recorded projections"""
    import json
    from ..g03_world import Divergence, World
    with open(path, encoding="utf-8") as f:
        obj = json.load(f)["replay"]
    acts = [from_json(a) for a in obj["actions"]]
    if obj.get("kind") == "graph":
        ids, adv, prename, vals = GRAPHS[obj["cfgkey"]]
        fmt, pre = "g03_stub", PRE[prename]
    else:
        ids, adv, pre, fmt = [1, 2, 3], obj.get("adv", []), [], (obj.get("meta") or {}).get("fmt", "g03_stub")
        vals = [[1, 2], [0, 0]] if fmt == "g03_stub" else None
    w = World(ids, adv=adv, pre=pre, nchunks=2, fmt=fmt, values=vals)
    w.boneh_values = [b"val", b"other"]
    if fmt != "g03_stub":
        w.raw_values = w.boneh_values
    events, values, ticks = [], set(), set()
    try:
        for act in acts:
            name, args = act[0], tuple(act[1:])
            try:
                args = exec_action(w, fmt, name, args, rng)
            except Divergence as e:
                ctx.violation("replay:%s:%s" % (name, e.sig), "replayed action %s cannot be executed on the real overlays: %s"
                              % (name, e), obj)
                break
            if name == "AttestAnswer" and len(args[2]):
                values.add(tuple(args[2]))
            if name == "Tick":
                ticks.add(args[0])
            events.append({"name": name, "a": tuple(args), "post": w.project()})
    finally:
        w.close()
    for p in pre:
        values.add(tuple(p["ans"]))
    ok = validate_traces(ctx, [events], values, ticks, adv, "replay", nodes=ids, pre=pre, meta={"fmt": fmt})
    print("replay of %s: %d actions re-executed, %s" % (path, len(events), "accepted by the specification" if ok else "REJECTED"))


# ---------------------------------------------------------------------------------------------------------------------
def model_check(ctx, cfg, module="WalletProtocolMC.tla", timeout=3600):
    r = run_tlc(module, "WalletProtocol_%s.cfg" % cfg, timeout=timeout)
    if not r.ok:
        raise MachineryError("WalletProtocol_%s: TLC reports %s on the specification itself" % (cfg, r.violated))
    ctx.add_tlc(cfg, r)
    return {COV_NAME.get(k, k) for k, v in r.coverage.items() if v[1] > 0}


def run(tier, seed, replay=None):
    setup_repo_path()
    ctx = Ctx(PID, tier, seed, "model_checking")
    ctx.cov["rule"] = ("TLC enumerates every interleaving of the wallet overlay's public calls, handlers, suspended callbacks, "
                       "cache time-outs (deadline order), datagram loss/duplication/reordering and messages of an authenticated "
                       "adversarial peer within the configured bounds; each transition of the dumped graphs (quick: seeded sample "
                       "beyond the budget) is one operation on real AttestationCommunity overlays whose projected state must equal "
                       "the TLC state; recorded random schedules (Boneh id_metadata and stub algorithm) are validated by TLC; "
                       "non-trivial = distinct walks / behaviours / recorded traces")
    ctx.assumptions += ["the identity algorithms (Boneh / Peng-Bao) are out of scope here (C18); graphs are replayed with a "
                        "transparent stub IdentityAlgorithm, recorded traces use the shipped id_metadata format",
                        "SHA-1 collisions do not occur (a reassembled byte string hashes to h iff it is blob h)",
                        "a second verify_attestation_values for a hash that is still pending at the same verifier is not explored",
                        "signatures are trusted: the adversary is an authenticated peer, not a forger (C01)"]
    rng = random.Random(seed)
    quick = tier == "quick"
    if replay:
        replay_file(ctx, replay, rng)
        from .. import vloop
        vloop.uninstall()
        return ctx.finish()
    phases, tp = {}, [time.monotonic()]

    def phase(name):
        now_ = time.monotonic()
        phases[name] = round(now_ - tp[0], 1)
        tp[0] = now_
        ctx.note("phase_wall_s", phases)

    # ---- spec-level negative controls: a plausible deviation switched on must violate the named property
    for cfg, want in (("ctl_pinned", "VerifyOnce"), ("ctl_nopeer", "ChunkIsolation"), ("ctl_nohash", "StoredIntact"),
                      ("ctl_noconsent", "ConsentGiven")):
        r = run_tlc("WalletProtocolMC.tla", "WalletProtocol_%s.cfg" % cfg, coverage=False)
        ctx.control("spec with %s violates %s" % (cfg[4:], want), r.violated == want)
    r = run_tlc("WalletProtocolMC.tla", "WalletProtocol_obs_strict.cfg", coverage=False) if not quick else None
    ctx.note("observation_strict_consent", {
        "holds_in_the_model_of_the_code": r.ok if r else "not run in the quick tier (violated: see thorough)",
        "meaning": "on_challenge answers ANY authenticated peer for a hash once one verification of it was allowed "
                   "(cached_attestation_blobs is not per peer); not demanded by this check (intent unclear)"})

    phase("spec controls")
    # ---- exhaustive model checking
    taken = set()
    mcs = ["ver_to", "full", "reqadv_q", "veradv_q"] if quick else \
          ["req", "ver", "ver_to", "full", "reqadv", "veradv", "req3", "ver3", "window"]
    for cfg in mcs:
        taken |= model_check(ctx, cfg)
    missing = [a for a in ACTIONS if a not in taken]
    if missing:
        raise MachineryError("vacuous model checking: actions never taken: %s" % missing)
    ctx.cov["exhaustive"] = True

    phase("model checking")
    # ---- binding R
    seen = set()
    if quick:
        plan = [("ver_h_g", None), ("ver_to_g", None), ("ver_adv_g", 4000), ("req_q_g", None), ("req_adv_q_g", None)]
    else:
        plan = [("ver_h_g", None), ("ver_q_g", None), ("ver_to_g", None), ("ver_adv_g", None), ("req_q_g", None),
                ("req_adv_q_g", None), ("req_g", 50000), ("req_adv_g", 40000), ("ver_g", 80000)]
    for cfgkey, max_ops in plan:
        if ctx.violations:
            break
        replay_graph(ctx, cfgkey, max_ops, seen)
    if not ctx.violations:
        replay_simulate(ctx, "window_sim", 12 if quick else 150, 90, seen)
    if not ctx.violations:
        lacking = [a for a in ACTIONS if a not in seen]
        if lacking:
            raise MachineryError("vacuous replay: actions never executed on the real code: %s" % lacking)

    phase("replay")
    # ---- binding T
    if not ctx.violations:
        prof = {"req": 2, "ver": 2, "dup": 2, "drop": 2, "to": 3, "honesty": 0.2, "advmsgs": 0}
        ok, traces, values, ticks = record_and_validate(ctx, rng, "id_metadata", 3 if quick else 30, 260, prof, "boneh")
        if ok:
            prof2 = {"req": 3, "ver": 3, "dup": 3, "drop": 3, "to": 4, "honesty": 0.3, "advmsgs": 4, "adv": True}
            ok, traces, values, ticks = record_and_validate(ctx, rng, "g03_stub", 12 if quick else 150, 160, prof2, "stub")
        if ok:
            # trace-level negative controls on a copy of the first recorded trace
            t = [[dict(e, post=dict(e["post"])) for e in traces[0]]]
            idx = next((i for i, e in enumerate(t[0]) if e["name"] == "OnChunk" and any(len(s) for s in e["post"]["db"])), None)
            if idx is not None:
                e = t[0][idx]
                e["post"]["db"] = tuple(frozenset() for _ in e["post"]["db"])
                ctx.control("trace that hides a stored attestation is rejected",
                            validate_traces(ctx, t, values, ticks, [3], "ctl", True))
            t = [[dict(e, post=dict(e["post"])) for e in traces[0]]]
            idx = next((i for i, e in enumerate(t[0]) if e["name"] == "OnResponse"
                        and any(len(v["results"]) for v in e["post"]["ver"])), None)
            if idx is None:
                idx = next((i for i, e in enumerate(t[0]) if e["post"]["ver"]), None)
            if idx is not None:
                e = t[0][idx]
                from ..tlc import FrozenDict
                vs = list(e["post"]["ver"])
                v0 = dict(vs[0])
                v0["results"] = tuple(v0["results"]) + (FrozenDict(liar=False, agg=v0["relmap"]),)
                vs[0] = FrozenDict(v0)
                e["post"]["ver"] = tuple(vs)
                ctx.control("trace with one more completion callback is rejected",
                            validate_traces(ctx, t, values, ticks, [3], "ctl", True))
            t = [[dict(e, post=dict(e["post"])) for e in traces[0]]]
            if len(t[0]) > 3:
                del t[0][1]
                ctx.control("trace with one event removed is rejected", validate_traces(ctx, t, values, ticks, [3], "ctl", True))
    phase("traces")
    from .. import vloop
    vloop.uninstall()      # Ctx measures wall time with time.time
    return ctx.finish()
