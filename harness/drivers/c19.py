"""C19 - crash durability of the identity / attestation sqlite databases.

* TLC model-checks specs/CrashDb.tla (sqlite layer + program layer, a crash between any two statements, reopen,
  re-insert after restart) for every workload shape up to the bound; three configurations with a defect constant
  switched on are the spec-level negative controls.
* Binding T, fault enumeration: harness/c19_child.py runs scripted / generated workloads through the REAL
  IdentityManager / PseudonymManager / IdentityDatabase / AttestationsDB in a fresh interpreter on file databases
  and SIGKILLs itself at crash point k - before every statement sqlite runs (implicit BEGIN / COMMIT and every
  statement of an executescript included), after every Database.execute/executescript/commit call and after every
  acknowledged insert; the parent enumerates every k, a fresh process reopens the files, reads every table and
  rebuilds + verifies the pseudonym and the wallet.  The concatenated statement log + what was read back is one
  trace; TLC validates all traces against CrashDbTrace.tla (sqlite layer, properties as invariants in every state).
* History before the kill: workloads with "with database:" blocks (the commit gate of Database) left normally, by
  IgnoreCommits and by an application error, and an insert that raises - each followed by ordinary inserts - and a
  pseudonym with a long stored history written by an earlier process.  The spec carries the acknowledgement rule
  for blocks (depth / held), the commit gate (pend, program layer, model checked in CrashDb_batch.cfg) and the reload
  (DbReload / rebuilt): the token tree, credentials and attestations that the real PseudonymManager.__init__ built
  are compared object by object with the reload of the model.
* Unchanged: a record is its primary key, the byte strings inserted under it are its FORMS (CrashDb.tla: val, ackv,
  DbExecute(r, v, mode) with the conflict clause of the INSERT, AckedUnchanged; model checked in CrashDb_faults.cfg
  with a token handed in again in another form).  Workloads "forms*" store tokens that carry their content again in
  their public form (and the other way round) between ordinary inserts, blocks and restarts; every row read back - and
  every token of the rebuilt tree - must have exactly the bytes the model holds (ObsUnchanged, ObsRebuiltWhole).
* Errors from the database: sqlite refuses a COMMIT (DbFail(d, rb): transaction rolled back / kept; program layer:
  PCommitFail, PLeaveCommitFail - the error leaves the insert call / the block, nothing is acknowledged).  Workloads
  "faults*": every COMMIT of the workload is refused in turn (injected at the connection by c19_child.py, which also
  reports real failures whatever the code does with the exception), the application carries on, then the kill.
"""
from __future__ import annotations

import concurrent.futures
import hashlib
import json
import os
import random
import re
import shutil
import sqlite3
import subprocess
import sys
import time

from ..common import REPO, Ctx, setup_repo_path
from ..tlc import MachineryError, run_tlc, scratch_dir

PID = "C19"
_run_tlc = run_tlc


def run_tlc(*a, **kw):  # noqa: F811
    """TLC killed from outside (SIGTERM/SIGKILL by another job on a shared machine) is retried once."""
    try:
        return _run_tlc(*a, **kw)
    except MachineryError as e:
        if any("(rc=%d)" % rc in str(e) for rc in (143, 137, -9, -15)):
            return _run_tlc(*a, **kw)
        raise


CHILD = os.path.join(os.path.dirname(os.path.dirname(os.path.abspath(__file__))), "c19_child.py")
WORKERS = min(32, 2 * (os.cpu_count() or 4))   # single-threaded, short-lived child processes

# table -> (kind, database, primary key columns)
TABLES = {"tokens": ("token", "id", (0, 1, 3)), "metadata": ("metadata", "id", (0, 1)),
          "attestations": ("attestation", "id", (0, 1, 2)), "att": ("blob", "att", (0,))}
TABLES_DB = {kind: db for kind, db, _pk in TABLES.values()}
PROPERTY_INVARIANTS = {
    "AckedDurable": "a record whose insert call had returned is not in the durable image",
    "NoPartialRecord": "a record that was never inserted is visible",
    "ReopenOk": "the database does not open again after the kill",
    "PseudonymVerifies": "the durable image holds a record without the record it points to",
    "ObsMatchesDurable": "the rows read back by the fresh process differ from the durable image implied by the "
                         "statement log",
    "ObsAckedPresent": "a record whose insert call had returned is missing after the reopen",
    "ObsNoPartial": "a row read back is not byte-identical to an inserted record (or is duplicated / misplaced)",
    "AckedUnchanged": "the stored row of a record whose insert call had returned was overwritten with other bytes",
    "ObsUnchanged": "a row read back does not have the bytes the statement log leaves in the database (for an "
                    "acknowledged record: the bytes it was acknowledged with)",
    "ObsVerifies": "the pseudonym / wallet rebuilt by the real reload path does not verify",
    "TraceAccepted": "the logged statements are not a behaviour of the sqlite layer of CrashDb.tla",
    "RebuiltHasAcked": "the pseudonym rebuilt by the reload lacks a record whose insert call had returned",
    "RebuiltVerifies": "the pseudonym rebuilt by the reload is not connected back to the genesis",
    "ObsRebuiltMatches": "the token tree / credentials / attestations that PseudonymManager.__init__ rebuilt from the "
                         "file differ from the stored records",
    "ObsRebuiltWhole": "an object of the rebuilt pseudonym is not an inserted record (or is duplicated / does not "
                       "pass the real verify)",
}


def digest(values):
    return hashlib.sha256(json.dumps(values).encode()).hexdigest()[:16]


# ---------------------------------------------------------------------------------------------------
# workloads
# ---------------------------------------------------------------------------------------------------
class Material:
    """Real key material, generated once per run with the real key vault / identity algorithm."""

    def __init__(self, nblobs):
        from ipv8.attestation.schema.manager import SchemaManager
        from ipv8.keyvault.crypto import default_eccrypto
        self.owner = default_eccrypto.generate_key("curve25519").key_to_bin().hex()
        self.authorities = [default_eccrypto.generate_key("curve25519").key_to_bin().hex() for _ in range(3)]
        sm = SchemaManager()
        sm.register_default_schemas()
        algo = sm.get_algorithm_instance("id_metadata")
        sk = algo.generate_secret_key()
        self.boneh_key = sk.serialize().hex()
        self.blobs = []
        for i in range(nblobs):
            value = hashlib.sha1(b"value-%d" % i).digest()
            ser = algo.attest(sk.public_key(), value)
            att = algo.get_attestation_class().unserialize(ser, "id_metadata")
            self.blobs.append({"hash": att.get_hash().hex(), "attestation": ser.hex(),
                               "private": att.serialize_private(sk.public_key()).hex()})

    def fill(self, items):
        out = []
        for it in items:
            it = dict(it)
            if it["op"] == "blob":
                b = self.blobs[it["n"]]
                it["hash"], it["attestation"] = b["hash"], b["attestation"]
            elif it["op"] == "batch":
                it["items"] = self.fill(it["items"])
            out.append(it)
        return out

    def plan(self, items):
        return {"owner": self.owner, "authorities": self.authorities, "boneh_key": self.boneh_key,
                "items": self.fill(items)}


def cred(name, after=None):
    return {"op": "credential", "name": name, "after": after}


def attest(name, auth=0):
    return {"op": "attest", "cred": name, "auth": auth}


def blob(n, again=False):
    return {"op": "blob", "n": n, "again": again}


def batch(dbs, items, end):
    """The items run inside 'with database:' blocks of the databases dbs (entered in that order), which are left
    normally ("ok"), by raise IgnoreCommits ("ignore") or by an application error that is caught outside ("error").
    An item may be a batch again (blocks nest, also blocks of the same database)."""
    return {"op": "batch", "dbs": list(dbs), "items": list(items), "end": end}


def imp(name, after=None, auths=(), form="hash"):
    """A whole credential (token, metadata, one attestation per listed authority) that was made elsewhere is handed
    to PseudonymManager.add_credential in one call.  form: the token is made from a content hash only ("hash"), it
    carries its content ("full"), or it is the public form of that content-bearing token ("bare": Token.unserialize of
    its double pointer + signature).  The same name may be imported again, in the same or the other form."""
    return {"op": "import", "name": name, "after": after, "auths": list(auths), "form": form}


SCRIPTED = {
    # every record kind; a chained second credential; both databases
    "all-kinds": [cred("c0"), attest("c0", 0), blob(0), cred("c1", "c0")],
    # a fork in the token tree, attestation after further tokens
    "fork": [cred("c0"), cred("c1", "c0"), cred("c2", "c0"), attest("c1", 1), blob(1)],
    # history of the commit gate, then ordinary inserts: a block over both databases left normally, a block left by
    # IgnoreCommits, a block left by an application error, an insert that raises - each followed by plain inserts
    "batches": [batch(("id", "att"), [cred("b0"), blob(0)], "ok"),
                batch(("id",), [cred("b1", "b0")], "ignore"),
                cred("b2", "b0"),
                batch(("att", "id"), [cred("b3", "b2"), blob(1)], "error"),
                blob(0, again=True),
                cred("b4", "b2"), attest("b4", 2), blob(2)],
    # the same endings in another order and the blocks on one database only
    "batches-2": [cred("b0"), batch(("id",), [cred("b1", "b0"), attest("b0", 0)], "error"), attest("b1", 1),
                  batch(("att",), [blob(0), blob(1)], "error"), blob(2),
                  batch(("att", "id"), [blob(3), cred("b2", "b1")], "ignore"), cred("b3", "b2"), blob(4),
                  batch(("id", "att"), [cred("b4", "b3"), blob(5)], "ok")],
    # history of the commit gate with NESTED blocks of one database: an inner block in which no commit of that
    # database is asked for (its only insert goes to the other database), an inner block that is abandoned after
    # an insert - the outer block, which holds acknowledgements-to-be, is left normally each time
    "nested": [batch(("id",), [cred("n0"), batch(("id",), [blob(0)], "ok")], "ok"),
               batch(("id",), [cred("n1", "n0"), batch(("id",), [attest("n0", 0)], "error"), attest("n1", 1)], "ok")],
    # every way of leaving the inner and the outer block, empty inner blocks, three levels, both databases
    "nested-2": [batch(("att", "id"), [blob(0), cred("n0"), batch(("id", "att"), [], "ok"), blob(1)], "ok"),
                 batch(("id",), [cred("n1", "n0"), batch(("id",), [cred("n2", "n1")], "ok"), attest("n1", 0)], "ok"),
                 batch(("id",), [attest("n2", 1), batch(("id",), [batch(("id",), [], "ok"), cred("n3", "n2")],
                                                        "ignore"), cred("n4", "n2")], "ok"),
                 batch(("id",), [cred("n5", "n4"), batch(("id",), [], "error")], "error"),
                 batch(("att",), [blob(2), batch(("att",), [], "ignore")], "ok"),
                 cred("n6", "n4"), blob(3)],
    # the multi-step write: whole credentials (token + metadata + attestations of several authorities) through ONE
    # add_credential call, chained, followed by a further attestation
    "sequence": [imp("q0", None, (0, 1)), imp("q1", "q0", (2,)), attest("q1", 0)],
    "sequence-2": [cred("q0"), imp("q1", "q0", (0, 1, 2)), batch(("id",), [imp("q2", "q1", (1,))], "ok"),
                   imp("q3", "q0", ()), attest("q3", 2), batch(("id",), [imp("q4", "q3", (0, 2))], "error"),
                   imp("q5", "q2", (1, 0))],
    # the same record stored again in another FORM (same primary key, other bytes): tokens that carry their content
    # come back in their public form (a disclosure echo, a peer returning our chain) and the other way round; the
    # metadata and attestations come along byte-identical; ordinary inserts before, between and after
    "forms": [imp("f0", None, (0,), "full"), imp("f1", "f0", (), "full"), imp("f0", None, (0,), "bare"),
              imp("f2", "f1", (1,), "bare"), cred("f3", "f2"), imp("f2", "f1", (1, 2), "full"),
              imp("f1", "f0", (), "bare"), attest("f3", 0)],
    "forms-2": [cred("f0"), batch(("id",), [imp("f1", "f0", (0,), "full"), imp("f1", "f0", (0,), "bare")], "ok"),
                imp("f2", "f1", (), "full"), batch(("id",), [imp("f2", "f1", (), "bare")], "error"),
                imp("f1", "f0", (0,), "bare"), batch(("id",), [imp("f2", "f1", (2,), "bare")], "ignore"),
                imp("f3", "f2", (), "bare"), imp("f3", "f2", (), "full"), imp("f3", "f2", (), "bare"), blob(0)],
    # the database refuses a COMMIT (volume full: transaction rolled back; file locked: transaction kept) in the
    # middle of a workload of every record kind, whole credentials and a block; the application carries on
    "faults": [cred("x0"), imp("x1", "x0", (0, 1)), blob(0),
               batch(("id",), [cred("x3", "x1"), attest("x3", 0)], "ok"), cred("x4", "x0")],
    "faults-2": [cred("x0"), imp("x1", "x0", (0, 1)), blob(0), cred("x2", "x0"), attest("x2", 2),
                 batch(("id", "att"), [cred("x3", "x1"), attest("x3", 0), blob(2)], "ok"), blob(1), cred("x4", "x1"),
                 imp("x5", None, (2,), "full"), imp("x5", None, (2,), "bare")],
}
LONG_CHAIN = 150   # stored tokens in one chain, more than any bounded waiting room of the token tree (100)


def long_history(n, tail=True):
    """A pseudonym with a long stored history (a chain of n credentials with some side branches and attestations)
    written by a first process; the restarted processes have to rebuild it."""
    items = [cred("h0")]
    for i in range(1, n):
        items.append(cred("h%d" % i, "h%d" % (i - 1)))
    if tail:
        items += [cred("s0", "h%d" % (n // 2)), attest("h%d" % (n - 1), 0), cred("t0", "h%d" % (n - 1)), attest("t0", 1)]
    return items


DBSETS = (("id",), ("att",), ("id", "att"), ("att", "id"))


def generated_items(rng, n, blocks=False, nest=False):
    """A random valid workload; blocks: runs of its items are put into 'with database:' blocks over random databases
    that are left in a random way (an item that builds on a record which only an abandoned block had inserted finds
    it missing after a restart and ends the workload there); nest: whole credentials through add_credential are
    among the items and the blocks nest (inner blocks - possibly empty - around random sub-runs)."""
    flat = _generated_items(rng, n, imports=nest)
    if not blocks and not nest:
        return flat

    def blocked(items, level):
        out, i = [], 0
        while i < len(items):
            if rng.random() < (0.35 if level == 0 else 0.5):
                k = rng.randint(0 if level else 1, 3)
                inner = items[i:i + k]
                if nest and level < 2:
                    inner = blocked(inner, level + 1)
                    if rng.random() < 0.4:
                        # the block ends with an inner block in which nothing is written
                        inner.append(batch(rng.choice(DBSETS), [], rng.choice(("ok", "ok", "ignore", "error"))))
                out.append(batch(rng.choice(DBSETS), inner, rng.choice(("ok", "ok", "ignore", "error") if nest else
                                                                       ("ok", "ignore", "error"))))
                i += k
                if k == 0 and rng.random() < 0.5:
                    out.append(items[i])
                    i += 1
            else:
                out.append(items[i])
                i += 1
        return out
    return blocked(flat, 0)


def _generated_items(rng, n, imports=False):
    items, creds, attested, nblob = [], [], set(), 2
    while len(items) < n:
        choice = rng.random()
        if imports and choice < 0.2:
            name = "g%d" % len(creds)
            items.append(imp(name, rng.choice(creds) if creds and rng.random() < 0.8 else None,
                             rng.sample(range(3), rng.randint(0, 3))))
            creds.append(name)
            attested.add(name)
        elif not creds or choice < 0.45:
            name = "g%d" % len(creds)
            items.append(cred(name, rng.choice(creds) if creds and rng.random() < 0.8 else None))
            creds.append(name)
        elif choice < 0.75 and len(attested) < len(creds):
            name = rng.choice([c for c in creds if c not in attested])
            attested.add(name)   # one attestation per metadata: the table's key is (public_key, metadata_pointer)
            items.append(attest(name, rng.randrange(3)))
        elif nblob < 8:
            items.append(blob(nblob))
            nblob += 1
    return items


# ---------------------------------------------------------------------------------------------------
# running the real code in child processes
# ---------------------------------------------------------------------------------------------------
def make_legacy_db(workdir, material):
    """A version-1 attestation database as older releases wrote it (no id_format column), holding one record."""
    os.makedirs(os.path.join(workdir, "sqlite"))
    b = material.blobs[-1]
    row = [bytes.fromhex(b["hash"]), bytes.fromhex(b["private"]), bytes.fromhex(material.boneh_key)]
    c = sqlite3.connect(os.path.join(workdir, "sqlite", "att.db"))
    c.executescript("CREATE TABLE att(hash BLOB, blob LONGBLOB, key MEDIUMBLOB, PRIMARY KEY (hash));"
                    "CREATE TABLE option(key TEXT PRIMARY KEY, value BLOB);"
                    "INSERT INTO option(key, value) VALUES('database_version', '1');")
    c.execute("INSERT INTO att VALUES(?,?,?)", row)
    c.commit()
    c.close()
    return [v.hex() for v in row] + [b"id_metadata".hex()]  # the record as it must read after the upgrade


def read_log(path):
    if not os.path.exists(path):
        return []
    out = []
    with open(path, encoding="utf-8") as f:
        for line in f:
            line = line.strip()
            if line:
                out.append(json.loads(line))
    return out


def run_scenario(base, sc):
    """sc = {name, plan, legacy, phases:[{items: [...]|None, kill: k|None[, kill_rel: m]}]}; kill: the k-th crash point
    of the process, kill_rel: the m-th distinct crash point after its first item started. Returns (raw log, info)."""
    workdir = os.path.join(base, "w-%s" % hashlib.sha1(json.dumps([sc["name"], sc["phases"]]).encode()).hexdigest()[:12])
    os.makedirs(workdir)
    try:
        legacy_row = make_legacy_db(workdir, sc["material"]) if sc["legacy"] else None
        logp = os.path.join(workdir, "log.ndjson")
        nitems = len(sc["plan"]["items"])
        info = {"killed": [], "points": [], "open_error": False}
        phases = list(sc["phases"]) + [{"items": [], "kill": None, "observer": True}]
        for j, ph in enumerate(phases):
            log = read_log(logp)
            done = {e["i"] for e in log if e["e"] in ("item_done", "item_skip", "item_fail")}
            allowed = range(nitems) if ph["items"] is None else ph["items"]
            todo = [i for i in allowed if i not in done]
            cfg = {"repo": REPO, "dir": workdir, "log": logp, "kill_at": ph["kill"], "kill_rel": ph.get("kill_rel"),
                   "observe": j > 0, "fault": ph.get("fault"), "kill_end": ph.get("kill_end"),
                   "todo": todo, "plan": sc["plan"]}
            cfgp = os.path.join(workdir, "cfg%d.json" % j)
            with open(cfgp, "w", encoding="utf-8") as f:
                json.dump(cfg, f)
            env = dict(os.environ)
            env["PYTHONHASHSEED"] = "0"
            env.pop("PYTHONPATH", None)
            # the hundreds of child processes share one bytecode cache (in the scratch directory of this run)
            env.pop("PYTHONDONTWRITEBYTECODE", None)
            env["PYTHONPYCACHEPREFIX"] = os.path.join(base, "pyc")
            p = subprocess.run([sys.executable, CHILD, cfgp], capture_output=True, text=True, env=env, timeout=300)
            if p.returncode == -9:
                info["killed"].append(ph["kill"] if ph["kill"] is not None else "end" if ph.get("kill_end") else
                                      "item+%s" % ph.get("kill_rel"))
            elif p.returncode == 3:
                info["open_error"] = True
                break
            elif p.returncode == 0:
                ex = [e for e in read_log(logp) if e["e"] in ("exit", "close_error")]
                info["points"].append(ex[-1]["points"])
                info.setdefault("distinct", []).append(ex[-1].get("distinct"))
                info.setdefault("commits", []).append(ex[-1].get("commits", 0))
                if ph["kill"] is not None:
                    info["beyond_end"] = True   # the process finished before reaching crash point k
            else:
                raise MachineryError("C19 child failed (rc=%s) in scenario %s phase %d:\n%s" % (
                    p.returncode, sc["name"], j, p.stderr[-2000:]))
        return read_log(logp), legacy_row, info
    finally:
        shutil.rmtree(workdir, ignore_errors=True)


# ---------------------------------------------------------------------------------------------------
# raw log -> trace over the alphabet of CrashDbTrace.tla
# ---------------------------------------------------------------------------------------------------
_RE_INSERT = re.compile(r"^INSERT(?:\s+OR\s+\w+)?\s+INTO\s+(\w+)", re.I)
_RE_CONFLICT = re.compile(r"^INSERT\s+OR\s+(\w+)\s", re.I)


def conflict_mode(stmt):
    """What sqlite does with the INSERT when a row with the primary key is stored already: 'ignore' / 'replace' /
    'plain' (the statement raises); None: a clause the sqlite layer of the specification has no semantics for."""
    u = " ".join(stmt.upper().split())
    if " ON CONFLICT" in u:
        return None
    m = _RE_CONFLICT.match(u)
    if not m:
        return "plain"
    return {"IGNORE": "ignore", "REPLACE": "replace", "ABORT": "plain", "FAIL": "plain", "ROLLBACK": None}.get(m.group(1))


def classify(stmt):
    """-> (event name | None to ignore | 'INSERT:<table>')"""
    s = stmt.strip().rstrip(";").strip()
    u = s.upper()
    if u.startswith(("PRAGMA", "VACUUM", "ANALYZE")):
        return None
    if u.startswith("SELECT"):
        return "ReadVersion" if "SQLITE_MASTER" in u else None
    if u.startswith("BEGIN"):
        return "Begin"
    if u.startswith(("COMMIT", "END")):
        return "Commit"
    if u.startswith("ROLLBACK"):
        return "Rollback"
    if u.startswith("CREATE TABLE"):
        return "CreateOpt" if re.search(r"\bOPTION\s*\(", u) else "CreateData"
    if u.startswith("CREATE"):
        return None   # indexes etc. carry no records
    if u.startswith("DELETE FROM OPTION"):
        return "DeleteVer"
    if u.startswith("ALTER TABLE"):
        return "Alter"
    if u.startswith("UPDATE OPTION"):
        return "SetVer"
    if u.startswith("UPDATE") and "ID_FORMAT" in u:
        return "Update"
    m = _RE_INSERT.match(s)
    if m:
        t = m.group(1).lower()
        if t == "option":
            return "SetVer" if " OR REPLACE " in u else "InsertVer"
        if t in TABLES:
            return "INSERT:" + t
    if u.startswith("REPLACE INTO OPTION"):
        return "SetVer"
    return "UNKNOWN"


def parent_of(table, item):
    """The record a row of this table, written on behalf of this workload item, points to: (credential name, kind),
    None for no parent (a token at the genesis, a blob); raises LookupError when the item cannot have written it."""
    op = (item or {}).get("op")
    if table == "att":
        return None
    if table == "tokens" and op in ("credential", "import"):
        return (item["after"], "token") if item.get("after") else None
    if table == "metadata" and op in ("credential", "import"):
        return (item["name"], "token")
    if table == "attestations" and op in ("attest", "import"):
        return (item["cred"] if op == "attest" else item["name"], "metadata")
    raise LookupError("a row of %s written while the workload was at %s" % (table, op or "no item"))


def build_trace(log, sc, legacy_row):
    """The refs between records are resolved when the whole log has been read (the code is free to write the records
    of a credential in any order - the specification decides whether that order is acceptable); a record that is
    pointed to but was never written is a record of the trace that no statement ever executes.  Whatever the code
    did that the alphabet of CrashDbTrace.tla has no event for becomes an 'Unknown' event, which no action of the
    specification matches: the trace is rejected there (a verdict, not a failure of the machinery)."""
    items = sc["plan"]["items"]
    recs, index, name2rec = [], {}, {}
    events = []
    legacy = []

    def record(table, values, ref):
        kind, _db, pk = TABLES[table]
        key = (table, digest([values[i] for i in pk]))
        if key not in index:
            recs.append({"kind": kind, "ref": 0, "refkey": ref, "digs": []})
            index[key] = len(recs)
        r = index[key]
        d = digest(values)
        if d not in recs[r - 1]["digs"]:
            recs[r - 1]["digs"].append(d)
        return r, recs[r - 1]["digs"].index(d) + 1     # the record and which of its forms (byte strings) this is
    if legacy_row is not None:
        legacy.append(record("att", legacy_row, None)[0])

    alive = False
    call = None      # current Database.execute/executescript/commit call: {"bind", "table", "emitted": [event idx]}
    ins = None       # current insert_* call: {"call_ev": idx, "recs": []}
    item = None
    kills = []
    for e in log:
        k = e["e"]
        if k == "start":
            if alive:
                raise MachineryError("C19: a child died without a trace of why (log has start after start)")
            alive, call, ins, item = True, None, None, None
            events.append({"a": "Start"})
        elif k == "item":
            item = items[e["i"]]
            for j in e.get("p", ()):
                item = item["items"][j]
        elif k in ("item_done", "item_skip", "item_abort", "item_fail"):
            item = None
        elif k == "call":
            call = {"bind": e.get("bind"), "sql": e.get("sql"), "emitted": []}
        elif k == "ret":
            call = None
            if e.get("fn") == "commit" and e.get("done") is False:
                events.append({"a": "Deferred", "d": e["db"]})   # Database.commit() did not commit
        elif k == "enter":
            events.append({"a": "Enter", "d": e["db"]})
        elif k == "leave":
            events.append({"a": "Leave", "d": e["db"], "how": e["how"]})
        elif k == "raise":
            if call and call["emitted"] and not call.get("failed"):
                gone = events[call["emitted"][-1]]
                if gone["a"] == "Exec" and ins is not None and gone["r"] in ins["recs"]:
                    ins["recs"].remove(gone["r"])
                del events[call["emitted"][-1]]   # the statement that raised took no effect
            call = None
        elif k == "sqlfail":
            # sqlite failed a COMMIT (seen at the connection, whatever the code does with the exception): the
            # statement took no effect, the open transaction was kept or rolled back
            if e.get("ran") and call and call["emitted"] and events[call["emitted"][-1]]["a"] == "Commit":
                del events[call["emitted"].pop()]
            events.append({"a": "Fail", "d": e["db"], "rb": bool(e["rb"])})
            if call is not None:
                call["failed"] = True
        elif k == "ins_call":
            events.append({"a": "Call", "r": 0})
            ins = {"call_ev": len(events) - 1, "recs": []}
        elif k == "ins_ret":
            for r in ins["recs"]:
                events.append({"a": "Return", "r": r})
            ins = None
        elif k == "ins_raise":
            if not ins["recs"]:
                events[ins["call_ev"]]["r"] = 0    # the call stored nothing
            ins = None
        elif k == "sql":
            name = classify(e["s"])
            if name is None:
                continue
            ev = None
            if name.startswith("INSERT:"):
                table = name[7:]
                try:
                    if call is None or call.get("bind") is None:
                        raise LookupError("INSERT into %s outside an execute() call with bindings" % table)
                    values = call["bind"]
                    if len(values) <= max(TABLES[table][2]):
                        raise LookupError("INSERT into %s with %d values" % (table, len(values)))
                    mode = conflict_mode(call.get("sql") or e["s"])
                    if mode is None:
                        raise LookupError("INSERT with a conflict clause outside the alphabet")
                    r, v = record(table, values, parent_of(table, item))
                except LookupError as err:
                    ev = {"a": "Unknown", "d": e["db"], "what": "%s: %s" % (err, e["s"][:80])}
                else:
                    if table in ("tokens", "metadata"):
                        name2rec[(item["name"], "token" if table == "tokens" else "metadata")] = r
                    ev = {"a": "Exec", "d": TABLES[table][1], "r": r, "v": v, "mode": mode}
                    if ins is not None:
                        ins["recs"].append(r)
                        if events[ins["call_ev"]]["r"] == 0:
                            events[ins["call_ev"]]["r"] = r
                            events[ins["call_ev"]]["v"] = v
            elif name == "UNKNOWN":
                ev = {"a": "Unknown", "d": e["db"], "what": "statement outside the alphabet: " + e["s"][:80]}
            else:
                ev = {"a": name, "d": e["db"]}
            events.append(ev)
            if call is not None:
                call["emitted"].append(len(events) - 1)
        elif k == "kill":
            kills.append(e["at"])
            events.append({"a": "Crash"})
            alive = False
        elif k == "exit":
            events.append({"a": "Exit"})
            alive = False
        elif k == "close_error":
            # close() raised and the process ended without it: the connections are dropped as by a kill
            events.append({"a": "Crash"})
            alive = False
        elif k == "open_error":
            lastdb = [ev["d"] for ev in events if ev["a"] == "ReadVersion"]
            events.append({"a": "OpenError", "exc": e["exc"], "msg": e["msg"], "d": lastdb[-1] if lastdb else "id"})
            alive = False
        elif k == "observe":
            ev = {"a": "Observe", "id": [], "att": [], "verifies": bool(e["verifies"]), "problems": e["problems"]}
            for table, rows in e["rows"].items():
                tl = table.lower()
                _kind, db, pk = TABLES[tl]
                for row in rows:
                    ev[db].append({"r": index.get((tl, digest([row[i] for i in pk])), 0), "dig": digest(row)})
            # what PseudonymManager.__init__ made of the file
            for field, tl in (("tree", "tokens"), ("creds", "metadata"), ("atts", "attestations")):
                pk = TABLES[tl][2]
                ev[field] = [{"r": index.get((tl, digest([x["row"][i] for i in pk])), 0), "dig": digest(x["row"]),
                              "ok": bool(x["ok"])} for x in e.get("rebuilt", {}).get(field, [])]
            events.append(ev)
        else:
            raise MachineryError("C19: unknown log event %r" % k)
    if alive:
        raise MachineryError("C19: the last child neither exited nor was killed")
    # refs: by the names of the workload, whatever the order in which the records were written
    for rec in list(recs):
        key = rec.pop("refkey", None)
        if key is None:
            continue
        if key not in name2rec:
            recs.append({"kind": key[1], "ref": 0, "digs": []})     # pointed to, never written
            name2rec[key] = len(recs)
        rec["ref"] = name2rec[key]
    # program-layer view: a call whose record never reached sqlite (killed before its INSERT) is, for the program
    # layer, a kill in the idle state - its lone BEGIN is dropped together with the call
    strict, skipping = [], False
    for ev in events:
        if ev["a"] == "Call" and ev["r"] == 0:
            skipping = True
            continue
        if skipping and ev["a"] == "Begin":
            continue
        skipping = False
        strict.append(ev)
    events = [ev for ev in events if not (ev["a"] == "Call" and ev["r"] == 0)]
    return {"name": sc["name"], "recs": recs, "legacy": legacy, "events": events, "strict_events": strict,
            "kills": kills, "phases": sc["phases"]}


# ---------------------------------------------------------------------------------------------------
# TLC validation of batches of traces
# ---------------------------------------------------------------------------------------------------
def tlc_traces(traces, cfg="CrashDbTrace.cfg", events="events", continue_=False):
    tmp = scratch_dir("c19t-")
    try:
        path = os.path.join(tmp, "traces.json")
        with open(path, "w", encoding="utf-8") as f:
            json.dump([{"recs": t["recs"], "legacy": t["legacy"], "events": t[events]} for t in traces], f)
        return run_tlc("CrashDbTrace.tla", cfg, env={"TRACE_FILE": path}, coverage=False, continue_=continue_)
    finally:
        shutil.rmtree(tmp, ignore_errors=True)


def failing(r, traces, events="events"):
    last = r.error_trace[-1][1] if r.error_trace else {}
    tid, l = last.get("tid"), last.get("l")
    if not isinstance(tid, int):
        raise MachineryError("C19: cannot read the failing trace id from TLC's error trace")
    t = traces[tid - 1]
    # TraceAccepted fails in the state BEFORE the event that is not enabled; every other invariant fails in
    # the state AFTER event l-1
    idx = l if r.violated == "TraceAccepted" else l - 1
    ev = t[events][idx - 1] if 1 <= idx <= len(t[events]) else None
    return t, idx, ev


def kill_class(label):
    """'sql:id:INSERT INTO option(key, v' -> stable class of the crash point."""
    return re.sub(r"\d+", "N", label)[:48]


def abstract_event(t, ev):
    kind = t["recs"][ev["r"] - 1]["kind"] if ev.get("r") else ""
    return (ev["a"], ev.get("d", ""), kind)


def validate(ctx, traces, tag, max_findings=8):
    """Validate a batch; on a violation report it, drop the traces killed at the same class of point, repeat."""
    todo = list(traces)
    first = True
    for _ in range(max_findings):
        if not todo:
            break
        r = tlc_traces(todo)
        if first:
            ctx.add_tlc("trace-" + tag, r)
            first = False
        if r.ok:
            break
        t, idx, ev = failing(r, todo)
        classes = tuple(kill_class(k) for k in t["kills"])
        what = PROPERTY_INVARIANTS.get(r.violated, r.violated)
        detail = ""
        if ev is not None and ev["a"] == "OpenError":
            detail = " (open() raised %s: %s)" % (ev.get("exc"), ev.get("msg"))
        elif ev is not None and ev["a"] == "Observe" and ev.get("problems"):
            detail = " (%s)" % "; ".join(ev["problems"][:3])
        elif ev is not None and ev["a"] == "Unknown":
            detail = " (%s)" % ev.get("what")
        sig = "%s:%s:%s" % (r.violated, "legacy" if t["legacy"] else "fresh", "|".join(classes) or "no-kill")
        operr = inline = None
        if ev is not None and ev["a"] == "OpenError":
            # one signature per way of failing to open, whatever kill point produced the damaged file
            operr = (ev.get("exc"), ev.get("d"))
            sig = "%s:%s:%s" % (r.violated, operr[0], operr[1])
        elif ev is not None and ev["a"] != "Observe":
            # an invariant of the model state broken by a logged statement: one signature per kind of statement
            inline = abstract_event(t, ev)
            sig = "%s:%s" % (r.violated, ":".join(inline))
        ctx.violation(sig, "%s%s - workload %s, killed at %s, event %d %s" % (
            what, detail, t["name"], list(t["kills"]) or "no point", idx, {k: v for k, v in (ev or {}).items()
                                                                           if k in ("a", "d", "r")}),
            {"scenario": t["name"], "phases": t["phases"], "violated": r.violated, "event_index": idx,
             "events": t["events"][:idx], "recs": t["recs"]})
        # the same class of kill point in the same kind of database fails the same way: report it once
        if operr:
            todo = [x for x in todo if not any(e2["a"] == "OpenError" and (e2.get("exc"), e2.get("d")) == operr
                                               for e2 in x["events"])]
        elif inline:
            todo = [x for x in todo if not any(abstract_event(x, e2) == inline for e2 in x["events"])]
        else:
            todo = [x for x in todo if not (bool(x["legacy"]) == bool(t["legacy"]) and
                                            set(kill_class(k) for k in x["kills"]) & set(classes))]
        todo = [x for x in todo if x is not t]


def strict_conformance(ctx, traces, tag):
    """Informational: are the logged statement sequences behaviours of the PROGRAM layer that was model checked?"""
    out = {}
    for name, cfg in (("repaired", "CrashDbTrace_strict.cfg"), ("pinned", "CrashDbTrace_strict_pinned.cfg")):
        r = tlc_traces(traces, cfg, events="strict_events")
        if r.ok:
            out[name] = "accepted (%d traces)" % len(traces)
            break
        t, idx, ev = failing(r, traces, "strict_events")
        out[name] = "diverges: workload %s killed at %s, event %d %s" % (
            t["name"], t["kills"], idx, {k: v for k, v in (ev or {}).items() if k in ("a", "d", "r")})
    ctx.note("program_layer_conformance_" + tag, out)
    return out


# ---------------------------------------------------------------------------------------------------
SPEC_CONTROLS = (("spec with the pinned version read (missing row raises; schema script not in one transaction) "
                  "violates ReopenOk", "CrashDb_pinned_version.cfg", "ReopenOk"),
                 ("spec whose __exit__ leaves the commits deferred after an exception violates AckedDurable",
                  "CrashDb_gate_stuck.cfg", "AckedDurable"),
                 ("spec whose reload chains the rows through a bounded waiting room violates RebuiltHasAcked",
                  "CrashDb_reload_wait.cfg", "RebuiltHasAcked"),
                 ("spec with the pinned non-atomic schema upgrade violates ReopenOk",
                  "CrashDb_pinned_upgrade.cfg", "ReopenOk"),
                 ("spec whose insert returns before the commit violates AckedDurable",
                  "CrashDb_nocommit.cfg", "AckedDurable"),
                 ("spec whose __enter__ starts the count of deferred commits afresh inside a block violates "
                  "AckedDurable", "CrashDb_enter_reset.cfg", "AckedDurable"),
                 ("spec that writes the records of a credential in any order violates PseudonymVerifies",
                  "CrashDb_child_first.cfg", "PseudonymVerifies"),
                 ("spec whose insert of a token overwrites the stored row (INSERT OR REPLACE) violates AckedUnchanged "
                  "when the token comes in again in another form", "CrashDb_replace.cfg", "AckedUnchanged"),
                 ("spec whose commit() swallows the error of a COMMIT that sqlite failed violates AckedDurable",
                  "CrashDb_swallow.cfg", "AckedDurable"))


def start_model_check(tlcpool, tier):
    """TLC on the specification itself runs in the background while the child processes are enumerated."""
    cfgs = [("mc", "CrashDb_mc.cfg"), ("legacy", "CrashDb_legacy.cfg"), ("batch", "CrashDb_batch.cfg"),
            ("faults+forms", "CrashDb_faults.cfg")] \
        if tier == "quick" else \
           [("mc4", "CrashDb_mc4.cfg"), ("legacy4", "CrashDb_legacy4.cfg"), ("mc-3crashes", "CrashDb_mc_r4.cfg"),
            ("batch", "CrashDb_batch4.cfg"), ("faults+forms", "CrashDb_faults_b.cfg"),
            ("faults+forms3", "CrashDb_faults3.cfg")]
    jobs = [(tag, cfg, None, tlcpool.submit(run_tlc, "CrashDb.tla", cfg, timeout=3000)) for tag, cfg in cfgs]
    jobs += [(name, cfg, inv, tlcpool.submit(run_tlc, "CrashDb.tla", cfg, coverage=False, workers=4))
             for name, cfg, inv in SPEC_CONTROLS]
    return jobs


def finish_model_check(ctx, jobs):
    union = {}
    for tag, cfg, inv, fut in jobs:
        r = fut.result()
        if inv is not None:
            ctx.control(tag, r.violated == inv)
            continue
        if not r.ok:
            raise MachineryError("CrashDb %s: TLC reports %s on the specification itself" % (cfg, r.violated))
        ctx.add_tlc(tag, r)
        for a, (_d, t) in r.coverage.items():
            union[a] = union.get(a, 0) + t
    never = sorted(a for a, n in union.items() if n == 0 and a.startswith("P"))
    if never or len([a for a in union if a.startswith("P")]) < 23:
        raise MachineryError("CrashDb: vacuous model checking, actions never taken: %s (seen %d)" % (never, len(union)))


def first_item_point(log, nprefix):
    """Crash point counter of the killed phase (the one after nprefix earlier processes) when its first item starts."""
    starts = 0
    for e in log:
        if e["e"] == "start":
            starts += 1
        elif e["e"] == "item" and starts == nprefix + 1:
            return e.get("n", 0)
    return 0


def single_run(base, sc_base, phase):
    """One run of the workload whose last process is killed as phase says (no full run first)."""
    sc = dict(sc_base, phases=sc_base["prefix"] + [phase])
    log, legacy_row, _info = run_scenario(base, sc)
    return [build_trace(log, sc, legacy_row)], 1, 0


def enumerate_single(pool, base, sc_base, from_item=False, distinct=False, sample=None, rng=None):
    """Run the workload once to completion, then once per crash point k of that run.  distinct: only the points that
    differ from the point before them (see c19_child.py: a kill at a point that is left out leaves the same files and
    the same acknowledgements as the kill at the enumerated point before it); from_item: only the (distinct) points
    from the first item of the killed process on - the points of open() are enumerated by the other workloads;
    sample: at most that many of them, drawn with rng."""
    log, legacy_row, info = run_scenario(base, dict(sc_base, phases=sc_base["prefix"] + [{"items": None, "kill": None}]))
    full = build_trace(log, dict(sc_base, phases=sc_base["prefix"] + [{"items": None, "kill": None}]), legacy_row)
    if info["open_error"] or len(info["points"]) <= len(sc_base["prefix"]):
        return [full], 0, 0
    n = info["points"][len(sc_base["prefix"])]
    ks = list(range(1, n + 1))
    if from_item or distinct:
        first = first_item_point(log, len(sc_base["prefix"])) if from_item else 0
        ks = [k for k in info["distinct"][len(sc_base["prefix"])] if k > first]
    if sample is not None and len(ks) > sample:
        ks = sorted(rng.sample(ks, sample))
    scs = [dict(sc_base, phases=sc_base["prefix"] + [{"items": None, "kill": k}]) for k in ks]
    results = list(pool.map(lambda s: (s, run_scenario(base, s)), scs))
    traces = [full]
    for s, (lg, lrow, inf) in results:
        if inf.get("beyond_end"):
            raise MachineryError("C19: crash point %s not reached although the full run has %d points" % (
                s["phases"][-1]["kill"], n))
        traces.append(build_trace(lg, s, lrow))
    return traces, len(ks), n


def enumerate_faults(pool, base, sc_base, both=True, seed=0):
    """Run the workload once to completion, then once per COMMIT j the process asks of sqlite from its first item on:
    that COMMIT is refused - the way sqlite refuses it on a full volume (transaction rolled back) and the way it does
    on a locked file (transaction kept) - the application carries on with the rest of the workload, the process is
    SIGKILLed when the workload is through (or, every third run, closes its databases) and a fresh process reopens
    the files.  both=False: one of the two ways per COMMIT (alternating, the seed decides which starts)."""
    plain = {"items": None, "kill": None}
    log, legacy_row, info = run_scenario(base, dict(sc_base, phases=sc_base["prefix"] + [plain]))
    full = build_trace(log, dict(sc_base, phases=sc_base["prefix"] + [plain]), legacy_row)
    if info["open_error"] or len(info.get("commits", ())) <= len(sc_base["prefix"]):
        return [full], 0, 0
    n = info["commits"][len(sc_base["prefix"])]
    scs = []
    for j in range(1, n + 1):
        for rb in ((True, False) if both else ((j + seed) % 2 == 0,)):
            ph = {"items": None, "kill": None, "fault": {"at": j, "n": 2 if j % 5 == 0 else 1, "rb": rb},
                  "kill_end": (j + rb) % 3 != 0}
            scs.append(dict(sc_base, phases=sc_base["prefix"] + [ph]))
    traces = [full]
    for sc, (lg, lrow, _inf) in pool.map(lambda x: (x, run_scenario(base, x)), scs):
        # (a COMMIT that only Database.close() makes is never asked for in a run that is killed before it closes: such
        # a run is an ordinary kill at the end of the workload)
        traces.append(build_trace(lg, sc, lrow))
    if scs and not any(e["a"] == "Fail" for t in traces for e in t["events"]):
        raise MachineryError("C19: no fault was injected into workload %s (%d COMMITs)" % (sc_base["name"], n))
    return traces, len(scs), n


def corrupt(traces, how):
    """Hand-made bad traces for the negative controls."""
    for t in traces:
        evs = t["events"]
        obs = [i for i, e in enumerate(evs) if e["a"] == "Observe"]
        if how == "drop-commit":
            # a record is acknowledged without its COMMIT having been issued
            for i, e in enumerate(evs):
                if e["a"] == "Return" and i >= 1 and evs[i - 1]["a"] == "Commit":
                    return [dict(t, events=evs[:i - 1] + evs[i:])]
        elif how == "drop-block-commit":
            # a "with database:" block is left normally without the commit its inserts were waiting for
            for i, e in enumerate(evs):
                if e["a"] == "Leave" and e["how"] == "ok" and i >= 1 and evs[i - 1] == {"a": "Commit", "d": e["d"]}:
                    return [dict(t, events=evs[:i - 1] + evs[i:])]
        elif how == "ack-in-aborted-block":
            # the records of a block that was left by an exception are claimed to be acknowledged: the model must
            # NOT have acknowledged them (they are not durable), i.e. the claim is caught by AckedDurable
            for i, e in enumerate(evs):
                if e["a"] == "Leave" and e["how"] == "error":
                    start = max(j for j in range(i) if evs[j] == {"a": "Enter", "d": e["d"]})
                    if sum((x["a"] == "Enter") - (x["a"] == "Leave") for x in evs[start:i] if x.get("d") == e["d"]) \
                            != 1 or any(x["a"] in ("Enter", "Leave") and x["d"] == e["d"] for x in evs[start + 1:i]):
                        continue     # (the outermost block of its database, nothing nested in it)
                    if sum((x["a"] == "Enter") - (x["a"] == "Leave") for x in evs[:start]
                           if x.get("d") == e["d"] and x["a"] in ("Enter", "Leave")) != 0:
                        continue
                    if any(x["a"] == "Return" and TABLES_DB[t["recs"][x["r"] - 1]["kind"]] == e["d"]
                           for x in evs[start:i]):
                        return [dict(t, events=evs[:i] + [dict(e, how="ok")] + evs[i + 1:])]
        elif how == "drop-nested-commit":
            # an INNER block of a database is left normally without the commit the outer block's inserts were
            # waiting for; nothing else commits before the outer block is left normally as well
            depth = {"id": 0, "att": 0}
            for i, e in enumerate(evs):
                if e["a"] == "Enter":
                    depth[e["d"]] += 1
                elif e["a"] == "Crash":
                    depth = {"id": 0, "att": 0}
                elif e["a"] == "Leave":
                    depth[e["d"]] -= 1
                    if e["how"] == "ok" and depth[e["d"]] == 1 and evs[i - 1] == {"a": "Commit", "d": e["d"]} \
                            and evs[i + 1:i + 2] == [{"a": "Leave", "d": e["d"], "how": "ok"}]:
                        return [dict(t, events=evs[:i - 1] + evs[i:])]
        elif how == "foreign-statement":
            # the code runs a statement the specification has no action for
            for i, e in enumerate(evs):
                if e["a"] == "Return":
                    return [dict(t, events=evs[:i + 1] + [{"a": "Unknown", "d": "id", "what": "DROP TABLE Tokens"}]
                                 + evs[i + 1:])]
        elif how == "swallowed-commit-failure":
            # sqlite fails the COMMIT of an insert and the insert call is claimed to have returned all the same
            for i, e in enumerate(evs):
                if e["a"] == "Fail" and i >= 1 and evs[i - 1]["a"] == "Exec" and evs[i - 1]["d"] == e["d"]:
                    # (the trace ends there: the invariant stays broken in every later state)
                    return [dict(t, events=evs[:i + 1] + [{"a": "Return", "r": evs[i - 1]["r"]}])]
        elif how == "failed-commit-took-effect":
            # the COMMIT that sqlite failed is claimed to have made its transaction durable: what the fresh process
            # read back (the observation is left as recorded) no longer matches
            for i, e in enumerate(evs):
                if e["a"] == "Fail" and e["rb"] and i >= 1 and evs[i - 1]["a"] == "Exec" and obs:
                    return [dict(t, events=evs[:i] + [{"a": "Commit", "d": e["d"]}] + evs[i + 1:])]
        elif how == "replace-acked-row":
            # the INSERT that stores an acknowledged record again in another form overwrites the row
            acked = set()
            for i, e in enumerate(evs):
                if e["a"] == "Return":
                    acked.add(e["r"])
                elif e["a"] == "Exec" and e["r"] in acked and e["mode"] == "ignore" and e["v"] > 1 \
                        and evs[i + 1:i + 2] == [{"a": "Commit", "d": e["d"]}]:
                    return [dict(t, events=evs[:i] + [dict(e, mode="replace")] + evs[i + 1:i + 2])]
        elif how == "child-before-parent":
            # the metadata of a credential is written (and committed) before the token it points to
            for m, rec in enumerate(t["recs"], 1):
                p_ = rec["ref"]
                ret = [i for i, e in enumerate(evs) if e["a"] == "Return" and e.get("r") in (m, p_)]
                if rec["kind"] == "metadata" and len(ret) >= 2 and evs[ret[0]]["r"] == p_ \
                        and evs[ret[0] - 1] == {"a": "Commit", "d": "id"}:
                    swap = {m: p_, p_: m}
                    return [dict(t, events=[dict(e, r=swap.get(e["r"], e["r"])) if e["a"] in ("Call", "Exec", "Return")
                                            else e for e in evs])]
        elif obs:
            i = obs[-1]
            o = json.loads(json.dumps(evs[i]))
            acked = {e["r"] for e in evs[:i] if e["a"] == "Return"}
            if how == "lose-acked-row":
                for db in ("id", "att"):
                    for x in o[db]:
                        if x["r"] in acked:
                            o[db].remove(x)
                            return [dict(t, events=evs[:i] + [o] + evs[i + 1:])]
            elif how == "torn-row" and o["id"]:
                o["id"][0]["dig"] = "0" * 16
                return [dict(t, events=evs[:i] + [o] + evs[i + 1:])]
            elif how == "unverifiable" and o["id"]:
                o["verifies"] = False
                return [dict(t, events=evs[:i] + [o] + evs[i + 1:])]
            elif how == "row-other-form":
                # the fresh process reads an acknowledged row back in the OTHER of the forms that were inserted
                for x in o["id"]:
                    digs = t["recs"][x["r"] - 1]["digs"] if x["r"] else []
                    if len(digs) > 1 and x["r"] in acked:
                        x["dig"] = [d for d in digs if d != x["dig"]][0]
                        return [dict(t, events=evs[:i] + [o] + evs[i + 1:])]
            elif how == "tree-other-form":
                # ... and so does the pseudonym the reload path rebuilt (the token lost / changed its content)
                for x in o["tree"]:
                    digs = t["recs"][x["r"] - 1]["digs"] if x["r"] else []
                    if len(digs) > 1 and x["r"] in acked:
                        x["dig"] = [d for d in digs if d != x["dig"]][0]
                        return [dict(t, events=evs[:i] + [o] + evs[i + 1:])]
            elif how == "tree-hole" and len(o["tree"]) >= 2:
                # the reload lost a stored token
                del o["tree"][0]
                return [dict(t, events=evs[:i] + [o] + evs[i + 1:])]
            elif how == "tree-unverified" and o["tree"]:
                # a token of the rebuilt tree does not pass TokenTree.verify
                o["tree"][-1]["ok"] = False
                return [dict(t, events=evs[:i] + [o] + evs[i + 1:])]
            elif how == "credential-lost" and o["creds"] and any(
                    t["recs"][x["r"] - 1]["kind"] == "metadata" for x in o["id"] if x["r"] in acked):
                o["creds"] = [x for x in o["creds"] if x["r"] not in acked]
                return [dict(t, events=evs[:i] + [o] + evs[i + 1:])]
    raise MachineryError("C19: no recorded trace is suitable for the control %r" % how)


TRACE_CONTROLS = (("drop-commit", "AckedDurable"), ("lose-acked-row", "ObsMatchesDurable"),
                  ("torn-row", "ObsNoPartial"), ("unverifiable", "ObsVerifies"),
                  ("drop-block-commit", "AckedDurable"), ("ack-in-aborted-block", "AckedDurable"),
                  ("tree-hole", "ObsRebuiltMatches"), ("tree-unverified", "ObsRebuiltWhole"),
                  ("credential-lost", "ObsRebuiltMatches"),
                  ("drop-nested-commit", "AckedDurable"), ("child-before-parent", "PseudonymVerifies"),
                  ("foreign-statement", "TraceAccepted"),
                  ("swallowed-commit-failure", "AckedDurable"), ("failed-commit-took-effect", "ObsMatchesDurable"),
                  ("replace-acked-row", "AckedUnchanged"), ("row-other-form", "ObsUnchanged"),
                  ("tree-other-form", "ObsRebuiltWhole"))


def trace_controls(good):
    """Hand-made bad traces in ONE TLC run (-continue): each must be rejected by the invariant it breaks.
    (Built from recorded traces, so only meaningful - and only enforced - when the recorded traces are accepted.)"""
    try:
        bad = [corrupt(good, how)[0] for how, _ in TRACE_CONTROLS]
    except MachineryError as e:
        return [(str(e), False)]
    r = tlc_traces(bad, continue_=True)
    found = set()
    for chunk in r.output.split("Error: Invariant ")[1:]:
        inv = chunk.split(" ", 1)[0]
        tids = re.findall(r"/\\ tid = (\d+)", chunk)
        if tids:
            found.add((int(tids[-1]), inv))
    return [("trace control %s is rejected by %s" % (how, inv), (i + 1, inv) in found)
            for i, (how, inv) in enumerate(TRACE_CONTROLS)]


def run(tier, seed, replay=None):
    setup_repo_path()
    ctx = Ctx(PID, tier, seed, "fault_enumeration")
    ctx.cov["rule"] = ("thorough tier: every crash point (before each statement sqlite runs incl. implicit BEGIN/COMMIT and each statement "
                       "of executescript, after each Database.execute/executescript/commit call, after each acknowledged "
                       "insert) of each workload is a separate run of the real code in a fresh process that is SIGKILLed "
                       "there and reopened by another fresh process; non-trivial = distinct (workload, kill points) runs "
                       "whose trace contains at least one database statement; TLC additionally explores the "
                       "specification exhaustively for all workload shapes up to the bound; quick tier: the points that leave "
                       "the same files and acknowledgements as the point before them are left out; the workloads with "
                       "'with database:' blocks and with a long stored history are killed at every point from their "
                       "first item on that differs from the point before it (a statement other than a SELECT ran, an "
                       "insert returned or raised, a block was entered or left, an item completed); of the long-history "
                       "workload a seeded sample of these points is taken; fault workloads: one run per COMMIT of the "
                       "workload in which sqlite refuses that COMMIT (quick: rolled back or kept, alternating; "
                       "thorough: both), followed by the rest of the workload and a kill at its end (every third run: "
                       "a normal close)")
    ctx.assumptions += ["sqlite's WAL/synchronous=NORMAL atomicity and durability under process kill (page cache survives) "
                        "is trusted: kills land between statements, never inside one; power loss is out of scope",
                        "a SIGKILL the process sends to itself is delivered before kill() returns",
                        "the key vault and the Boneh identity algorithm are trusted to build workload material",
                        "a record inserted inside a 'with database:' block counts as acknowledged when the outermost block "
                        "of its database is left normally, never when it is left by IgnoreCommits or another exception "
                        "(the property is silent on blocks; no caller in the repository uses one); blocks of one database "
                        "nest: the records wait for the OUTERMOST block, and an inner block that is left by IgnoreCommits "
                        "or another exception takes the acknowledgement of everything its database holds at that moment "
                        "with it (one connection, one transaction), also when the exception is caught inside the outer block",
                        "blocks are entered and left by one thread",
                        "a record is identified by the primary key of its table; 'unchanged' = the durable row keeps the "
                        "bytes it had when the record was first acknowledged: a later insert of the same key in another "
                        "form (a token without / with its content) returns without touching the row (the code: INSERT OR "
                        "IGNORE) and leaves the acknowledged bytes in place",
                        "a COMMIT that sqlite refuses is injected at the sqlite3 connection in the two ways sqlite can "
                        "leave the transaction (rolled back: full volume / I/O error; kept: locked file); sqlite's own "
                        "behaviour on a really full volume is not exercised; an error from the database that leaves an "
                        "insert call means 'not stored' to the caller"]
    rng = random.Random(seed)
    material = Material(9)
    clock = {"t": time.time(), "cpu": sum(os.times()[:4])}
    phases_t = {}

    def lap(name):
        now, cpu = time.time(), sum(os.times()[:4])
        phases_t[name] = {"wall_s": round(now - clock["t"], 1), "cpu_s_python_and_children": round(cpu - clock["cpu"], 1)}
        clock["t"], clock["cpu"] = now, cpu

    base = scratch_dir("c19-")
    tlcpool = concurrent.futures.ThreadPoolExecutor(max_workers=5)
    try:
        mcjobs = [] if replay else start_model_check(tlcpool, tier)
        with concurrent.futures.ThreadPoolExecutor(max_workers=WORKERS) as pool:
            def scenario(name, items, legacy=False, prefix=()):
                return {"name": name, "plan": material.plan(items), "legacy": legacy, "material": material,
                        "prefix": list(prefix)}
            if replay:
                with open(replay, encoding="utf-8") as f:
                    rp = json.load(f)["replay"]
                src = dict(SCRIPTED)
                src["long-history"] = long_history(LONG_CHAIN)
                name = rp["scenario"]
                key = name.replace("legacy:", "").replace("second-run:", "").replace("faults:", "")
                if key.startswith(("generated-", "genblocks-", "gennest-")):
                    src[key] = generated_items(random.Random(int(key.split("-")[1])), int(key.split("-")[2]),
                                               blocks=not key.startswith("generated-"), nest=key.startswith("gennest-"))
                sc = scenario(name, src[key], legacy=name.startswith("legacy:"))
                sc["phases"] = rp["phases"]
                log, lrow, _info = run_scenario(base, sc)
                batches = {"replay": [build_trace(log, sc, lrow)]}
            else:
                batches = {}
                quick = tier == "quick"
                # (name, items, legacy, prefix, options of enumerate_single)
                # quick: kill points that leave the same files and acknowledgements as the point before them are
                # left out; thorough: every point
                plans = [("all-kinds", SCRIPTED["all-kinds"], False, (), {"distinct": quick}),
                         # the same workload on files written by a release with schema version 1
                         ("legacy:all-kinds", SCRIPTED["all-kinds"], True, (), {"distinct": quick}),
                         # "with database:" blocks left in every way, each followed by ordinary inserts; killed at
                         # every point from the first item on
                         ("batches", SCRIPTED["batches"], False, (), {"from_item": True}),
                         # a first process stores a long history and exits; the kill hits the process that has
                         # reloaded it and adds to it; every restarted process rebuilds the pseudonym from the file
                         # (quick: one run, killed at a seeded point while it adds to the history)
                         ("long-history", long_history(LONG_CHAIN), False,
                          ({"items": list(range(LONG_CHAIN)), "kill": None},),
                          {"phase": {"items": None, "kill": None, "kill_rel": random.Random(seed + 19).randint(1, 30)}}
                          if quick else {"from_item": True, "sample": 60, "rng": random.Random(seed + 19)}),
                         # nested "with database:" blocks of one database (the commit gate is one counter): the
                         # whole run is checked state by state, the kill lands at the points from the first item
                         # on (quick: a seeded sample of them)
                         ("nested", SCRIPTED["nested"], False, (),
                          dict({"from_item": True}, **({"sample": 16, "rng": random.Random(seed + 23)} if quick else {}))),
                         # whole credentials through one add_credential call (token, metadata, attestations)
                         ("sequence", SCRIPTED["sequence"], False, (),
                          dict({"from_item": True}, **({"sample": 10, "rng": random.Random(seed + 29)} if quick else {}))),
                         # records that are stored again in another form (same key, other bytes), before and after
                         # ordinary inserts and restarts
                         ("forms", SCRIPTED["forms"], False, (),
                          dict({"from_item": True}, **({"sample": 9, "rng": random.Random(seed + 31)} if quick else {}))),
                         # sqlite refuses a COMMIT (rolled back / kept) at every COMMIT of the workload, the
                         # application carries on, then the kill
                         ("faults", SCRIPTED["faults"], False, (), {"faults": True, "both": not quick, "seed": seed})]
                if tier == "thorough":
                    plans.append(("forms-2", SCRIPTED["forms-2"], False, (), {"from_item": True}))
                    plans.append(("faults:forms-2", SCRIPTED["forms-2"], False, (), {"faults": True}))
                    plans.append(("faults-2", SCRIPTED["faults-2"], False, (), {"faults": True}))
                    plans.append(("faults:nested-2", SCRIPTED["nested-2"], False, (), {"faults": True}))
                    plans.append(("faults:long-history", long_history(LONG_CHAIN, tail=True), False,
                                  ({"items": list(range(LONG_CHAIN)), "kill": None},), {"faults": True}))
                    plans.append(("nested-2", SCRIPTED["nested-2"], False, (), {"from_item": True}))
                    plans.append(("sequence-2", SCRIPTED["sequence-2"], False, (), {"from_item": True}))
                    plans.append(("legacy:sequence", SCRIPTED["sequence"], True, (), {"from_item": True}))
                    for gi in range(6):
                        gseed = seed * 1000 + 700 + gi
                        n = 6 + gi % 4
                        plans.append(("gennest-%d-%d" % (gseed, n),
                                      generated_items(random.Random(gseed), n, blocks=True, nest=True), False, (),
                                      {"from_item": True}))
                    # first process stores two items and exits; the kill hits the SECOND process
                    plans.append(("second-run:fork", SCRIPTED["fork"], False, ({"items": [0, 1], "kill": None},), {}))
                    plans.append(("fork", SCRIPTED["fork"], False, (), {}))
                    plans.append(("legacy:fork", SCRIPTED["fork"], True, ({"items": [0], "kill": None},), {}))
                    plans.append(("batches-2", SCRIPTED["batches-2"], False, (), {"from_item": True}))
                    plans.append(("legacy:batches", SCRIPTED["batches"], True, (), {}))
                    for gi in range(8):
                        gseed = seed * 1000 + gi
                        n = 5 + gi % 5
                        plans.append(("generated-%d-%d" % (gseed, n), generated_items(random.Random(gseed), n),
                                      False, (), {}))
                    for gi in range(6):
                        gseed = seed * 1000 + 500 + gi
                        n = 6 + gi % 4
                        plans.append(("genblocks-%d-%d" % (gseed, n),
                                      generated_items(random.Random(gseed), n, blocks=True), False, (),
                                      {"from_item": True}))
                npoints = {}
                # the workloads are enumerated side by side (each: one full run, then its kill points on the pool)
                with concurrent.futures.ThreadPoolExecutor(max_workers=len(plans) + 1) as planpool:
                    jobs = [(name, legacy,
                             planpool.submit(single_run, base, scenario(name, items, legacy, prefix), opts["phase"])
                             if "phase" in opts else
                             planpool.submit(enumerate_faults, pool, base, scenario(name, items, legacy, prefix),
                                             **{k: v for k, v in opts.items() if k != "faults"})
                             if "faults" in opts else
                             planpool.submit(enumerate_single, pool, base, scenario(name, items, legacy, prefix), **opts))
                            for name, items, legacy, prefix, opts in plans]

                    def double_kills(first):
                        # two kills: the restarted process (which re-inserts what was not acknowledged) is killed
                        # as well (starts as soon as the crash points of the workload are known)
                        name, items = "all-kinds", SCRIPTED["all-kinds"]
                        n1 = first.result()[2]
                        pairs = [(k1, k2) for k1 in range(1, n1 + 1) for k2 in range(1, n1 + 12)]
                        pairs = rng.sample(pairs, min(len(pairs), 40 if tier == "quick" else 1500))
                        scs = []
                        for k1, k2 in pairs:
                            sc = scenario(name, items)
                            sc["phases"] = [{"items": None, "kill": k1}, {"items": None, "kill": k2}]
                            scs.append(sc)
                        return [build_trace(lg, sc, lrow)
                                for sc, (lg, lrow, _inf) in pool.map(lambda s: (s, run_scenario(base, s)), scs)]
                    doubles_job = planpool.submit(double_kills, jobs[0][2])
                    for name, legacy, job in jobs:
                        traces, n, _all = job.result()
                        npoints[name] = n
                        batches.setdefault("legacy" if legacy else "long" if name.endswith("long-history") else "fresh",
                                           []).extend(traces)
                    doubles = doubles_job.result()
                if doubles:
                    batches["double"] = doubles
                ctx.note("crash_points", npoints)
        lap("enumeration of kill points in child processes (TLC on the spec runs alongside)")
    except BaseException:
        tlcpool.shutdown(wait=True, cancel_futures=True)
        raise
    finally:
        shutil.rmtree(base, ignore_errors=True)

    # TLC on the specification itself is still running: it is joined after the recorded traces have been validated
    try:
        all_traces = [t for ts in batches.values() for t in ts]
        good = [t for t in all_traces if len(t["kills"]) == 1 and not any(e["a"] == "OpenError" for e in t["events"])]
        with concurrent.futures.ThreadPoolExecutor(max_workers=4) as tp:
            # (the few very long traces are validated by a TLC of their own: breadth-first search has nothing to do in
            # parallel on them)
            main_job = tp.submit(tlc_traces, [t for t in all_traces if t not in batches.get("long", ())])
            long_job = tp.submit(tlc_traces, batches["long"]) if batches.get("long") else None
            side = []
            if not replay:
                # trace-level negative controls and the (informational) program-layer conformance run alongside
                fulls = [t for t in all_traces if not t["kills"] and not any(e["a"] == "OpenError" for e in t["events"])]
                controls_job = tp.submit(trace_controls, sorted(good + fulls, key=lambda t: len(t["events"])))
                side.append(tp.submit(strict_conformance, ctx, (batches.get("fresh", []) + batches.get("double", []))[:300]
                                      + batches.get("legacy", [])[:300], "fresh+legacy"))
                if batches.get("long") and tier == "thorough":
                    side.append(tp.submit(strict_conformance, ctx, batches["long"][:300], "long"))
            r = main_job.result()
            rl = long_job.result() if long_job else None
            for j in side:
                j.result()
            controls = controls_job.result() if not replay else []
        if r.ok and (rl is None or rl.ok):
            ctx.add_tlc("trace-all", r)
            if rl is not None:
                ctx.add_tlc("trace-long", rl)
            for cname, fired in controls:
                ctx.control(cname, fired)
        else:
            ctx.note("trace_controls", "not enforced: the recorded traces they are derived from are rejected themselves")
            # something is rejected: go through the batches one by one to report every distinct failure
            for tag, traces in batches.items():
                validate(ctx, traces, tag)
            if not ctx.violations:
                raise MachineryError("C19: TLC rejects the combined batch (%s) but no single batch" % (
                    r.violated or rl.violated))
        lap("TLC validation of the recorded traces, controls, program-layer conformance")
        if mcjobs:
            finish_model_check(ctx, mcjobs)
        lap("waiting for TLC on the specification")
    finally:
        tlcpool.shutdown(wait=True, cancel_futures=True)
    ctx.note("timing", phases_t)
    nev = 0
    for t in all_traces:
        nev += len(t["events"])
        if any(e["a"] not in ("Start", "Crash", "Exit", "Observe", "Call", "Return") for e in t["events"]):
            ctx.nontrivial((t["name"], json.dumps(t["phases"])))
    ctx.evaluated(len(all_traces))
    ctx.traces(len(all_traces))
    ctx.note("trace_events", nev)
    kinds = {}
    for t in all_traces:
        for e in t["events"]:
            kinds[e["a"]] = kinds.get(e["a"], 0) + 1
    ctx.note("trace_event_kinds", kinds)
    ctx.note("child_processes", sum(len(t["phases"]) + 1 for t in all_traces))
    for t in all_traces[:1] + [x for x in all_traces if len(x["kills"]) == 1][40:42]:
        ctx.sample({"workload": t["name"], "killed_at": t["kills"],
                    "events": [" ".join(str(e.get(k, "")) for k in ("a", "d", "r")).strip() for e in t["events"]][:70]})
    ctx.cov["exhaustive"] = not replay   # every crash point of every scripted/generated workload (single kill)

    return ctx.finish()
