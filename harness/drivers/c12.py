"""C12 - the peer graph (ipv8.peerdiscovery.network.Network): model checking of specs/Network.tla,
(R) adaptive replay of its dumped state graph and of TLC -simulate behaviours on the real Network with real Peer
objects, (T) TLC validation (specs/NetworkTrace.tla) of long random histories recorded from the real Network.

What is demanded of the code (strict): after every call the abstract state (verified peers, their addresses,
advertised services, known addresses), the contents of the caller's own service collections and the return value of
every lookup equal what the TLC state says.
The caller's side (Network.tla: bufs, DiscoverServicesBuf, CallerMutates): discover_services takes an Iterable; the
replay hands it real collection objects that stay with the caller (set, set subclass, list, dict, a MutableSet, a
generator, a hand-made one-shot iterator - the specification does not distinguish them), the same object for several
peers, and changes them in place afterwards: the graph must neither keep them nor write to them.
Removal (Network.tla: RemovePeer(p, pa), adv, HistoryAgrees, RemovedIsClean): remove_peer is called with the stored object
of a verified peer (pa = 0) and with ANOTHER Peer object of the key at any address - for verified peers and for peers that
are not verified but may have advertised services before (services_per_peer has entries for them).  The history variable
adv (what was handed to discover_services for a peer since it was last removed) must equal services_per_peer after every
call, and peers-per-service / walkable-per-service must be what adv implies: a peer that advertised, was removed and is
added again advertises nothing.
What is only reported (impl_layer_drift): the contents of the by-key index and of the three LRU caches, and the
answer of get_introductions_from (outside the statement of the property)."""
from __future__ import annotations

import hashlib
import json
import os
import random
import shutil
from collections import deque
from concurrent.futures import ThreadPoolExecutor

from .. import tlc as _tlc
from ..common import Ctx, setup_repo_path
from ..tlc import FrozenDict, MachineryError, parse_simulate_file, run_tlc, scratch_dir, to_tla

PID = "C12"
JAVA_OPTS = ("-XX:TieredStopAtLevel=1",)     # quick tier: every TLC run is short, the C2 compiler costs more than it gives
QUERIES = {"GetByAddress", "GetByKey", "GetPeersForService", "GetWalkable", "GetIntroductionsFrom", "Snapshot"}
STRICT = ("verified", "addrOf", "services", "all", "bufs")
LENIENT = ("byKey", "ipCache", "introCache", "svcCache")
INVS = ["TypeOK", "LookupsAgree", "AdvertisedSinceRemoval", "BlacklistedNeverVerified", "SnapshotRoundTrip"]
# HistoryAgrees = AdvertisedSinceRemoval + the per-service lookups computed from the history variable: follows from
# LookupsAgree and AdvertisedSinceRemoval; evaluated as such in the universes below and on every recorded history
INVS_FULL = ["TypeOK", "LookupsAgree", "HistoryAgrees", "BlacklistedNeverVerified", "SnapshotRoundTrip"]
FULL_HISTORY_IN = ("small_2x2x1", "own_2x1x2")
PROPS = ["QueriesPure", "RemovedIsGone", "RemovedIsClean", "ReAddWorks", "ArgumentsNotRetained", "OnlyTheNamedPeer",
         "CallerKeepsItsCollection"]
ALL_ACTIONS = ["AddVerified", "DiscoverAddress", "DiscoverServices", "RemoveByAddress", "RemovePeer", "LoadSnapshot",
               "GetByAddressG", "GetByKey", "GetPeersForService", "GetWalkable", "GetIntroductionsFrom", "Snapshot"]
CALLER_ACTIONS = ["DiscoverServicesBuf", "CallerMutates"]          # enabled in universes with NB > 0
COLL_KINDS = ("set", "list", "dict", "setsub", "mset")             # re-iterable collections of the caller
ITER_KINDS = ("gen", "oneshot")                                    # one-shot iterators


def make_cfg(path, consts, *, view=None, invariants=INVS, props=PROPS, spec="Spec"):
    lines = ["SPECIFICATION " + spec, "CONSTANTS"]
    for k, v in consts.items():
        lines.append("  %s = %s" % (k, to_tla(v)))
    if view:
        lines.append("VIEW " + view)
    lines += ["INVARIANT " + i for i in invariants]
    lines += ["PROPERTY " + p for p in props]
    with open(path, "w", encoding="utf-8") as f:
        f.write("\n".join(lines) + "\n")
    return path


def consts(np_, na, ns, v6=(), black_addr=(), black_mid=(), caps=(2, 2, 1), defects=(), depth=7, nb=0, iterbufs=()):
    return {"NP": np_, "NA": na, "NS": ns, "V6": frozenset(v6), "BlackAddr": frozenset(black_addr),
            "BlackMid": frozenset(black_mid), "IpCap": caps[0], "IntroCap": caps[1], "SvcCap": caps[2],
            "NB": nb, "IterBufs": frozenset(iterbufs), "Defects": frozenset(defects), "MaxDepth": depth}


# ---------------------------------------------------------------------------------------------------
# the caller's collections of service ids (bufs of Network.tla) as real Python objects
# ---------------------------------------------------------------------------------------------------
class SetSub(set):
    """A subclass of set."""


def _make_mset():
    from collections.abc import MutableSet

    class ListSet(MutableSet):
        """A MutableSet that is not a set (insertion ordered)."""

        def __init__(self, items=()):
            self._l = []
            for x in items:
                self.add(x)

        def __contains__(self, x):
            return x in self._l

        def __iter__(self):
            return iter(list(self._l))

        def __len__(self):
            return len(self._l)

        def add(self, x):
            if x not in self._l:
                self._l.append(x)

        def discard(self, x):
            if x in self._l:
                self._l.remove(x)
    return ListSet


ListSet = _make_mset()


def _drain(items):
    """A generator over a list the harness keeps: what is left of it can be read without touching the generator."""
    while items:
        yield items.pop(0)


class OneShot:
    """A hand-made one-shot iterator (iter(x) is x)."""

    def __init__(self, items):
        self.items = items

    def __iter__(self):
        return self

    def __next__(self):
        if not self.items:
            raise StopIteration
        return self.items.pop(0)


class Caller:
    """The collections 1..NB that the caller of discover_services owns.  real: {b: kind}."""

    def __init__(self, w, real):
        self.w, self.real, self.obj, self.left = w, real, {}, {}
        for b in range(1, w.c["NB"] + 1):
            vals = [w.svc[(b - 1) % w.ns + 1]]                     # Init of Network.tla
            kind = real[b]
            if (b in w.c["IterBufs"]) != (kind in ITER_KINDS):
                raise MachineryError("collection %d realised as %r contradicts IterBufs" % (b, kind))
            if kind in ITER_KINDS:
                self._iterator(b, vals)
            else:
                self.obj[b] = {"set": set, "list": list, "dict": dict.fromkeys, "setsub": SetSub, "mset": ListSet}[kind](vals)

    def _iterator(self, b, vals):
        self.left[b] = list(vals)
        self.obj[b] = _drain(self.left[b]) if self.real[b] == "gen" else OneShot(self.left[b])

    def mutate(self, b, sids):
        """The caller changes ITS object in place (an iterator slot: a new iterator takes the place)."""
        vals = [self.w.svc[s] for s in sorted(sids)]
        kind, o = self.real[b], self.obj.get(b)
        if kind in ITER_KINDS:
            self._iterator(b, vals)
        elif kind == "list":
            o[:] = vals
        elif kind == "dict":
            for x in [x for x in o if x not in vals]:
                del o[x]
            o.update(dict.fromkeys(vals))
        else:
            for x in [x for x in o if x not in vals]:
                o.discard(x)
            for x in vals:
                o.add(x)

    def contents(self, b):
        return list(self.left[b]) if self.real[b] in ITER_KINDS else list(self.obj[b])


def realizations(c):
    """The ways the caller's collections are realised; the specification is the same for all of them."""
    n = c["NB"]
    if not n:
        return [{}]
    out = []
    for i in range(len(COLL_KINDS)):
        coll = 0
        real = {}
        for b in range(1, n + 1):
            if b in c["IterBufs"]:
                real[b] = ITER_KINDS[(i + b) % len(ITER_KINDS)]
            else:
                real[b] = COLL_KINDS[(i + coll) % len(COLL_KINDS)]
                coll += 1
        out.append(real)
    return out


# ---------------------------------------------------------------------------------------------------
# the real objects
# ---------------------------------------------------------------------------------------------------
class World:
    """Real keys, real address objects and service ids for one universe (NP peers, NA addresses, NS services)."""

    def __init__(self, c, seed=0, network_cls=None):
        from ipv8.keyvault.crypto import default_eccrypto
        from ipv8.messaging.interfaces.udp.endpoint import UDPv4Address, UDPv6Address
        from ipv8.messaging.serialization import default_serializer
        from ipv8.peer import Peer
        from ipv8.peerdiscovery.network import Network
        self.c = c
        self.np, self.na, self.ns = c["NP"], c["NA"], c["NS"]
        self.Peer, self.Network = Peer, network_cls or Network
        self.PlainNetwork = Network
        self.V4, self.V6 = UDPv4Address, UDPv6Address
        self.ser = default_serializer
        self.pub, self.kbin, self.pid_of, self.mid = {}, {}, {b"": 0}, {}
        for p in range(1, self.np + 1):
            sk = default_eccrypto.key_from_private_bin(
                b"LibNaCLSK:" + hashlib.sha512(b"c12-%d-%d" % (seed, p)).digest())
            self.pub[p] = sk.pub()
            self.kbin[p] = self.pub[p].key_to_bin()
            self.pid_of[self.kbin[p]] = p
            self.mid[p] = self.pub[p].key_to_hash()
        self.addr, self.aid_of = {}, {}
        for a in range(1, self.na + 1):
            self.addr[a] = (UDPv6Address("fd00::%x" % a, 7000 + a) if a in c["V6"]
                            else UDPv4Address("10.0.%d.%d" % (a // 250, a % 250 + 1), 7000 + a))
            self.aid_of[tuple(self.addr[a])] = a
        self.svc = {s: (b"service-%02d" % s).ljust(20, b".") for s in range(1, self.ns + 1)}
        self.sid_of = {v: k for k, v in self.svc.items()}
        self.sid_of[None] = 0
        self.realizations = realizations(c)
        self.realization = self.realizations[0]
        # speed of the projection only: the key OBJECTS handed out by this World -> p; immutable records shared
        self._pid_by_obj = {id(k): p for p, k in self.pub.items()}
        self._rec_addr, self._rec_all = {}, {}
        self._kbins = set(self.kbin.values())

    def home(self, p):
        return (p - 1) % self.na + 1

    def network(self, cls=None):
        net = (cls or self.Network)()
        net.reverse_ip_cache_size = self.c["IpCap"]
        net.reverse_intro_cache_size = self.c["IntroCap"]
        net.reverse_service_cache_size = self.c["SvcCap"]
        net.blacklist.extend(self.addr[a] for a in sorted(self.c["BlackAddr"]))
        net.blacklist_mids.extend(self.mid[p] for p in sorted(self.c["BlackMid"]))
        net.c12_caller = Caller(self, self.realization)        # the caller that talks to this graph (not read by Network)
        return net

    def peer(self, p, a):
        return self.Peer(self.pub[p], self.addr[a])      # a fresh object, as made for every received packet

    def pid(self, peer):
        k = peer.public_key
        p = self._pid_by_obj.get(id(k))
        if p is not None and self.pub[p] is k:
            return p
        return self.pid_of[k.key_to_bin()]

    def aid(self, address):
        try:
            return self.aid_of[tuple(address)]
        except KeyError:
            return -1

    def stored(self, net, p):
        for x in net.verified_peers:
            if x.public_key.key_to_bin() == self.kbin[p]:
                return x
        return None

    # ---- one call; returns the answer as a frozenset of ints
    def apply(self, net, name, args):
        none = frozenset()
        if name == "AddVerified":
            net.add_verified_peer(self.peer(args[0], args[1]))
            return none
        if name == "DiscoverAddress":
            p, pa, a, sv, ns = args
            net.discover_address(self.peer(p, pa), self.addr[a], self.svc[sv] if sv else None, ns)
            return none
        if name == "DiscoverServices":
            p, pa, ss = args
            net.discover_services(self.peer(p, pa), [self.svc[s] for s in sorted(ss)])
            return none
        if name == "DiscoverServicesBuf":
            p, pa, b = args
            net.discover_services(self.peer(p, pa), net.c12_caller.obj[b])     # the caller's object itself
            return none
        if name == "CallerMutates":
            net.c12_caller.mutate(args[0], args[1])
            return none
        if name == "RemoveByAddress":
            net.remove_by_address(self.addr[args[0]])
            return none
        if name == "RemovePeer":
            p, pa = args if len(args) > 1 else (args[0], 0)
            if pa:
                net.remove_peer(self.peer(p, pa))      # another Peer object of the key (p verified or not)
                return none
            obj = self.stored(net, p)
            if obj is None:
                raise MachineryError("RemovePeer(%d, 0) replayed although the peer is not verified" % p)
            net.remove_peer(obj)
            return none
        if name == "LoadSnapshot":
            net.load_snapshot(b"".join(self.ser.pack("address", self.addr[a]) for a in sorted(args[0])))
            return none
        if name == "GetByAddress":
            r = net.get_verified_by_address(self.addr[args[0]])
            return none if r is None else frozenset([self.pid(r)])
        if name == "GetByKey":
            r = net.get_verified_by_public_key_bin(self.kbin[args[0]])
            return none if r is None else frozenset([self.pid(r)])
        if name == "GetPeersForService":
            return frozenset(self.pid(x) for x in net.get_peers_for_service(self.svc[args[0]]))
        if name == "GetWalkable":
            s, o = args
            r = net.get_walkable_addresses(self.svc[s], o) if s else net.get_walkable_addresses()
            return frozenset(self.aid(x) for x in r)
        if name == "GetIntroductionsFrom":
            return frozenset(self.aid(x) for x in net.get_introductions_from(self.peer(args[0], self.home(args[0]))))
        if name == "Snapshot":
            fresh = self.PlainNetwork()
            fresh.load_snapshot(net.snapshot())
            return frozenset(self.aid(x) for x in fresh.get_walkable_addresses())
        raise MachineryError("unknown action " + name)

    # ---- projection by direct attribute reads (never through the query methods)
    def _addrs(self, obj):
        v4 = v6 = 0
        for cls, ad in obj.addresses.items():
            if cls is self.V4:
                v4 = self.aid(ad)
            elif cls is self.V6:
                v6 = self.aid(ad)
            else:
                raise MachineryError("unexpected address class %r in Peer.addresses" % (cls,))
        r = self._rec_addr.get((v4, v6))
        if r is None:
            r = self._rec_addr[(v4, v6)] = FrozenDict({"v4": v4, "v6": v6})
        return r

    def _entry(self, known, intro, svc, ns):
        r = self._rec_all.get((known, intro, svc, ns))
        if r is None:
            r = self._rec_all[(known, intro, svc, ns)] = FrozenDict({"known": known, "intro": intro, "svc": svc, "ns": ns})
        return r

    def project(self, net, lenient=True):
        stored = {}
        for x in net.verified_peers:
            p = self.pid(x)
            if p in stored:
                raise MachineryError("two objects of one key in verified_peers")
            stored[p] = x
        none = self._rec_addr.get((0, 0)) or self._rec_addr.setdefault((0, 0), FrozenDict({"v4": 0, "v6": 0}))
        spp, sid_of, kbin, empty = net.services_per_peer, self.sid_of, self.kbin, frozenset()
        st = {"verified": frozenset(stored),
              "addrOf": tuple([self._addrs(stored[p]) if p in stored else none for p in range(1, self.np + 1)]),
              "services": tuple([frozenset([sid_of[s] for s in spp[kbin[p]]]) if kbin[p] in spp else empty
                                 for p in range(1, self.np + 1)])}
        if not self._kbins.issuperset(spp):
            st["services"] = ("unknown keys in services_per_peer", tuple(sorted(set(spp) - self._kbins)))
        al = []
        byaid = {self.aid(k): v for k, v in net._all_addresses.items()}
        if -1 in byaid:
            al = ("unknown address in _all_addresses",)
        else:
            for a in range(1, self.na + 1):
                w = byaid.get(a)
                if w is None:
                    al.append(self._entry(False, 0, 0, False))
                else:
                    al.append(self._entry(True, self.pid_of.get(w.introduced_by, -1), self.sid_of.get(w.services, -1),
                                          bool(w.new_style)))
        st["all"] = tuple(al)
        st["bufs"] = tuple(frozenset(self.sid_of.get(x, -1) for x in net.c12_caller.contents(b))
                           for b in range(1, self.c["NB"] + 1))
        if lenient:
            bk = net.verified_by_public_key_bin
            st["byKey"] = frozenset(self.pid_of.get(k, -1) for k in bk)
            st["ipCache"] = tuple((self.aid(a), self.pid(x)) for a, x in net.reverse_ip_lookup.items())
            st["introCache"] = tuple((self.pid(x), frozenset(self.aid(a) for a in lst))
                                     for x, lst in net.reverse_intro_lookup.items())
            sc = []
            for s, lst in net.reverse_service_lookup.items():
                ents = set()
                for x in lst:
                    p = self.pid(x)
                    own = bk.get(self.kbin[p]) is x or stored.get(p) is x
                    ads = [self.aid(a) for a in x.addresses.values()]
                    ents.add((p, 0 if own else (ads[0] if len(ads) == 1 else -1)))
                sc.append((self.sid_of.get(s, -1), frozenset(ents)))
            st["svcCache"] = tuple(sc)
        return st


def norm_lenient(st):
    """Only entries that can influence an answer of the repaired code: the stored objects of verified peers that
    advertise the service (a removed peer's object lingers in reverse_service_lookup until the peer, re-added,
    advertises the service again - discover_services then replaces it)."""
    out = {k: st[k] for k in LENIENT}
    out["svcCache"] = tuple((s, frozenset(p for p, m in ents if m == 0 and p in st["verified"]
                                          and s in st["services"][p - 1]))
                            for s, ents in st["svcCache"])
    return out


def _addrset(st, p):
    return {st["addrOf"][p - 1]["v4"], st["addrOf"][p - 1]["v6"]} - {0}


def abs_answers(st, c):
    """The abstract answers (AbsByKey, AbsCand, AbsPeersFor, AbsWalkable, SnapAddrs of Network.tla) of a state, in Python.
    NOT an oracle of its own: validate_mirror() checks it against the value TLC computed on every query edge of every
    dumped graph before it is used (for the audits of states that have no outgoing edge in the bounded graph)."""
    ver, al, sv = st["verified"], st["all"], st["services"]
    out = {}
    for p in range(1, c["NP"] + 1):
        out[("GetByKey", (p,))] = frozenset([p]) if p in ver else frozenset()
    for a in range(1, c["NA"] + 1):
        out[("GetByAddress", (a,))] = frozenset(p for p in ver if a in _addrset(st, p))      # the candidates
    dom = {a for a in range(1, c["NA"] + 1) if al[a - 1]["known"]}

    def held_by(peers):
        out_ = set()
        for p in peers:
            out_ |= _addrset(st, p)
        return out_

    def svc_of(a):
        e = al[a - 1]
        return (set(sv[e["intro"] - 1]) if e["intro"] else set()) | ({e["svc"]} if e["svc"] else set())
    out[("GetWalkable", (0, False))] = frozenset(dom - held_by(ver))
    for s_ in range(1, c["NS"] + 1):
        pf = frozenset(p for p in ver if s_ in sv[p - 1])
        out[("GetPeersForService", (s_,))] = pf
        for o in (False, True):
            out[("GetWalkable", (s_, o))] = frozenset(a for a in dom - held_by(pf)
                                                      if not (o and al[a - 1]["ns"]) and s_ in svc_of(a))
    out[("Snapshot", ())] = frozenset((st["addrOf"][p - 1]["v6"] or st["addrOf"][p - 1]["v4"]) for p in ver
                                      if _addrset(st, p))
    return out


def answer_ok(key, ret, expected):
    if key[0] == "GetByAddress":
        return (not ret and not expected) or (len(ret) == 1 and ret <= expected)
    return ret == expected


def validate_mirror(g, c):
    """Every query edge of the graph: abs_answers(source state) must be what TLC put into ret of the target state."""
    n = 0
    memo = {}
    for s, name, args, d in g.edges:
        if name not in QUERIES or name == "GetIntroductionsFrom":
            continue
        if s not in memo:
            memo[s] = abs_answers(g.states[s], c)
        key = call_key(name, args)
        if not answer_ok(key, g.states[d]["ret"], memo[s][key]):
            raise MachineryError("the Python mirror of the abstract answers disagrees with TLC on %s%s: %s vs %s" % (
                name, args, sorted(memo[s][key]), sorted(g.states[d]["ret"])))
        n += 1
    return n


def stale_looking(proj):
    """Does the real by-key index / a real cache hold something that the abstract state does not back (a removed peer,
    an abandoned address, a foreign object of a verified peer, a verified peer missing from a cached service list)?
    Such entries may be harmless (validated when read) - the audit asks every lookup to find out."""
    ver = proj["verified"]
    if proj["byKey"] != ver:
        return True
    for a, p in proj["ipCache"]:
        if p not in ver or a not in _addrset(proj, p):
            return True
    for s_, ents in proj["svcCache"]:
        if any(m != 0 and p in ver for p, m in ents):
            return True
        if any(s_ in proj["services"][p - 1] and (p, 0) not in ents for p in ver):
            return True
    return False


def abs_cand(st, a):
    """AbsCand(a) of Network.tla evaluated on a TLC state."""
    return {p for p in st["verified"] if a in (st["addrOf"][p - 1]["v4"], st["addrOf"][p - 1]["v6"])}


_LABELS = {}


def label_of(name, args):
    try:
        return _LABELS[(name, args)]
    except KeyError:
        v = _LABELS[(name, args)] = "%s(%s)" % (name, ", ".join(str(sorted(x)) if isinstance(x, frozenset) else str(x)
                                                                 for x in args))
        return v


def call_key(name, args):
    return (name, args[:1]) if name == "GetByAddress" else (name, args)


class Replayer:
    """Executes spec transitions on a real Network and compares; shared by graph replay and simulate replay."""

    def __init__(self, ctx, world, tag, report=True):
        self.ctx, self.w, self.tag, self.report = ctx, world, tag, report
        self.drift = {}
        self.lenient_stops = 0
        self.found = {}         # signature -> (description, replay object) of the shortest failing history
        self.count = {}         # signature -> number of failing histories
        self.ops = 0
        self.audits = 0
        self.rm = {"stored_object": 0, "other_object_verified": 0, "other_object_not_verified": 0,
                   "other_object_not_verified_advertising": 0}     # the kinds of remove_peer executed (vacuity)

    def step(self, net, src_state, name, args, dsts, labels):
        """dsts: candidate successor states (dicts) for this call. Returns index of the matching one, or None when the
        walk must end (violation or un-followable)."""
        ret = self.w.apply(net, name, args)
        self.ops += 1
        if name == "RemovePeer":
            p, pa = args
            if not pa:
                self.rm["stored_object"] += 1
            elif p in src_state["verified"]:
                self.rm["other_object_verified"] += 1
            else:
                self.rm["other_object_not_verified"] += 1
                if src_state["services"][p - 1]:
                    self.rm["other_object_not_verified_advertising"] += 1
        proj = self.w.project(net, lenient=False)
        good = []
        for i, d in enumerate(dsts):
            if all(proj[k] == d[k] for k in STRICT) and (name == "GetIntroductionsFrom" or ret == d["ret"]):
                good.append(i)
        if good:
            if len(good) == 1 and self.ops % 3:
                return good[0]               # the (informative) comparison of the caches is made on every third call
            best = None
            nproj = norm_lenient(self.w.project(net))
            for i in good:
                if nproj == norm_lenient(dsts[i]) and ret == dsts[i]["ret"]:
                    best = i
                    break
            if best is None:
                best = good[0]
                nd = norm_lenient(dsts[best])
                for k in LENIENT:
                    if nproj[k] != nd[k]:
                        self.drift[k] = self.drift.get(k, 0) + 1
                if ret != dsts[best]["ret"]:
                    self.drift["ret:GetIntroductionsFrom"] = self.drift.get("ret:GetIntroductionsFrom", 0) + 1
            return best
        if name == "GetByAddress" and all(proj[k] == src_state[k] for k in STRICT):
            cand = abs_cand(src_state, args[0])
            if (not ret and not cand) or (ret and ret <= cand):
                self.lenient_stops += 1      # another verified holder of the address than the spec's cache predicts
                return None
        d = dsts[0]
        diff = {k: {"spec": d[k], "impl": proj[k]} for k in STRICT if proj[k] != d[k]}
        if ret != d["ret"] and name != "GetIntroductionsFrom":
            diff["ret"] = {"spec": sorted(set().union(*[set(x["ret"]) for x in dsts])) if len(dsts) > 1 else d["ret"],
                           "impl": ret}
        kinds = sorted({"answer" if k == "ret" else "state" for k in diff})
        sig = "replay:%s:%s" % (name, "+".join(kinds))
        if name in QUERIES:      # which change of the graph the lookup failed to follow (exact for the shortest history)
            sig += ":after:" + next((x.split("(")[0] for x in reversed(labels[:-1]) if x.split("(")[0] not in QUERIES),
                                    "Init")
        self._record(sig, labels, describe(name, diff), diff)
        return None

    def _record(self, sig, labels, text, diff):
        self.count[sig] = self.count.get(sig, 0) + 1
        if sig not in self.found or len(labels) < len(self.found[sig][1]["actions"]):
            desc = "real Network diverges from Network.tla at %s (history %s): %s" % (labels[-1], " ; ".join(labels), text)
            if self.w.c["NB"]:
                desc += " [the caller's collections are %s]" % ", ".join(
                    "%d: %s" % kv for kv in sorted(self.w.realization.items()))
            self.found[sig] = (desc, {"binding": "R", "part": self.tag, "constants": self.w.c,
                                      "realization": {str(k): v for k, v in self.w.realization.items()},
                                      "actions": list(labels), "diff": diff})

    def audit_if_drift(self, net, st, labels):
        """st: the TLC state the real Network is in.  When the real by-key index / caches are not what the
        specification's implementation layer predicts, or hold entries the abstract state does not back, every lookup
        is asked (on this Network, which is discarded afterwards; each one with the caches as they were found) and
        compared with the abstract answers of st; the abstract state must not move."""
        proj = self.w.project(net)
        if norm_lenient(proj) == norm_lenient(st) and not stale_looking(proj):
            return True
        self.audits += 1
        expected = abs_answers(st, self.w.c)
        history = list(labels)
        last_mut = next((x.split("(")[0] for x in reversed(labels) if x.split("(")[0] not in QUERIES), "Init")
        # every lookup is asked in the state as it is now: the three LRU caches are put back before each question (with
        # capacities of 1 an earlier question of the audit would rotate the very entry under suspicion out)
        caches = [(n, [(k, list(v) if isinstance(v, list) else v) for k, v in getattr(net, n).items()])
                  for n in ("reverse_ip_lookup", "reverse_intro_lookup", "reverse_service_lookup")]
        for key in sorted(expected, key=repr):
            name, args = key
            labels = history + [label_of(name, args)]
            for n, items in caches:
                setattr(net, n, type(getattr(net, n))((k, list(v) if isinstance(v, list) else v) for k, v in items))
            ret = self.w.apply(net, name, args)
            self.ops += 1
            proj = self.w.project(net, lenient=False)
            diff = {k: {"spec": st[k], "impl": proj[k]} for k in STRICT if proj[k] != st[k]}
            if not answer_ok(key, ret, expected[key]):
                diff["ret"] = {"spec": expected[key], "impl": ret}
            if diff:
                kinds = sorted({"answer" if k == "ret" else "state" for k in diff})
                self._record("replay:%s:%s:after:%s" % (name, "+".join(kinds), last_mut), labels, describe(name, diff), diff)
                return False
        return True

    def signatures(self):
        return set(self.found)

    def vacuity(self):
        """Every kind of remove_peer of the specification must have been executed on the real Network."""
        missing = [k for k, n in self.rm.items() if not n]
        if missing and not self.found:
            raise MachineryError("vacuous replay %s: kinds of remove_peer never executed: %s" % (self.tag, missing))
        return self.rm

    def flush(self):
        """Report the shortest failing history of every signature."""
        if self.report:
            for sig, (desc, obj) in sorted(self.found.items(), key=lambda kv: (len(kv[1][1]["actions"]), kv[0])):
                obj["failing_histories_with_this_signature"] = self.count[sig]
                self.ctx.violation(sig, desc, obj)


def describe(name, diff):
    out = []
    for k, v in sorted(diff.items()):
        if k == "ret":
            out.append("returns %s, the specification demands %s" % (sorted(v["impl"]), sorted(v["spec"])))
        else:
            out.append("%s is %s, the specification demands %s" % (k, _short(v["impl"]), _short(v["spec"])))
    return "; ".join(out)


def _short(v):
    if isinstance(v, frozenset):
        return sorted(v)
    if isinstance(v, tuple):
        return [_short(x) for x in v]
    if isinstance(v, dict):
        return {k: _short(x) for k, x in v.items()}
    return v


# ---------------------------------------------------------------------------------------------------
# binding R (1): adaptive cover of the dumped state graph
# ---------------------------------------------------------------------------------------------------
def parse_dot_memo(path):
    """harness.tlc.parse_dot with the value parser memoised (the same variable values recur in thousands of states;
    parsed values are immutable, sharing them is safe)."""
    orig, cache = _tlc.parse_value, {}

    def pv(text):
        try:
            return cache[text]
        except KeyError:
            v = cache[text] = orig(text)
            return v
    _tlc.parse_value = pv
    try:
        return _tlc.parse_dot(path)
    finally:
        _tlc.parse_value = orig


def job_dump(tmp, c, tag):
    """One worker, nothing to check: a deterministic dump of the state graph (depth hidden: exact with one worker)."""
    cfg = make_cfg(os.path.join(tmp, tag + "-g.cfg"), c, view="NoDepth", invariants=[], props=[])
    dot = os.path.join(tmp, tag + ".dot")
    r = run_tlc("Network.tla", cfg, dump=dot, workers=1, coverage=False, java_opts=JAVA_OPTS)
    if not r.ok:
        raise MachineryError("Network.tla (%s): TLC fails while dumping: %s" % (tag, r.violated))
    return dot


def job_check(c, tag, tmp, workers):
    """The model with every invariant and action property checked (depth kept in the view: exact with any workers)."""
    cfg = make_cfg(os.path.join(tmp, tag + "-m.cfg"), c, view="NoRetOp",
                   invariants=INVS_FULL if tag in FULL_HISTORY_IN else INVS)
    r = run_tlc("Network.tla", cfg, timeout=7200, workers=workers, java_opts=JAVA_OPTS)
    if not r.ok:
        raise MachineryError("Network.tla (%s): TLC reports %s on the specification itself" % (tag, r.violated))
    missing = [a for a in ALL_ACTIONS + (CALLER_ACTIONS if c["NB"] else []) if r.coverage.get(a, (0, 0))[1] == 0]
    if missing:
        raise MachineryError("vacuous model %s: actions never taken: %s" % (tag, missing))
    return r


def replay_graph(ctx, c, tag, seed, dot, max_ops=None, report=True, network_cls=None, all_depth=0):
    g = parse_dot_memo(dot)
    os.unlink(dot)
    g.edges = [(s, "GetByAddress", a[:2], d) if n == "GetByAddressG" else (s, n, a, d) for s, n, a, d in g.edges]
    mirrored = validate_mirror(g, c)
    w = World(c, seed, network_cls)
    rp = Replayer(ctx, w, tag, report)
    # group the out-edges of every state by call (GetByAddress: the returned peer is a result, not an input)
    groups = {}
    for i, (s, name, args, _d) in enumerate(g.edges):
        groups.setdefault(s, {}).setdefault(call_key(name, args), []).append(i)
    # BFS tree
    parent, order, dq = {}, [], deque()
    for s in g.init:
        parent[s] = None
        dq.append(s)
    while dq:
        s = dq.popleft()
        order.append(s)
        for key, eis in groups.get(s, {}).items():
            for ei in eis:
                d = g.edges[ei][3]
                if d not in parent:
                    parent[d] = (s, key, ei)
                    dq.append(d)
    todo = {s: list(reversed(list(groups.get(s, {})))) for s in order}
    done_groups = set()
    total_groups = sum(len(v) for v in groups.values())
    rng = random.Random(seed)
    states = list(order)
    if max_ops is not None:
        rng.shuffle(states)
    nwalks = 0
    covered_edges = set()

    def run_group(net, cur, key, labels):
        eis = groups[cur][key]
        name = key[0]
        args = g.edges[eis[0]][2]
        labels.append(label_of(name, args[:1] if name == "GetByAddress" else args))
        i = rp.step(net, g.states[cur], name, args, [g.states[g.edges[e][3]] for e in eis], labels)
        done_groups.add((cur, key))
        if i is None:
            return None
        covered_edges.add(eis[i])
        return g.edges[eis[i]][3]

    # pass 1: ALL call sequences of length <= all_depth (the caches of the real code depend on the path, not only on
    # the specification state reached), following the branch the real code takes
    npaths = 0
    if all_depth:
        stack = [((), g.init[0])]
        while stack:
            calls, at = stack.pop()
            for key in list(groups.get(at, {})):
                # a sequence that hands over a collection of the caller is executed with every realisation of it
                handed = key[0] == "DiscoverServicesBuf" or any(k[0] == "DiscoverServicesBuf" for k in calls)
                nxt = None
                for real in (w.realizations if handed else w.realizations[:1]):
                    w.realization = real
                    net = w.network()
                    cur, labels = g.init[0], []
                    for k in calls:
                        cur = run_group(net, cur, k, labels)
                    if cur != at:
                        raise MachineryError("re-execution of %s does not reproduce the state reached before" % (labels,))
                    if key in todo[at]:
                        todo[at].remove(key)
                    nxt = run_group(net, at, key, labels)
                    npaths += 1
                    if report:
                        ctx.nontrivial((tag, tuple(labels), tuple(sorted(real.items())) if handed else ()))
                    if nxt is None:
                        break
                    if not rp.audit_if_drift(net, g.states[nxt], labels):
                        nxt = None
                        break
                if nxt is not None and len(calls) + 1 < all_depth:
                    stack.append((calls + (key,), nxt))
    # pass 2: every remaining (state, call) pair once, reached along the BFS tree
    for target in states:
        attempts = 0
        while todo[target] and attempts < 2:
            path = []
            s = target
            while parent[s] is not None:
                path.append(parent[s])
                s = parent[s][0]
            path.reverse()
            w.realization = w.realizations[nwalks % len(w.realizations)]
            net = w.network()
            cur, labels, ok = s, [], True
            for (src, key, ei) in path:
                if cur != src:
                    break                        # the real code took another allowed branch: cover from where we are
                if key in todo[src]:
                    todo[src].remove(key)
                cur = run_group(net, src, key, labels)
                if cur is None:
                    ok = False
                    break
            if not ok or cur != target:
                attempts += 1            # the target was not reached (divergence, or another allowed branch taken)
            while ok and todo.get(cur):
                key = todo[cur].pop()
                nxt = run_group(net, cur, key, labels)
                if nxt is None:
                    ok = False
                    break
                cur = nxt
            nwalks += 1
            if ok:
                rp.audit_if_drift(net, g.states[cur], labels)
            ctx_key = (tag, tuple(labels))
            if report:
                ctx.nontrivial(ctx_key)
                if nwalks in (7, 400):
                    ctx.sample({"part": tag, "replayed_history": labels})
            if max_ops is not None and rp.ops >= max_ops:
                break
        else:
            continue
        break
    rp.flush()
    if report:
        ctx.evaluated(rp.ops)
        ctx.traces(nwalks + npaths)
        ctx.note("replay_" + tag, {"all_call_sequences_up_to_length": all_depth, "sequences_executed": npaths,
                                   "realizations_of_the_callers_collections": w.realizations if c["NB"] else None,
                                   "audits_on_drift": rp.audits, "query_edges_checked_against_python_mirror": mirrored,
                                   "walks": nwalks, "real_operations": rp.ops, "graph_states": len(g.states),
                                   "graph_edges": len(g.edges), "calls_in_graph": total_groups,
                                   "calls_executed": len(done_groups), "edges_covered": len(covered_edges),
                                   "complete_call_cover": len(done_groups) == total_groups,
                                   "stopped_on_other_allowed_answer": rp.lenient_stops,
                                   "remove_peer_calls": rp.vacuity(),
                                   "impl_layer_drift": rp.drift})
    return rp


# ---------------------------------------------------------------------------------------------------
# binding R (2): TLC -simulate behaviours (deeper than the exhaustive bound) replayed as they are
# ---------------------------------------------------------------------------------------------------
def job_simulate(tmp, c, tag, seed, num, depth):
    cfg = make_cfg(os.path.join(tmp, tag + "-s.cfg"), c, props=[], invariants=INVS_FULL)
    d = os.path.join(tmp, tag + "-sim")
    os.mkdir(d)
    r = run_tlc("Network.tla", cfg, simulate="file=%s,num=%d" % (os.path.join(d, "b"), num), depth=depth, seed=seed + 1,
                workers=1, coverage=False, java_opts=JAVA_OPTS)
    if r.violated:
        raise MachineryError("Network.tla simulate (%s): TLC reports %s on the specification itself" % (tag, r.violated))
    behaviours = [parse_simulate_file(os.path.join(d, fn)) for fn in sorted(os.listdir(d))]
    shutil.rmtree(d, ignore_errors=True)
    if len(behaviours) < num // 2:
        raise MachineryError("TLC -simulate produced %d behaviours, expected %d" % (len(behaviours), num))
    return behaviours


def replay_simulate(ctx, c, tag, seed, behaviours, depth):
    w = World(c, seed)
    rp = Replayer(ctx, w, tag)
    seen_actions = set()
    for bi, beh in enumerate(behaviours):
        w.realization = w.realizations[bi % len(w.realizations)]
        net = w.network()
        labels = []
        prev = beh[0][2]
        for name, args, st in beh[1:]:
            if name == "GetByAddressG":
                name, args = "GetByAddress", args[:2]
            seen_actions.add(name)
            labels.append(label_of(name, args[:1] if name == "GetByAddress" else args))
            if rp.step(net, prev, name, args, [st], labels) is None:
                break
            prev = st
        else:
            rp.audit_if_drift(net, prev, labels)
        ctx.nontrivial((tag, tuple(labels)))
        if bi == 0:
            ctx.sample({"part": tag, "simulated_behaviour_replayed": labels})
    rp.flush()
    ctx.evaluated(rp.ops)
    ctx.traces(len(behaviours))
    ctx.note("simulate_" + tag, {"behaviours": len(behaviours), "depth": depth, "real_operations": rp.ops,
                                 "realizations_of_the_callers_collections": w.realizations,
                                 "actions_seen": sorted(seen_actions), "remove_peer_calls": rp.vacuity(),
                                 "stopped_on_other_allowed_answer": rp.lenient_stops, "impl_layer_drift": rp.drift})
    return rp


# ---------------------------------------------------------------------------------------------------
# binding T: long random histories of the real Network validated by TLC (specs/NetworkTrace.tla)
# ---------------------------------------------------------------------------------------------------
TRACE_C = consts(20, 20, 3, v6=range(15, 21), black_addr=(13, 14), black_mid=(19, 20), caps=(3, 3, 2), depth=1000000,
                 nb=4, iterbufs=(4,))


def record_trace(w, rng, length, real=None):
    w.realization = real or w.realizations[0]
    net = w.network()
    nb = w.c["NB"]
    np_, na, ns = w.np, w.na, w.ns
    hot_p = rng.sample(range(1, np_ + 1), 6)
    hot_a = rng.sample(range(1, na + 1), 6)

    def rp():
        return rng.choice(hot_p) if rng.random() < 0.7 else rng.randrange(1, np_ + 1)

    def ra():
        return rng.choice(hot_a) if rng.random() < 0.7 else rng.randrange(1, na + 1)

    events = []
    for _ in range(length):
        x = rng.random()
        e = {"op": "", "p": 0, "pa": 0, "a": 0, "sv": 0, "ns": False, "ss": [], "b": 0}
        if x < 0.13:
            e.update(op="AddVerified", p=rp(), a=ra())
            call = ("AddVerified", (e["p"], e["a"]))
        elif x < 0.25:
            sv = rng.randrange(0, ns + 1)
            e.update(op="DiscoverAddress", p=rp(), pa=ra(), a=ra(), sv=sv, ns=bool(sv) and rng.random() < 0.4)
            call = ("DiscoverAddress", (e["p"], e["pa"], e["a"], e["sv"], e["ns"]))
        elif x < 0.31:
            ss = sorted(rng.sample(range(1, ns + 1), rng.randrange(1, ns + 1)))
            e.update(op="DiscoverServices", p=rp(), pa=ra(), ss=ss)
            call = ("DiscoverServices", (e["p"], e["pa"], frozenset(ss)))
        elif x < 0.35:
            full = [b for b in range(1, nb + 1) if net.c12_caller.contents(b)]
            if not full:
                continue
            e.update(op="DiscoverServicesBuf", p=rp(), pa=ra(), b=rng.choice(full))
            call = ("DiscoverServicesBuf", (e["p"], e["pa"], e["b"]))
        elif x < 0.38:
            b = rng.randrange(1, nb + 1)
            now = sorted(w.sid_of[v] for v in net.c12_caller.contents(b))
            ss = sorted(rng.sample(range(1, ns + 1), rng.randrange(0, ns + 1)))
            if ss == now:
                continue
            e.update(op="CallerMutates", b=b, ss=ss)
            call = ("CallerMutates", (b, frozenset(ss)))
        elif x < 0.44:
            e.update(op="RemoveByAddress", a=ra())
            call = ("RemoveByAddress", (e["a"],))
        elif x < 0.50:
            ver = sorted(w.pid(v) for v in net.verified_peers)
            if ver and rng.random() < 0.5:
                e.update(op="RemovePeer", p=rng.choice(ver))             # the stored object (pa = 0)
            else:
                # another Peer object of some key, verified or not; often one that advertised while it was not verified
                unv = sorted(w.pid_of[k] for k, v in net.services_per_peer.items() if v and w.pid_of[k] not in ver)
                e.update(op="RemovePeer", p=rng.choice(unv) if unv and rng.random() < 0.5 else rp(), pa=ra())
            call = ("RemovePeer", (e["p"], e["pa"]))
        elif x < 0.53:
            ss = sorted(rng.sample(range(1, na + 1), rng.randrange(1, 4)))
            e.update(op="LoadSnapshot", ss=ss)
            call = ("LoadSnapshot", (frozenset(ss),))
        elif x < 0.65:
            e.update(op="GetByAddress", a=ra())
            call = ("GetByAddress", (e["a"],))
        elif x < 0.72:
            e.update(op="GetByKey", p=rp())
            call = ("GetByKey", (e["p"],))
        elif x < 0.81:
            e.update(op="GetPeersForService", sv=rng.randrange(1, ns + 1))
            call = ("GetPeersForService", (e["sv"],))
        elif x < 0.92:
            sv = rng.randrange(0, ns + 1)
            e.update(op="GetWalkable", sv=sv, ns=bool(sv) and rng.random() < 0.4)
            call = ("GetWalkable", (e["sv"], e["ns"]))
        elif x < 0.97:
            e.update(op="GetIntroductionsFrom", p=rp())
            call = ("GetIntroductionsFrom", (e["p"],))
        else:
            e.update(op="Snapshot")
            call = ("Snapshot", ())
        ret = w.apply(net, *call)
        st = w.project(net, lenient=False)
        if not isinstance(st["all"][0], dict) or not isinstance(st["services"][0], frozenset) \
                or any(-1 in s_ for s_ in st["bufs"]):
            raise MachineryError("projection failed while recording: %r" % (st,))
        e["bufs"] = [sorted(s_) for s_ in st["bufs"]]
        e["ret"] = sorted(ret)
        e["verified"] = sorted(st["verified"])
        e["addr"] = [[d["v4"], d["v6"]] for d in st["addrOf"]]
        e["services"] = [sorted(s) for s in st["services"]]
        e["all"] = [[int(d["known"]), d["intro"], d["svc"], int(d["ns"])] for d in st["all"]]
        events.append(e)
    return {"events": events, "realization": {str(k): v for k, v in w.realization.items()}}


def corrupt_caller_traces(traces):
    """Two corrupted copies of recorded histories for the controls of the caller's side."""
    bad3 = bad4 = None
    for t in traces:
        evs = t["events"]
        for i, e in enumerate(evs):
            if bad3 is None and e["op"] == "CallerMutates":
                bad3 = json.loads(json.dumps([{"events": evs[:i + 1]}]))
                x = bad3[0]["events"][i]
                x["services"][0] = [1] if x["services"][0] != [1] else [2]
            if bad4 is None and e["op"] == "DiscoverServicesBuf":
                bad4 = json.loads(json.dumps([{"events": evs[:i + 1]}]))
                x = bad4[0]["events"][i]
                x["bufs"][e["b"] - 1] = sorted(set(x["bufs"][e["b"] - 1]) ^ {1})
        if bad3 and bad4:
            return bad3, bad4
    raise MachineryError("the recorded histories have no CallerMutates / DiscoverServicesBuf event to corrupt")


def corrupt_removal_traces(traces):
    """Two corrupted copies of recorded histories for the controls of remove_peer with another object of the key:
    (5) a peer that advertised while it was NOT verified keeps its services across its removal, (6) a verified peer
    removed through another object of its key stays in the membership."""
    bad5 = bad6 = None
    for t in traces:
        evs = t["events"]
        for i, e in enumerate(evs):
            if i == 0 or e["op"] != "RemovePeer" or not e["pa"]:
                continue
            before = evs[i - 1]
            if bad5 is None and e["p"] not in before["verified"] and before["services"][e["p"] - 1]:
                bad5 = json.loads(json.dumps([{"events": evs[:i + 1]}]))
                bad5[0]["events"][i]["services"][e["p"] - 1] = before["services"][e["p"] - 1]
            if bad6 is None and e["p"] in before["verified"]:
                bad6 = json.loads(json.dumps([{"events": evs[:i + 1]}]))
                x = bad6[0]["events"][i]
                x["verified"] = sorted(set(x["verified"]) | {e["p"]})
                x["addr"][e["p"] - 1] = before["addr"][e["p"] - 1]
        if bad5 and bad6:
            return bad5, bad6
    raise MachineryError("the recorded histories have no remove_peer (through another object of the key) of a peer that "
                         "advertised while it was not verified / of a verified peer to corrupt")


def job_trace(tmp, traces, name, invariants=("TraceAccepted",)):
    path = os.path.join(tmp, name + ".json")
    with open(path, "w", encoding="utf-8") as f:
        json.dump(traces, f)
    cfg = make_cfg(os.path.join(tmp, name + ".cfg"), TRACE_C, spec="TraceSpec", props=[],
                   invariants=list(invariants) + INVS_FULL)
    r = run_tlc("NetworkTrace.tla", cfg, env={"TRACE_FILE": path}, coverage=False, workers=4, timeout=7200,
                java_opts=JAVA_OPTS)
    os.unlink(path)
    return r


BAD_TRACES = ["trace with one walkable address dropped from an answer is rejected",
              "trace in which a removed peer stays verified is rejected",
              "trace in which a peer's services follow a later change of the caller's collection is rejected",
              "trace in which discover_services writes into the collection it was handed is rejected",
              "trace in which a peer that advertised while it was not verified keeps its services across remove_peer is "
              "rejected",
              "trace in which a verified peer removed through another Peer object of its key stays verified is rejected"]


def bad_trace_controls(ctx, r, n):
    """One TLC run over the n corrupted histories with the invariant TraceRejected (no history is followed to its end):
    it holds iff every one of them is rejected; otherwise the error trace names a history that was accepted."""
    if r.ok and r.distinct < n:
        raise MachineryError("the corrupted histories were not loaded (%s states)" % r.distinct)
    accepted = None
    if not r.ok:
        if r.violated != "TraceRejected" or not r.error_trace:
            raise MachineryError("TLC on the corrupted histories: %s" % r.violated)
        accepted = r.error_trace[-1][1].get("tid")
    for i, name in enumerate(BAD_TRACES[:n]):
        ctx.control(name, accepted is None or (isinstance(accepted, int) and accepted != i + 1))


def trace_verdict(ctx, traces, r, tag):
    ctx.add_tlc(tag, r)
    if not r.ok:
        last = r.error_trace[-1][1] if r.error_trace else {}
        tid, l = last.get("tid"), last.get("l")
        bad = traces[tid - 1]["events"] if isinstance(tid, int) else []
        ev = bad[l - 1] if isinstance(l, int) and 0 < l <= len(bad) else None
        hist = ["%s%s" % (e["op"], [e[k] for k in ("p", "pa", "a", "sv", "ns", "ss", "b") if e[k] not in (0, False, [])])
                for e in bad[:l]] if ev else []
        ctx.violation("trace:%s:%s" % (r.violated, ev["op"] if ev else "?"),
                      "recorded history of the real Network is not a behaviour of Network.tla (%s) at event %s: %s "
                      "returned %s" % (r.violated, l, hist[-1] if hist else "?", ev["ret"] if ev else "?"),
                      {"binding": "T", "constants": TRACE_C, "history": hist[-40:], "event": ev, "event_index": l,
                       "realization": traces[tid - 1].get("realization") if isinstance(tid, int) else None})
    else:
        ctx.traces(len(traces))
        ctx.evaluated(sum(len(t["events"]) for t in traces))
        for t in traces:
            ctx.nontrivial(("trace", tuple((e["op"], e["p"], e["a"], e["sv"]) for e in t["events"])))
    return r.ok


# ---------------------------------------------------------------------------------------------------
SPEC_CONTROLS = [  # (pinned deviation, NS, what must be violated, invariants, properties)
    ("rba", 1, "ByKeyAgrees", ["ByKeyAgrees"], []),
    ("rba", 1, "ReAddWorks", [], ["ReAddWorks"]),
    ("rba", 1, "RemovedIsGone", [], ["RemovedIsGone"]),
    ("ipstale", 1, "ByAddressAgrees", ["ByAddressAgrees"], []),
    ("walk", 2, "QueriesPure", [], ["QueriesPure"]),
    ("svcjoin", 1, "PeersForAgrees", ["PeersForAgrees"], []),
    ("svcjoin", 2, "WalkableAgrees", ["WalkableAgrees"], []),
    # the caller's collections (NS = 0 stands for the universe OWN_C: one collection, one one-shot iterator)
    ("alias", 0, "ArgumentsNotRetained", [], ["ArgumentsNotRetained"]),
    ("alias", 0, "OnlyTheNamedPeer", [], ["OnlyTheNamedPeer"]),
    ("alias", 0, "CallerKeepsItsCollection", [], ["CallerKeepsItsCollection"]),
    ("iteronce", 0, "PeersForAgrees", ["PeersForAgrees"], []),
    ("iteronce", 0, "WalkableAgrees", ["WalkableAgrees"], []),
    # remove_peer of a peer that is not verified (it advertised before): the history decides what is advertised
    ("rmunver", 1, "AdvertisedSinceRemoval", ["AdvertisedSinceRemoval"], []),
    ("rmunver", 1, "PeersForHistory", ["PeersForHistory"], []),
    ("rmunver", 1, "WalkableHistory", ["WalkableHistory"], []),
    ("rmunver", 1, "RemovedIsClean", [], ["RemovedIsClean"])]


def own_consts(depth, defects=()):
    return consts(2, 1, 2, caps=(1, 1, 1), nb=2, iterbufs=[2], defects=defects, depth=depth)


def job_spec_control(tmp, i):
    """A pinned deviation switched on in the specification must violate the property it is about."""
    d, ns, inv, invs, props = SPEC_CONTROLS[i]
    c = consts(2, 2, ns, caps=(1, 1, 1), defects=[d], depth=6) if ns else own_consts(4, [d])
    cfg = make_cfg(os.path.join(tmp, "ctl%d.cfg" % i), c, view="NoRetOp", invariants=invs, props=props)
    r = run_tlc("Network.tla", cfg, coverage=False, workers=2, java_opts=JAVA_OPTS)
    return (not r.ok) and (r.violated == inv or (inv in PROPS and r.violated is not None))


def job_intro_note(tmp):
    """Informative only: can get_introductions_from return addresses that are no longer known / re-parented?
    (reverse_intro_lookup is not invalidated either; the statement of C12 does not list this lookup.)"""
    c = consts(2, 2, 1, caps=(1, 1, 1), depth=4)
    cfg = make_cfg(os.path.join(tmp, "intro.cfg"), c, view="NoRetOp", invariants=["IntroAgrees"], props=[])
    r = run_tlc("Network.tla", cfg, coverage=False, workers=2, java_opts=JAVA_OPTS)
    return {"IntroAgrees_violated_in_the_specification_of_the_repaired_code": r.violated == "IntroAgrees",
            "counterexample": [lbl.split(" line")[0] for lbl, _st in r.error_trace][1:],
            "treated_as": "outside the statement of C12: reported, not a violation"}


def forgetful_network():
    """A hand-made wrong Network (remove_peer forgets the by-key index) for the binding control."""
    from ipv8.peerdiscovery.network import Network

    class ForgetfulNetwork(Network):
        def remove_peer(self, peer):
            with self.graph_lock:
                for address in peer.addresses.values():
                    self._all_addresses.pop(address, None)
                self.verified_peers.discard(peer)
                self.services_per_peer.pop(peer.public_key.key_to_bin(), None)
    return ForgetfulNetwork


def verified_only_network():
    """A hand-made wrong Network whose remove_peer does nothing for a peer that is not verified (binding control)."""
    from ipv8.peerdiscovery.network import Network

    class VerifiedOnlyNetwork(Network):
        def remove_peer(self, peer):
            if peer in self.verified_peers:
                super().remove_peer(peer)
    return VerifiedOnlyNetwork


def keeping_network():
    """A hand-made wrong Network that keeps the caller's collection (when it is a set) for the binding control."""
    from ipv8.peerdiscovery.network import Network

    class KeepingNetwork(Network):
        def discover_services(self, peer, services):
            key = peer.public_key.key_to_bin()
            fresh = key not in self.services_per_peer
            super().discover_services(peer, services)
            if fresh and isinstance(services, set):
                self.services_per_peer[key] = services
    return KeepingNetwork


def run_replay(path):
    """./check C12 --replay replays/C12-xxxx.json : re-executes a stored failing history (binding R) on the real Network
    of the current tree and compares with what the specification demanded when the file was written."""
    import ast
    from ..common import jsonable
    with open(path, encoding="utf-8") as f:
        doc = json.load(f)
    obj = doc["replay"]
    if obj.get("binding") != "R":
        print("replay files of recorded traces are not re-executable on their own: re-run ./check C12 (seed %s)" % doc["seed"])
        return 2
    c = dict(obj["constants"])
    c.setdefault("NB", 0)
    c.setdefault("IterBufs", [])
    for k in ("V6", "BlackAddr", "BlackMid", "Defects", "IterBufs"):
        c[k] = frozenset(c[k])
    w = World(c, doc["seed"])
    if obj.get("realization"):
        w.realization = {int(k): v for k, v in obj["realization"].items()}
    net = w.network()
    ret = frozenset()
    for label in obj["actions"]:
        name, _, inner = label.partition("(")
        args = tuple(frozenset(x) if isinstance(x, list) else x for x in ast.literal_eval("(" + inner[:-1] + ",)"))
        ret = w.apply(net, name, args)
        print("  %-40s -> %s" % (label, sorted(ret)))
    proj = w.project(net, lenient=False)
    still = False
    for k, v in obj["diff"].items():
        now = jsonable(ret if k == "ret" else proj[k])
        ok = now == v["spec"] or (k == "ret" and name == "GetByAddress" and now and set(now) <= set(v["spec"]))
        print("%s: now %s, specification demanded %s, was %s" % (k, now, v["spec"], v["impl"]))
        still = still or not ok
    print("VIOLATION property=C12 replay=%s (still diverges)" % path if still else "C12 replay: conforms now")
    return 1 if still else 0


def run(tier, seed, replay=None):
    setup_repo_path()
    if replay:
        return run_replay(replay)
    ctx = Ctx(PID, tier, seed, "model_checking")
    ctx.cov["rule"] = ("TLC enumerates every sequence of Network calls (add_verified_peer, discover_address, "
                       "discover_services - with fresh lists and with collections the caller keeps, re-uses and changes - "
                       "remove_peer - with the stored object and with another object of the key, of verified and of not "
                       "verified peers -, remove_by_address, load_snapshot and the six lookups) over small "
                       "universes up to the depth bound; every (state, call) pair of the dumped graphs is executed on "
                       "the real Network with real Peer objects and the abstract state and the returned value compared "
                       "with the TLC successor state; non-trivial = distinct replayed histories (graph walks, simulated "
                       "behaviours) and distinct recorded histories accepted by TLC")
    ctx.assumptions += ["single-threaded use of Network (graph_lock not exercised)",
                        "every call that takes a Peer is made with a fresh Peer object carrying one address; remove_peer "
                        "gets the stored object of a verified peer or a fresh Peer object of any key (verified or not) "
                        "at any address",
                        "the caller's collections handed to discover_services are realised as set, set subclass, list, "
                        "dict, a MutableSet that is no set, a generator and a hand-made one-shot iterator; objects "
                        "RETURNED by the graph (get_services_for_peer, the lists of peers) are not changed by the caller",
                        "answers are compared as sets of public keys / addresses (order and object identity of the "
                        "returned Peer instances are not demanded)",
                        "get_introductions_from and the contents of the caches are outside the statement: compared but "
                        "only reported as impl_layer_drift",
                        "the exhaustive depth in the 3x3x2 universe (%d calls, ~90 enabled calls per state) is below the 6 "
                        "named in the property; %d calls are exhausted in the 2x2x1 universe and 3x3x2 is sampled by "
                        "TLC -simulate to depth %d" % ((3, 5, 14) if tier == "quick" else (4, 7, 30))]
    global JAVA_OPTS
    rng = random.Random(seed)
    q = tier == "quick"
    JAVA_OPTS = ("-XX:TieredStopAtLevel=1",) if q else ()
    ncpu = os.cpu_count() or 4
    # universe -> (constants with the depth of the dumped + replayed graph, depth of the model-checking run)
    universes = [("small_2x2x1", consts(2, 2, 1, caps=(1, 1, 1), depth=4 if q else 5), 5 if q else 7),
                 ("v6_2x2x2", consts(2, 2, 2, v6=[2], caps=(1, 1, 1), depth=3 if q else 4), 4 if q else 6),
                 ("black_3x3x1", consts(3, 3, 1, v6=[3], black_addr=[2], black_mid=[3], caps=(2, 1, 1),
                                        depth=3 if q else 4), 4 if q else 5)]
    universes.append(("own_2x1x2", own_consts(3 if q else 4), 4 if q else 6))
    if not q:
        universes.append(("v6_2x3x2", consts(2, 3, 2, v6=[3], caps=(1, 1, 1), depth=3), 4))
    # the universe named in the property (3 peers x 3 addresses x 2 services): model checked (no dump) and sampled
    big = consts(3, 3, 2, v6=[3], caps=(2, 2, 1), depth=3 if q else 4)
    nsim, dsim = (150, 14) if q else (2500, 30)
    sim_c = dict(big, MaxDepth=dsim, NB=2, IterBufs=frozenset([2]))     # the deep behaviours hand collections over too
    ctl_c = consts(2, 2, 1, caps=(1, 1, 1), depth=3)
    ctl_own = own_consts(2)
    # binding T: record first (cheap), so that TLC validates while the graphs are replayed
    w = World(TRACE_C, seed)
    ntr, length = (24, 200) if q else (300, 200)
    traces = [record_trace(w, rng, length, w.realizations[i % len(w.realizations)]) for i in range(ntr)]
    bad1 = json.loads(json.dumps(traces[:1]))
    bad2 = json.loads(json.dumps(traces[:1]))
    ev1 = next((e for e in bad1[0]["events"] if e["op"] == "GetWalkable" and e["ret"]), None)
    ev2 = next((e for e in bad2[0]["events"] if e["op"] == "RemovePeer"), None)
    if ev1 is None or ev2 is None:
        raise MachineryError("the first recorded history has no non-empty GetWalkable / no RemovePeer to corrupt")
    ev1["ret"] = ev1["ret"][:-1]
    ev2["verified"] = sorted(set(ev2["verified"]) | {ev2["p"]})
    # the caller's side: (3) the services of a peer follow a change the caller makes to its own collection afterwards,
    # (4) discover_services writes a service into the collection it was handed
    bad3, bad4 = corrupt_caller_traces(traces)
    # remove_peer through another object of the key: (5) services of a not verified peer survive, (6) the peer stays
    bad5, bad6 = corrupt_removal_traces(traces)

    tmp = scratch_dir("c12-")
    ex = ThreadPoolExecutor(max_workers=12)
    try:
        # what the replay (this thread) waits for goes first: the dumps; then what TLC needs longest
        f_ctl_dump = ex.submit(job_dump, tmp, ctl_c, "control")
        f_ctl_own = ex.submit(job_dump, tmp, ctl_own, "control_own")
        f_dump = {tag: ex.submit(job_dump, tmp, c, tag) for tag, c, _cd in universes}
        f_sim = ex.submit(job_simulate, tmp, sim_c, "sim_3x3x2", seed, nsim, dsim)
        f_trace = ex.submit(job_trace, tmp, traces, "traces")
        f_bad = ex.submit(job_trace, tmp, bad1 + bad2 + bad3 + bad4 + bad5 + bad6, "bad", ("TraceRejected",))
        f_ctl = [ex.submit(job_spec_control, tmp, i) for i in range(len(SPEC_CONTROLS))]
        f_intro = ex.submit(job_intro_note, tmp)
        f_check = {tag: ex.submit(job_check, dict(c, MaxDepth=cd), tag, tmp, max(2, ncpu // 4)) for tag, c, cd in universes}
        f_big = ex.submit(job_check, big, "big_3x3x2", tmp, max(2, ncpu // 2))

        import time as _time
        t0, marks = _time.monotonic(), {}

        def mark(k):
            marks[k] = round(_time.monotonic() - t0, 1)
        ctl_dot = f_ctl_dump.result()
        shutil.copy(ctl_dot, ctl_dot + ".2")
        rp = replay_graph(ctx, ctl_c, "control", seed, ctl_dot, report=False, network_cls=forgetful_network())
        ctx.control("replay flags a Network whose remove_peer leaves the by-key index behind",
                    any(s.startswith(("replay:GetByKey:answer", "replay:AddVerified")) for s in rp.signatures()))
        rp = replay_graph(ctx, ctl_c, "control", seed, ctl_dot + ".2", report=False, network_cls=verified_only_network())
        ctx.control("replay flags a Network whose remove_peer ignores a peer that is not verified (its services stay)",
                    any(s.startswith("replay:RemovePeer:state") for s in rp.signatures()))
        rp = replay_graph(ctx, ctl_own, "control_own", seed, f_ctl_own.result(), report=False,
                          network_cls=keeping_network(), all_depth=2)
        ctx.control("replay flags a Network that keeps the set it was handed (the caller changes it afterwards)",
                    any(s.startswith("replay:CallerMutates:state") for s in rp.signatures()))
        ctx.control("replay flags a Network that writes into the set it was handed",
                    any(s.startswith("replay:DiscoverServices:state") for s in rp.signatures()))
        mark("binding_controls")
        for (d, _ns, inv, _i, _p), f in zip(SPEC_CONTROLS, f_ctl):
            ctx.control("specification with pinned deviation %r violates %s" % (d, inv), f.result())
        mark("spec_controls")
        # smallest graph first: its dump is ready first (the largest, small_2x2x1, is replayed last)
        for tag, c, _cd in sorted(universes, key=lambda u: u[0] == "small_2x2x1"):
            # all call sequences up to this length first, then every remaining (state, call) pair of the graph once
            all_depth = {"small_2x2x1": 3 if q else 4, "v6_2x3x2": 2}.get(tag, 2 if q else 3)
            if tag == "small_2x2x1":
                replay_simulate(ctx, sim_c, "sim_3x3x2", seed, f_sim.result(), dsim)
                mark("simulate")
            dot = f_dump[tag].result()
            mark("dump_ready_" + tag)
            replay_graph(ctx, c, tag, seed, dot, all_depth=all_depth)
            mark("replayed_" + tag)
        trace_verdict(ctx, traces, f_trace.result(), "trace")
        ctx.sample({"part": "trace", "recorded_history_first_events": traces[0]["events"][:2]})
        bad_trace_controls(ctx, f_bad.result(), 6)
        mark("traces")
        for tag, _c, _cd in universes:
            ctx.add_tlc(tag, f_check[tag].result())
        ctx.add_tlc("big_3x3x2", f_big.result())
        mark("model_checks")
        ctx.note("main_thread_reached_after_s", marks)
        ctx.note("get_introductions_from", f_intro.result())
        ctx.cov["exhaustive"] = True
    finally:
        ex.shutdown(wait=True, cancel_futures=True)
        shutil.rmtree(tmp, ignore_errors=True)
    return ctx.finish()
