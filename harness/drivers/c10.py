"""C10 - RequestCache / TaskManager time-outs: each outstanding request is resolved exactly once.

specs/RequestCache.tla is model checked (invariants = the property) and bound to ipv8.requestcache / ipv8.taskmanager /
lazy_community.retrieve_cache:
 R  every transition of a dumped state graph (edge cover), plus TLC -simulate behaviours of the larger configurations,
    is executed on a real RequestCache under the single-step event loop (harness.vloop.StepLoop): one spec action = one
    public call, one timer handle, or the queued handle(s) of one cache's task; after every action the observable outcome
    (return value / KeyError, identifiers present, on_timeout counts, states of the managed futures) is compared with the
    TLC state, and every walk ends with a run-out (the loop runs on without responses: exactly the outstanding requests
    time out, once).
 T  populations of 5..50 caches driven by seeded random schedules (FIFO ready queue, timers in deadline order) are
    logged as neutral events and validated by TLC against specs/RequestCacheTrace.tla.

Signatures: divergences that need a cache *object* that is registered a second time (spec action ReAdd) are prefixed
"readd:"; on the pinned tree they all stem from TaskManager.register_task.done_cb forgetting whatever task carries the
name (proposed_fixes/C10-1.diff, spec constant ReapOwnOnly = FALSE reproduces it in TLC).
The response path (lazy_community.retrieve_cache) is a spec action of its own: Respond(i, k, a) = the wrapper claims the
cache (pop, nC[c] + 1) and then the handler body runs, which may do nothing, fail (raise), pop an identity - its own
included, directly or as a re-entrant response - or add the next cache (also with the identity just released).
Coroutine handlers: RespondCo(i) (matched = claimed now) and HandlerBody(k, a) (the body, an arbitrary number of steps
later).  The driver executes them with real retrieve_cache-decorated handlers whose bodies are scripted by the walk;
nC (how often a cache object was handed to a claimant in this registration) is part of the compared state
(invariants ExactlyOnce: nC + nT <= 1, ClaimedOnce).  Spec constant ClaimFirst = FALSE is the control (peek, pop after
the handler returned), classes()["PeekOverlay"] the corresponding replay control.
Several futures per request: fut[c] is the sequence of the states of the futures tied to cache c (registration order);
FutExt(c, j) = somebody completes / cancels the j-th one while the request is outstanding; the time-out completes and
shutdown() / a refused add() cancel every future that is still pending (spec operator Sweep; constant FutLoop = "break"
is the control: the loop stops at the first future that is already done; classes()["FirstDoneStopsRC"] the replay control).
Tear-down sequences: ShutdownTM = the inherited public TaskManager.shutdown_task_manager() called on the request cache
(raises the shared _shutdown flag, cancels the time-out tasks, leaves identifiers and futures alone: st "stopped"),
Shutdown = RequestCache.shutdown(), callable any number of times and after ShutdownTM; AfterShutdown is demanded from
the first shutdown() call on (rcdown), AfterFlag from the moment the flag is up.  Constant ShutGuard = TRUE is the control
(shutdown() returns at once when the flag is already up), classes()["GuardedShutdownRC"] the replay control.
Configurations: h2 (2 caches, every handler script, coroutine handlers, task-manager teardown), f2 (2 caches with 2 and 3
futures, one of them completed by somebody else, task-manager teardown; thorough also fx: any number of them), q2/n2
(2 caches) and h3/r3 (3 caches) are dumped and replayed edge by edge; q3/n3/n4 are model checked, s3/n4 sampled with TLC -simulate; ctl_* are the negative
controls.
"""
from __future__ import annotations

import asyncio
import glob
import json
import logging
import os
import random
import re
import shutil
import time
from concurrent.futures import ThreadPoolExecutor
from types import SimpleNamespace

from ..common import Ctx, setup_repo_path
from ..replay import bfs_tree, path_to
from ..tlc import MachineryError, parse_dot, parse_simulate_file, run_tlc, scratch_dir
from ..vloop import StepLoop

PID = "C10"
FAR = 500.0          # cache timers are far below this, the task manager's own checker (900 s) far above
_CLS = {}


class HandlerFault(ValueError):
    """What a scripted handler body raises ("the remainder of the handler fails")."""


class HandlerKeyFault(KeyError):
    """... the same, as a KeyError (the one exception type retrieve_cache itself looks at)."""


class Divergence(Exception):
    """The real code did something the specification does not allow (or could not do what it prescribes)."""

    def __init__(self, kind, detail):
        super().__init__(detail)
        self.kind = kind
        self.detail = detail


def classes():
    """Test cache classes, a retrieve_cache handler and a deliberately broken RequestCache (negative control)."""
    if _CLS:
        return _CLS
    from ipv8.lazy_community import retrieve_cache
    from ipv8.requestcache import NumberCache, RequestCache

    class Base(NumberCache):
        name = "p"

        def __init__(self, world, cid, number):
            super().__init__(world.rc, "p", number)
            self.world, self.cid, self.delay = world, cid, 1.0

        @property
        def timeout_delay(self):
            return self.delay

        def on_timeout(self):
            self.world.timed_out(self)

    class A(Base):
        pass

    class B(Base):
        pass

    def make_overlay(deco):
        class Overlay:
            def __init__(self, world):
                self.world = world
                self.request_cache = world.rc
                self.logger = logging.getLogger("c10-overlay")

            @deco(Base)
            def on_response(self, peer, payload, cache):
                return self.world.handler_entered(cache, payload)

            @deco(Base)
            async def on_response_co(self, peer, payload, cache):
                self.world.co_got = cache
                return self.world.handler_body(cache)

        return Overlay

    def peek_cache(cache_class):
        """A matching helper that looks the cache up, runs the handler and releases the identifier afterwards
        (negative control: what the property forbids - the claim must precede the handler body)."""
        def decorator(func):
            def wrapper(self, peer, *payloads):
                cache = self.request_cache.get(cache_class.name, payloads[-1].identifier)
                if cache is None:
                    return None
                result = func(self, peer, *payloads, cache=cache)
                self.request_cache.pop(cache_class.name, payloads[-1].identifier)
                return result
            return wrapper
        return decorator

    class NoCancelRC(RequestCache):
        """pop() forgets to cancel the time-out task (what the property forbids)."""

        def pop(self, prefix, number):
            return self._identifiers.pop(self._create_identifier(number, prefix))

    class FirstDoneStopsRC(RequestCache):
        """The time-out stops completing the tied futures at the first one that is already done (what the property
        forbids: every future tied to the request is completed on time-out)."""

        def _on_timeout(self, cache):
            fs = cache._managed_futures
            k = next((n for n, (f, _v) in enumerate(fs) if f.done()), len(fs))
            cache._managed_futures = fs[:k]
            try:
                super()._on_timeout(cache)
            finally:
                cache._managed_futures = fs

    class GuardedShutdownRC(RequestCache):
        """shutdown() does nothing when the flag it shares with the task manager is already up (what the property
        forbids: after shutdown nothing is registered and the tied futures are cancelled)."""

        async def shutdown(self):
            if self._shutdown:
                return
            await super().shutdown()

    _CLS.update(FirstDoneStopsRC=FirstDoneStopsRC, GuardedShutdownRC=GuardedShutdownRC)
    _CLS.update(A=A, B=B, Base=Base, Overlay=make_overlay(retrieve_cache), PeekOverlay=make_overlay(peek_cache),
                RequestCache=RequestCache, NoCancelRC=NoCancelRC)
    return _CLS


def seq(v):
    """A TLA+ sequence as a tuple (TLC prints some of them as functions)."""
    if isinstance(v, (tuple, list)):
        return tuple(v)
    if isinstance(v, str):
        raise MachineryError("sequence expected, got %r" % (v,))
    return tuple(v[k] for k in sorted(v))


def task_of(h):
    s = getattr(h._callback, "__self__", None)
    if isinstance(s, asyncio.Task):
        return s
    if h._args and isinstance(h._args[0], asyncio.Task):
        return h._args[0]
    return None


class World:
    """One real RequestCache with n test caches inside a StepLoop."""

    def __init__(self, loop, ident, futk, cls, ni, rc_class=None, overlay_class=None):
        k = classes()
        self.loop = loop
        self.n = len(ident)
        self.ni = ni
        self.errors = []
        loop.set_exception_handler(lambda _l, c: self.errors.append(c))
        self.in_handle = False
        self.depth = 0
        self.rlevel = 0
        self.rc = loop.call(rc_class or k["RequestCache"])
        self.checker = self.rc.get_task("_check_tasks")
        loop.drain()                       # the task manager's own checker task starts sleeping (900 s)
        self.overlay = (overlay_class or k["Overlay"])(self)
        self.cache, self.futs, self.exc, self.ext = {}, {}, {}, {}
        for cid in range(1, self.n + 1):
            c = k[cls[cid - 1]](self, cid, ident[cid - 1])   # built while nothing is registered: the constructor guard passes
            self.cache[cid] = c
            self.futs[cid] = []
            for j, kind in enumerate(seq(futk[cid - 1])):
                f = asyncio.Future(loop=loop)
                self.futs[cid].append(f)
                if kind == "exc":
                    self.exc[cid, j] = RuntimeError("timeout of %d/%d" % (cid, j))
                    c.register_future(f, self.exc[cid, j])
                elif kind == "value":
                    c.register_future(f, ("timeout-value", cid, j))
                else:
                    raise MachineryError("unknown future kind %r" % (kind,))
        self.owner = {}                    # task -> cid
        self.tasks = {cid: [] for cid in self.cache}
        self.timer = {}                    # task -> TimerHandle of its sleep()
        self.nT = dict.fromkeys(self.cache, 0)
        self.nC = dict.fromkeys(self.cache, 0)   # how often the object was handed out (pop() result / handler argument)
        self.got = None                    # cache the last handler invocation received
        self.hscript = None                # what the body of the next handler invocation does
        self.hnested = None                # (cid, op, result) of that body
        self.co = None                     # (coroutine, cid): matched coroutine handler whose body has not run
        self.co_got = None                 # cache that body received
        self.added = set()
        self.script = {}
        self.nested = None                 # (cid, op, result) of the last on_timeout callback
        self.cm = None
        self.bg = []

    # ---------------------------------------------------------------- plumbing
    def _call(self, fn, *a, **kw):
        try:
            if self.in_handle or self.depth:
                return fn(*a, **kw)
            self.depth += 1
            try:
                return self.loop.call(fn, *a, **kw)
            finally:
                self.depth -= 1
        except (KeyError, Divergence, MachineryError, HandlerFault):
            raise
        except Exception as e:  # noqa: BLE001 - the real code raised where the specification has a defined outcome
            name = getattr(fn, "__name__", str(fn))
            self.errors.append({"message": "%s() raised" % name, "exception": e})
            raise Divergence("exception", "%s() raised %r" % (name, e)) from e

    def _run(self, h):
        before = {id(t) for t in self.loop._scheduled}
        t = task_of(h)
        self.in_handle = True
        try:
            self.loop.run_ready(h)
        finally:
            self.in_handle = False
        for th in self.loop._scheduled:
            if id(th) not in before and t is not None:
                self.timer[t] = th

    def handles_of(self, t):
        return [h for h in self.loop._ready if not h._cancelled and task_of(h) is t]

    def background(self):
        """Everything that is not a step / callback of a cache's time-out task runs at once (shutdown's gather, checker)."""
        for _ in range(10000):
            hs = [h for h in self.loop._ready if task_of(h) not in self.owner]
            if not hs:
                return
            self._run(hs[0])
        raise MachineryError("background handles do not drain")

    def current(self, cid, old=False):
        ts = self.tasks[cid]
        if len(ts) < (2 if old else 1):
            raise Divergence("no-task", "cache %d has no %stime-out task" % (cid, "earlier " if old else ""))
        return ts[-2 if old else -1]

    # ---------------------------------------------------------------- public calls
    def add(self, cid, d):
        c = self.cache[cid]
        c.delay = float(d)
        before = {id(h) for h in self.loop._ready}
        first = cid not in self.added
        self.added.add(cid)
        r = self._call(self.rc.add, c)
        if r is not None and r is not c:
            raise Divergence("add-result", "add() returned a different object")
        if r is c or first:
            self.nT[cid] = 0               # on_timeout calls / claims are counted per registration
            self.nC[cid] = 0
        for h in self.loop._ready:
            if id(h) not in before:
                t = task_of(h)
                if t is not None and t not in self.owner and r is c:
                    self.owner[t] = cid
                    self.tasks[cid].append(t)
        # the constructor guard of a second cache with the same identity must agree with add()
        if not self.in_handle:
            self.probe_constructor()
        return 1 if r is c else 0

    def probe_constructor(self):
        k = classes()
        for i in range(1, self.ni + 1):
            present = self.rc.has("p", i)
            try:
                k["A"](self, 0, i)
                raised = False
            except RuntimeError:
                raised = True
            if raised != present:
                raise Divergence("constructor-guard", "NumberCache('p', %d) raised=%s while has()=%s" % (i, raised, present))

    def pop(self, i, via="pop"):
        if via == "handler":
            return self.respond(i, None)
        try:
            c = self._call(self.rc.pop, "p", i)
        except KeyError:
            return 0
        self.nC[c.cid] += 1
        return c.cid

    # ---------------------------------------------------------------- the response path (retrieve_cache handlers)
    def respond(self, i, op):
        """A response with identifier i is dispatched to the plain handler, whose body does `op`.
        -> cid the handler was called with (0: not called)."""
        saved = (self.got, self.hnested)   # a response may be dispatched from inside a handler body / on_timeout
        self.got, self.hscript, self.hnested = None, op, None
        self.rlevel += 1
        try:
            self._call(self.overlay.on_response, None, SimpleNamespace(identifier=i))
        except (HandlerFault, HandlerKeyFault):
            pass                           # the body's own failure; whether it propagates is not our concern
        except KeyError as e:
            raise Divergence("wrapper-keyerror", "the retrieve_cache wrapper raised %r although the handler body did "
                                                 "not (response %d, body %s)" % (e, i, op)) from e
        finally:
            self.hscript = None
            self.rlevel -= 1
        c = self.got
        if self.rlevel:
            self.got, self.hnested = saved
        else:
            self.got = None
        return 0 if c is None else c.cid

    def handler_entered(self, cache, payload):
        self.got = cache
        self.nC[cache.cid] += 1
        return self.handler_body(cache)

    def handler_body(self, cache):
        op, self.hscript = self.hscript, None
        if op is None or op[0] == "none":
            return
        cid = cache.cid
        self.hnested = (cid, op, None)
        if op[0] == "raise":
            raise (HandlerKeyFault if (cid + len(self.added)) % 2 else HandlerFault)("the remainder of the handler fails")
        if op[0] == "pop":
            res = self.pop(op[1], via="handler" if (op[1] + cid) % 2 else "pop")
        elif op[0] == "add":
            res = self.add(self.next_new(), op[1])
        else:
            raise MachineryError("unknown handler script %r" % (op,))
        self.hnested = (cid, op, res)

    def respond_co(self, i):
        """... dispatched to the coroutine handler: the wrapper runs now, the body later (run_body)."""
        if self.co is not None:
            raise MachineryError("a coroutine handler is already pending")
        c = self.rc.get("p", i)            # the request this response answers (the table was compared after the last step)
        try:
            co = self._call(self.overlay.on_response_co, None, SimpleNamespace(identifier=i))
        except KeyError as e:
            raise Divergence("wrapper-keyerror", "the retrieve_cache wrapper raised %r (response %d)" % (e, i)) from e
        if co is None:
            return 0
        if not hasattr(co, "send"):
            raise MachineryError("the wrapper of a coroutine handler returned %r" % (co,))
        if c is None:
            co.close()
            raise Divergence("phantom-match", "response %d was dispatched to the coroutine handler although no request "
                                              "with this identifier is registered" % i)
        self.co = (co, c.cid)
        self.nC[c.cid] += 1                # matched = handed out; run_body checks that the body receives this cache
        return c.cid

    def run_body(self, op):
        co, cid = self.co
        self.co = None
        self.hscript, self.hnested = op, None
        self.co_got = None

        def go():
            try:
                co.send(None)
            except StopIteration:
                return
            raise MachineryError("the test coroutine handler suspended")
        try:
            self._call(go)
        finally:
            self.hscript = None
        got, self.co_got = self.co_got, None
        if got is None or got.cid != cid:
            raise Divergence("co-handler-cache", "the body of the coroutine handler matched with cache %d ran with %s"
                             % (cid, "cache %d" % got.cid if got is not None else "no cache / not at all"))
        return cid

    def next_new(self):
        for cid in range(1, self.n + 1):
            if cid not in self.added:
                return cid
        raise MachineryError("nested add without a fresh cache")

    def timed_out(self, cache):
        cid = cache.cid
        self.nT[cid] += 1
        op = self.script.pop(cid, ("none", 0))
        res = 0
        self.nested = (cid, op, None)
        if op[0] == "pop":
            res = self.pop(op[1], via="handler" if (op[1] + cid) % 2 else "pop")
        elif op[0] == "add":
            res = self.add(self.next_new(), op[1])
        self.nested = (cid, op, res)

    def step(self, cid, op=("none", 0), old=False):
        """Run the one queued step of the cache's task (first step or wake-up)."""
        t = self.current(cid, old)
        hs = self.handles_of(t)
        if not hs or t.done():
            raise Divergence("no-handle", "the time-out task of cache %d has no queued step" % cid)
        self.nested = None
        if op[0] != "none":
            self.script[cid] = tuple(op)
        self._run(hs[0])
        self.script.pop(cid, None)

    def fin(self, cid, old=False):
        """Deliver a pending cancellation and run the done callbacks of the task."""
        t = self.current(cid, old)
        n = 0
        while True:
            hs = self.handles_of(t)
            if not hs:
                break
            self._run(hs[0])
            n += 1
            if n > 50:
                raise MachineryError("task handles do not drain")
        if not t.done():
            raise Divergence("not-done", "task of cache %d is still alive when the specification reaps it" % cid)

    def fire(self, cid):
        t = self.current(cid)
        th = self.timer.get(t)
        if th is None or th._cancelled or th not in self.loop._scheduled:
            raise Divergence("no-timer", "cache %d has no armed timer" % cid)
        if th._when > self.loop.time() + 1e-9:
            raise Divergence("timer-not-due", "timer of cache %d is due at %s, now %s" % (cid, th._when, self.loop.time()))
        self.loop.fire_timer(th)

    def tick(self):
        self.loop._vt += 1.0

    def clear(self):
        self._call(self.rc.clear)

    def shutdown(self):
        before = {id(h) for h in self.loop._ready}
        t = self.loop.call(asyncio.ensure_future, self.rc.shutdown())
        self.bg.append(t)
        new = [h for h in self.loop._ready if id(h) not in before]
        if len(new) != 1:
            raise MachineryError("shutdown(): expected one new handle")
        self._run(new[0])                  # the synchronous part of shutdown()

    def shutdown_tm(self):
        """The inherited TaskManager.shutdown_task_manager(), called on the request cache: its synchronous part."""
        before = {id(h) for h in self.loop._ready}
        t = self.loop.call(asyncio.ensure_future, self.rc.shutdown_task_manager())
        self.bg.append(t)
        new = [h for h in self.loop._ready if id(h) not in before]
        if len(new) != 1:
            raise MachineryError("shutdown_task_manager(): expected one new handle")
        self._run(new[0])

    def pass_enter(self, t, f):
        k = classes()
        self.cm = self.rc.passthrough(k["A"], timeout=float(t)) if f == "A" else self.rc.passthrough(timeout=float(t))
        self.cm.__enter__()

    def pass_exit(self):
        self.cm.__exit__(None, None, None)
        self.cm = None

    def fut_ext(self, cid, j):
        """Somebody else cancels / completes the j-th (0-based) future tied to the cache."""
        if j >= len(self.futs[cid]) or self.futs[cid][j].done():
            raise Divergence("no-pending-future", "future %d of cache %d is not pending" % (j + 1, cid))
        f = self.futs[cid][j]
        if (cid + j) % 2:
            f.cancel()
            self.ext[cid, j] = "cancel"
        else:
            f.set_result("EXT")
            self.ext[cid, j] = "result"

    # ---------------------------------------------------------------- observation
    def fut_state(self, cid):
        return tuple(self.fut_state1(cid, j) for j in range(len(self.futs[cid])))

    def fut_state1(self, cid, j):
        f = self.futs[cid][j]
        if not f.done():
            return "pending"
        if (cid, j) in self.ext:
            ok = f.cancelled() if self.ext[cid, j] == "cancel" else (not f.cancelled() and f.exception() is None
                                                                     and f.result() == "EXT")
            return "ext" if ok else "ext-overwritten"
        if f.cancelled():
            return "cancelled"
        if f.exception() is not None:
            return "exception" if f.exception() is self.exc.get((cid, j)) else "wrong-exception"
        return "result" if f.result() == ("timeout-value", cid, j) else "wrong-result"

    def project(self):
        table = []
        for i in range(1, self.ni + 1):
            c = self.rc.get("p", i)
            if (c is not None) != self.rc.has("p", i):
                raise Divergence("has-get", "has() and get() disagree on identity %d" % i)
            table.append(0 if c is None else c.cid)
        return {"table": tuple(table), "nT": tuple(self.nT[c] for c in sorted(self.cache)),
                "nC": tuple(self.nC[c] for c in sorted(self.cache)),
                "fut": tuple(self.fut_state(c) for c in sorted(self.cache))}

    def check_errors(self):
        if self.errors:
            e = self.errors[0]
            raise Divergence("loop-exception", "%s: %r" % (e.get("message"), e.get("exception")))

    def runout(self):
        """No more responses: the loop just runs on (FIFO, timers in deadline order)."""
        self.script.clear()
        if self.co is not None:
            self.run_body(None)
        for _ in range(100000):
            self.in_handle = True
            try:
                self.loop.drain()
            finally:
                self.in_handle = False
            ts = [t for t in self.loop.timers() if t._when < FAR]
            if not ts:
                return
            self.loop.fire_timer(ts[0])
        raise MachineryError("run-out does not terminate")

    def close(self):
        loop = self.loop
        loop.set_exception_handler(lambda _l, _c: None)
        if self.co is not None:
            self.co[0].close()
            self.co = None
        for fs in self.futs.values():
            for f in fs:
                if f.done() and not f.cancelled():
                    f.exception()
        known = list(self.owner) + self.bg + list(self.rc.get_tasks()) + [self.checker]
        for t in known:
            if t is not None and not t.done():
                t.cancel()
        loop.drain()
        loop.drain()
        if any(t is not None and not t.done() for t in known):
            for t in asyncio.all_tasks(loop):
                t.cancel()
            loop.drain()
        loop._ready.clear()
        loop._scheduled.clear()
        loop._timer_cancelled_count = 0
        loop._vt = 0.0


# ---------------------------------------------------------------------------------------------------
# binding R
# ---------------------------------------------------------------------------------------------------
def compare(spec, proj):
    d = {}
    if tuple(spec["table"]) != proj["table"]:
        d["table"] = {"spec": list(spec["table"]), "impl": list(proj["table"])}
    for idx, s in enumerate(spec["st"]):
        if s == "cleared":       # the statement is silent about clear(): only 'at most once'
            if proj["nT"][idx] > 1:
                d["nT[%d]" % (idx + 1)] = {"spec": "<= 1", "impl": proj["nT"][idx]}
            continue
        if spec["nT"][idx] != proj["nT"][idx]:
            d["nT[%d]" % (idx + 1)] = {"spec": spec["nT"][idx], "impl": proj["nT"][idx]}
        if "nC" in spec and spec["nC"][idx] != proj["nC"][idx]:
            d["nC[%d]" % (idx + 1)] = {"spec": spec["nC"][idx], "impl": proj["nC"][idx]}
        if seq(spec["fut"][idx]) != proj["fut"][idx]:
            d["fut[%d]" % (idx + 1)] = {"spec": list(seq(spec["fut"][idx])), "impl": list(proj["fut"][idx])}
    return d


def expected_runout(spec):
    """Only the outstanding requests still have a time-out ahead (requests frozen by the task manager teardown stay)."""
    st, nT, fut, futk = spec["st"], list(spec["nT"]), [list(seq(f)) for f in spec["fut"]], spec["futk"]
    for i, s in enumerate(st):
        if s == "outstanding":
            nT[i] += 1
            for j, kind in enumerate(seq(futk[i])):
                if fut[i][j] == "pending":
                    fut[i][j] = "exception" if kind == "exc" else "result"
    table = tuple(0 if c and st[c - 1] == "outstanding" else c for c in spec["table"])
    return {"table": table, "st": st, "nT": tuple(nT), "fut": tuple(tuple(f) for f in fut), "nC": spec["nC"]}


def apply_action(w, name, args, pre, post, rng):
    """Execute one spec action on the real objects; returns None or a dict describing a wrong result."""
    if name in ("Add", "ReAdd"):
        c, d = args
        res = w.add(c, d)
        exp = 1 if post["st"][c - 1] == "outstanding" else 0
        if res != exp:
            return {"add(%d)" % c: {"spec": exp, "impl": res}}
    elif name == "Pop":
        i = args[0]
        via = "handler" if rng.random() < 0.5 else "pop"
        res = w.pop(i, via)
        exp = pre["table"][i - 1]
        if res != exp:
            return {"pop(%d) via %s" % (i, via): {"spec": exp or "KeyError", "impl": res or "KeyError"}}
    elif name == "Respond":
        i, k, a = args
        res = w.respond(i, (k, a))
        exp = pre["table"][i - 1]
        if res != exp:
            return {"handler of response(%d)" % i: {"spec": ("called with cache %d" % exp) if exp else "not called",
                                                    "impl": ("called with cache %d" % res) if res else "not called"}}
        if k in ("pop", "add"):
            if w.hnested is None or w.hnested[2] is None:
                raise MachineryError("scripted handler body did not run")
            if k == "pop":
                exp = 0 if a == i else pre["table"][a - 1]      # its own identity was released before the body ran
            else:
                nxt = min(j + 1 for j, s in enumerate(pre["st"]) if s == "new")
                exp = 1 if post["st"][nxt - 1] == "outstanding" else 0
            if w.hnested[2] != exp:
                return {"nested %s(%d) in the handler of response(%d)" % (k, a, i): {"spec": exp, "impl": w.hnested[2]}}
    elif name == "RespondCo":
        i = args[0]
        res = w.respond_co(i)
        exp = pre["table"][i - 1]
        if res != exp:
            return {"coroutine handler of response(%d)" % i: {"spec": exp or "not called", "impl": res or "not called"}}
    elif name == "HandlerBody":
        k, a = args
        if w.co is None:
            raise Divergence("no-handler", "no coroutine handler is pending")
        cid = w.run_body((k, a))
        if cid != pre["hpend"]:
            return {"body of the coroutine handler": {"spec": "cache %d" % pre["hpend"], "impl": "cache %d" % cid}}
        if k != "none":
            if w.hnested is None or w.hnested[2] is None:
                raise MachineryError("scripted handler body did not run")
            if k == "pop":
                exp = pre["table"][a - 1]
            else:
                nxt = min(j + 1 for j, s in enumerate(pre["st"]) if s == "new")
                exp = 1 if post["st"][nxt - 1] == "outstanding" else 0
            if w.hnested[2] != exp:
                return {"nested %s(%d) in the coroutine handler body" % (k, a): {"spec": exp, "impl": w.hnested[2]}}
    elif name in ("TaskStart", "TaskWake"):
        c, k, a = args
        w.step(c, (k, a))
        if k != "none":
            if w.nested is None or w.nested[0] != c:
                return {"on_timeout(%d)" % c: {"spec": "called", "impl": "not called"}}
            if k == "pop":
                exp = 0 if pre["table"][a - 1] == c else pre["table"][a - 1]
            else:
                nxt = min(i + 1 for i, s in enumerate(pre["st"]) if s == "new")
                exp = 1 if post["st"][nxt - 1] == "outstanding" else 0
            if w.nested[2] != exp:
                return {"nested %s(%d) in on_timeout(%d)" % (k, a, c): {"spec": exp, "impl": w.nested[2]}}
    elif name == "Tick":
        w.tick()
    elif name == "TimerFire":
        w.fire(args[0])
    elif name == "Reap":
        w.fin(args[0])
    elif name == "ReapOld":
        w.fin(args[0], old=True)
    elif name == "Clear":
        w.clear()
    elif name == "Shutdown":
        w.shutdown()
    elif name == "ShutdownTM":
        w.shutdown_tm()
    elif name == "PassEnter":
        w.pass_enter(args[0], args[1])
    elif name == "PassExit":
        w.pass_exit()
    elif name == "FutExt":
        w.fut_ext(args[0], args[1] - 1)
    else:
        raise MachineryError("unknown action " + name)
    return None


def run_behaviour(loop, st0, steps, rng, ni, rc_class=None, overlay_class=None):
    """steps: [(name, args, post_state)].  Returns (None | (signature, description, detail), operations executed)."""
    w = World(loop, st0["ident"], st0["futk"], st0["cls"], ni, rc_class, overlay_class)
    labels = []
    n = 0
    try:
        pre = st0
        try:
            for name, args, post in steps:
                labels.append("%s%s" % (name, list(args)))
                wrong = apply_action(w, name, args, pre, post, rng)
                w.background()
                w.check_errors()
                n += 1
                d = wrong or compare(post, w.project())
                if d:
                    return ("replay:%s:%s" % (name, ",".join(sorted(k.split("(")[0].split("[")[0] for k in d))),
                            "real RequestCache diverges from RequestCache.tla after %s: %s" % (labels[-1], d),
                            {"actions": labels, "diff": d}), n
                pre = post
            w.runout()
            w.check_errors()
            d = compare(expected_runout(pre), w.project())
            if d:
                return ("runout:" + ",".join(sorted(k.split("[")[0] for k in d)),
                        "after %s the loop ran on without responses; exactly the outstanding requests must time out "
                        "once: %s" % (labels[-6:], d), {"actions": labels + ["<run-out>"], "diff": d}), n
        except Divergence as e:
            return ("replay:%s:%s" % (labels[-1].split("[")[0] if labels else "init", e.kind),
                    "real RequestCache cannot follow RequestCache.tla at %s: %s" % (labels[-1] if labels else "init",
                                                                                   e.detail),
                    {"actions": labels, "error": e.detail}), n
        return None, n
    finally:
        w.close()


def cover_walks(g, seed=0, max_ops=None, max_len=80):
    """Walks that together take every edge of g: like replay.edge_cover, but a walk that runs out of fresh edges
    moves on (<= 2 steps over already covered edges) to a state that still has some, instead of restarting.
    (RequestCache holds live tasks and cannot be snapshotted, so every walk re-executes its prefix; most walks end in
    a state without successors, so the number of walks is close to the number of edges into such states.)"""
    order, parent = bfs_tree(g)
    fresh = {s: list(reversed(g.out.get(s, ()))) for s in order}
    ops = 0
    states = list(order)
    if max_ops is not None and sum(len(v) for v in fresh.values()) * 2 > max_ops:
        random.Random(seed).shuffle(states)
    edges = g.edges
    out = g.out
    for s in states:
        while fresh[s]:
            init, walk = path_to(g, parent, s)
            cur = s
            while len(walk) < max_len:
                if fresh[cur]:
                    e = fresh[cur].pop()
                    walk.append(e)
                    cur = edges[e][3]
                    continue
                hop = None
                for e1 in out.get(cur, ()):
                    d1 = edges[e1][3]
                    if d1 != cur and fresh[d1]:
                        hop = (e1,)
                        break
                if hop is None:
                    for e1 in out.get(cur, ()):
                        d1 = edges[e1][3]
                        if d1 == cur:
                            continue
                        for e2 in out.get(d1, ()):
                            d2 = edges[e2][3]
                            if d2 != d1 and d2 != cur and fresh[d2]:
                                hop = (e1, e2)
                                break
                        if hop:
                            break
                if hop is None:
                    break
                walk.extend(hop)
                cur = edges[hop[-1]][3]
            ops += len(walk)
            yield init, walk
            if max_ops is not None and ops >= max_ops:
                return


def params_of(st):
    return {"ident": list(st["ident"]), "futk": list(st["futk"]), "cls": list(st["cls"])}


def dump_graph(cfg):
    """TLC model-checks cfg and dumps its state graph (run in a worker thread)."""
    tmp = scratch_dir("c10-")
    try:
        dot = os.path.join(tmp, "g.dot")
        r = run_tlc("RequestCache.tla", cfg, dump=dot, workers=8)
        if not r.ok:
            raise MachineryError("RequestCache %s: TLC reports %s on the specification itself" % (cfg, r.violated))
        return r, parse_dot(dot)
    finally:
        shutil.rmtree(tmp, ignore_errors=True)


def tag_sig(v, labels):
    """Divergences that need a re-registered cache object carry their own signature prefix."""
    if any(x.startswith("ReAdd") for x in labels):
        return ("readd:" + v[0], v[1], v[2])
    return v


def replay_graph(ctx, loop, dumped, cfg, ni, tag, max_ops, rng, rc_class=None, record=True, overlay_class=None):
    r, g = dumped
    if record:
        ctx.add_tlc(tag, r)
    nwalks = nops = 0
    covered = set()
    found = []
    t0 = time.process_time()
    for init, walk in cover_walks(g, seed=ctx.seed, max_ops=max_ops):
        st0 = g.states[init]
        steps = [(g.edges[e][1], g.edges[e][2], g.states[g.edges[e][3]]) for e in walk]
        v, n = run_behaviour(loop, st0, steps, rng, ni, rc_class, overlay_class)
        nops += n
        nwalks += 1
        covered.update(walk)
        if v:
            v[2].update(cfg=cfg, **params_of(st0))
            found.append(tag_sig(v, v[2]["actions"]))
            if len({x[0] for x in found}) >= 4 or not record:
                break
            continue
        if record:
            ctx.nontrivial((tag, init, tuple(walk)))
            if nwalks <= 1:
                ctx.sample({"graph": tag, **params_of(st0), "actions": ["%s%s" % (s[0], list(s[1])) for s in steps][:25]})
    if record:
        ctx.evaluated(nops)
        ctx.traces(nwalks)
        ctx.note("replay_" + tag, {"walks": nwalks, "real_operations": nops, "graph_states": len(g.states),
                                   "graph_edges": len(g.edges), "edges_covered": len(covered),
                                   "complete_edge_cover": len(covered) == len(g.edges),
                                   "cpu_s": round(time.process_time() - t0, 1)})
    return found


def simulate(cfg, num, depth, seed):
    """TLC -simulate: num random behaviours of cfg (run in a worker thread) -> list of [(label, args, state)]."""
    tmp = scratch_dir("c10s-")
    try:
        workers = 4
        r = run_tlc("RequestCache.tla", cfg, simulate="file=%s,num=%d" % (os.path.join(tmp, "b"), max(1, num // workers)),
                    depth=depth, seed=seed, coverage=False, workers=workers)
        if r.violated:
            raise MachineryError("RequestCache %s: simulation reports %s on the specification itself" % (cfg, r.violated))
        files = sorted(glob.glob(os.path.join(tmp, "b_*")))
        if not files:
            raise MachineryError("TLC -simulate wrote no behaviours")
        return [b for b in (parse_simulate_file(fn) for fn in files) if len(b) >= 2]
    finally:
        shutil.rmtree(tmp, ignore_errors=True)


def replay_simulation(ctx, loop, behaviours, cfg, ni, tag, rng):
    found = []
    nops = nb = 0
    t0 = time.process_time()
    for beh in behaviours:
        st0 = beh[0][2]
        v, n = run_behaviour(loop, st0, beh[1:], rng, ni)
        nops += n
        nb += 1
        if v:
            v[2].update(cfg=cfg, **params_of(st0))
            found.append(tag_sig(v, v[2]["actions"]))
            if len({x[0] for x in found}) >= 4:
                break
            continue
        ctx.nontrivial((tag, tuple((b[0], b[1]) for b in beh[1:])))
    ctx.evaluated(nops)
    ctx.traces(nb)
    ctx.note("simulate_" + tag, {"behaviours": nb, "real_operations": nops,
                                 "longest": max(len(b) for b in behaviours) - 1,
                                 "cpu_s": round(time.process_time() - t0, 1)})
    return found


CO_ACTIONS = {"RespondCo", "HandlerBody"}
ALL_ACTIONS = {"Add", "ReAdd", "Pop", "Respond", "TaskStart", "Tick", "TimerFire", "TaskWake", "Reap", "ReapOld", "Clear", "Shutdown",
               "PassEnter", "PassExit", "FutExt"}


H2_ACTIONS = {"Add", "Pop", "Respond", "RespondCo", "HandlerBody", "TaskStart", "Tick", "TimerFire", "TaskWake", "Reap",
              "Clear", "Shutdown", "ShutdownTM"}
F2_ACTIONS = {"Add", "Pop", "TaskStart", "Tick", "TimerFire", "TaskWake", "Reap", "Clear", "Shutdown", "ShutdownTM", "FutExt"}
EXPECT = {"h2": H2_ACTIONS, "h3": H2_ACTIONS, "f2": F2_ACTIONS, "q2": ALL_ACTIONS - {"FutExt"},
          "r3": ALL_ACTIONS - {"FutExt"}, "n2": ALL_ACTIONS, "fx": F2_ACTIONS | {"Respond"}}


def check_coverage(r, cfg, expect=None):
    taken = {a for a, (_d, t) in r.coverage.items() if t > 0}
    missing = (expect or ALL_ACTIONS) - taken
    if missing:
        raise MachineryError("RequestCache %s: spec actions never taken: %s" % (cfg, sorted(missing)))


# ---------------------------------------------------------------------------------------------------
# binding T: seeded random schedules over larger populations, validated by TLC
# ---------------------------------------------------------------------------------------------------
T_NI = 10
T_DELAYS = (1, 2, 3, 4)


def record_trace(loop, rng, n, readd=True, teardown=1.0):
    """teardown: factor on the probabilities of shutdown()/shutdown_task_manager() and of outside future completions."""
    ident = [rng.randint(1, T_NI) for _ in range(n)]
    futk = [[rng.choice(["value", "exc"]) for _ in range(rng.choice((0, 1, 1, 2, 3)))] for _ in range(n)]
    cls = [rng.choice(["A", "B"]) for _ in range(n)]
    w = World(loop, ident, futk, cls, T_NI)
    events = []
    ended = {}          # cid -> "claimed"/"timedout" as seen from outside (return values / callbacks)
    state = {"shutdown": 0, "shutdowntm": 0, "flag": False}
    p_ext = 0.915 + min(0.02, 0.01 * (teardown - 1.0))
    p_down = min(0.012, 0.006 * teardown)

    def teardown_step(kind):
        if kind == "shutdown":
            w.shutdown()
        else:
            w.shutdown_tm()
        state[kind] += 1
        state["flag"] = True
        log({"op": kind})

    def log(ev):
        w.background()
        w.check_errors()
        p = w.project()
        ev.update(table=list(p["table"]), nT=list(p["nT"]), fut=[list(f) for f in p["fut"]], nC=list(p["nC"]))
        events.append(ev)

    def nested_choice():
        x = rng.random()
        if x < 0.55:
            return ("none", 0)
        if x < 0.85:
            return ("pop", rng.randint(1, T_NI))
        if len(w.added) < n:
            return ("add", rng.choice(T_DELAYS))
        return ("none", 0)

    def handler_choice():
        x = rng.random()
        if x < 0.35:
            return ("none", 0)
        if x < 0.65:
            return ("raise", 0)
        if x < 0.85:
            return ("pop", rng.randint(1, T_NI))
        if len(w.added) < n:
            return ("add", rng.choice(T_DELAYS))
        return ("raise", 0)

    def pick_ident():
        present = [k for k in range(1, T_NI + 1) if w.rc.has("p", k)]
        return rng.choice(present) if present and rng.random() < 0.6 else rng.randint(1, T_NI)

    def note_nested(hn):
        """-> (kind, arg, result) of what a handler body did; remembers which request it claimed."""
        if hn is None or hn[1][0] not in ("pop", "add"):
            return ("none", 0, 0) if hn is None else (hn[1][0], hn[1][1], 0)
        if hn[2] is None:
            raise MachineryError("scripted handler body did not finish")
        if hn[1][0] == "pop" and hn[2]:
            ended[hn[2]] = "claimed"
        return hn[1][0], hn[1][1], hn[2]

    def response():
        """A response goes through a retrieve_cache handler: a plain one with a scripted body, or a coroutine
        handler (matched now, body run by a later event)."""
        if w.co is not None and rng.random() < 0.5:
            return body()
        i = pick_ident()
        if w.co is None and rng.random() < 0.3:
            res = w.respond_co(i)
            if res:
                ended[res] = "claimed"
            log({"op": "respco", "i": i, "res": res})
            return
        op = handler_choice()
        res = w.respond(i, op)
        if res:
            ended[res] = "claimed"
            hk, ha, nres = note_nested(w.hnested) if op[0] != "none" else ("none", 0, 0)
        else:
            hk, ha, nres = "none", 0, 0
        log({"op": "resp", "i": i, "hk": hk, "ha": ha, "res": res, "nres": nres})

    def body():
        op = nested_choice()
        cid = w.run_body(op)
        nk, na, nres = note_nested(w.hnested) if op[0] != "none" else ("none", 0, 0)
        log({"op": "hbody", "c": cid, "nk": nk, "na": na, "nres": nres})

    def run_head():
        """asyncio order: the oldest queued handle of a cache task runs next."""
        for h in w.loop._ready:
            t = task_of(h)
            if t in w.owner and not h._cancelled:
                cid = w.owner[t]
                old = t is not w.tasks[cid][-1]
                if old and t is not w.tasks[cid][-2]:
                    raise MachineryError("more than one earlier task alive")
                if t.done():
                    w.fin(cid, old)
                    log({"op": "fin", "c": cid, "old": old})
                else:
                    before = w.nT[cid]
                    w.step(cid, nested_choice(), old)
                    called = w.nT[cid] != before and w.nested is not None
                    op, res = (w.nested[1], w.nested[2]) if called else (("none", 0), 0)
                    if called and op[0] == "pop" and res:
                        ended[res] = "claimed"
                    if called:
                        ended[cid] = "timedout"
                    log({"op": "step", "c": cid, "old": old, "nk": op[0], "na": op[1], "nres": res or 0})
                return True
        return False

    def fire_due():
        while True:
            ts = [t for t in w.loop.timers() if t._when <= w.loop.time() + 1e-9 and t._when < FAR]
            if not ts:
                return False
            th = ts[0]
            if th._args and isinstance(th._args[0], asyncio.Future) and th._args[0].done():
                w.loop.fire_timer(th)      # sleep() already cancelled, its CancelledError not yet delivered: a no-op
                continue
            for t, h in w.timer.items():
                if h is th:
                    if t not in w.owner:
                        raise Divergence("unknown-task", "a time-out is armed by a task that no add() of this execution "
                                                         "started: %s" % t.get_name())
                    cid = w.owner[t]
                    if t is not w.tasks[cid][-1]:
                        raise Divergence("stale-timer", "a live timer belongs to an earlier task of cache %d" % cid)
                    w.fire(cid)
                    log({"op": "timer", "c": cid})
                    return True
            raise MachineryError("due timer that belongs to no cache")

    budget = 8 * n + 40
    try:
        for _ in range(budget):
            x = rng.random()
            if state["shutdowntm"] and not state["shutdown"] and x < 0.1:
                teardown_step("shutdown")      # the owner's shutdown() follows the generic task manager teardown
            elif x < 0.22:
                if len(w.added) >= n:
                    if not run_head() and not fire_due():
                        w.tick()
                        log({"op": "tick"})
                    continue
                cid = w.next_new()
                d = rng.choice(T_DELAYS)
                res = w.add(cid, d)
                log({"op": "add", "c": cid, "d": d, "res": res})
            elif x < 0.26:
                response()
            elif x < 0.32:
                i = pick_ident()
                res = w.pop(i, "handler" if rng.random() < 0.5 else "pop")
                if res:
                    ended[res] = "claimed"
                log({"op": "pop", "i": i, "res": res})
            elif x < 0.56:
                if not run_head():
                    fire_due()
            elif x < 0.70:
                if not fire_due() and not run_head():
                    w.tick()
                    log({"op": "tick"})
            elif x < 0.84:
                w.tick()
                log({"op": "tick"})
            elif x < 0.88:
                if w.cm is None:
                    t, f = rng.choice([0, 0, 1, 2]), rng.choice(["all", "A"])
                    w.pass_enter(t, f)
                    log({"op": "penter", "t": t, "f": f})
                else:
                    w.pass_exit()
                    log({"op": "pexit"})
            elif x < p_ext:
                cands = [(c, j) for c in w.futs for j, f in enumerate(w.futs[c])
                         if not f.done() and not state["flag"] and w.rc.get("p", ident[c - 1]) is w.cache[c]]
                if cands:
                    c, j = rng.choice(cands)
                    w.fut_ext(c, j)
                    log({"op": "futext", "c": c, "j": j + 1})
            elif x < 0.955 and readd:
                # the same cache object is registered again after its request ended (claimed or timed out)
                cands = [c for c in ended if all(t.done() or t.cancelling() for t in w.tasks[c])
                         and not any(w.handles_of(t) for t in w.tasks[c][:-1])
                         and w.rc.get("p", ident[c - 1]) is not w.cache[c]]
                if cands:
                    c = rng.choice(sorted(cands))
                    d = rng.choice(T_DELAYS)
                    res = w.add(c, d)
                    if res:
                        ended.pop(c, None)
                    log({"op": "readd", "c": c, "d": d, "res": res})
            elif x < 0.963:
                w.clear()
                log({"op": "clear"})
            elif x < 0.963 + p_down and len(events) > budget // 3:
                # tear-down: shutdown() (also a second time), or the task manager half alone (generic TaskManager
                # teardown; the owner's shutdown() follows later - or never)
                kind = "shutdowntm" if rng.random() < 0.4 else "shutdown"
                if state[kind] < 2:
                    teardown_step(kind)
            elif x >= 0.975:
                response()
        if state["shutdowntm"] and not state["shutdown"] and rng.random() < 0.7:
            teardown_step("shutdown")
        if w.co is not None:
            body()
        # run-out, logged: every step must still be a step of the specification
        for _ in range(100000):
            if run_head():
                continue
            if fire_due():
                continue
            if [t for t in w.loop.timers() if t._when < FAR]:
                w.tick()
                log({"op": "tick"})
                continue
            break
    finally:
        w.close()
    return {"n": n, "ident": ident, "futk": futk, "cls": cls, "events": events}


def record_traces(ctx, loop, rng, count):
    """-> traces (None instead of a trace when the real code could not even be driven: reported as a violation)."""
    out = []
    for k in range(count):
        n = 5 + (k * 7) % 46 if k % 3 else rng.randint(5, 50)
        try:
            out.append(record_trace(loop, rng, n, readd=bool(k % 2)))
        except Divergence as e:
            ctx.violation(("readd:" if k % 2 else "") + "record:" + e.kind,
                          "while recording an execution of %d caches (seed %d, trace %d): %s" % (n, ctx.seed, k, e.detail),
                          {"trace_index": k, "population": n, "error": e.detail})
            break
    return out


def tlc_traces(traces, continue_=False):
    """TLC validation of a batch of recorded executions (run in a worker thread)."""
    tmp = scratch_dir("c10t-")
    try:
        path = os.path.join(tmp, "traces.json")
        with open(path, "w", encoding="utf-8") as f:
            json.dump(traces, f)
        # ENABLED is evaluated with one Java frame per conjunct of ObsOk (3 per cache, 50 caches): deeper thread stacks
        return run_tlc("RequestCacheTrace.tla", "RequestCacheTrace.cfg", env={"TRACE_FILE": path}, coverage=False,
                       workers=4, java_opts=("-Xss64m",), continue_=continue_)
    finally:
        shutil.rmtree(tmp, ignore_errors=True)


def rejected_traces(r):
    """Ids of the traces that TLC (run with -continue: every violation is reported) rejected with TraceAccepted."""
    out = set()
    for part in r.output.split("Error: Invariant ")[1:]:
        if part.startswith("TraceAccepted is violated"):
            m = re.search(r"/\\ tid = (\d+)", part)
            if m:
                out.add(int(m.group(1)))
    return out


def judge_traces(ctx, traces, r, tag):
    ctx.add_tlc(tag, r)
    if not r.ok:
        last = r.error_trace[-1][1] if r.error_trace else {}
        tid, l = last.get("tid"), last.get("l")
        bad = traces[tid - 1] if isinstance(tid, int) else None
        ev = bad["events"][l - 1] if bad and isinstance(l, int) and l <= len(bad["events"]) else None
        n = bad["n"] if bad else 0
        spec_view = {k: list(last.get(k, ()))[:n] if k != "table" else list(last.get(k, ()))
                     for k in ("st", "task", "table", "nT", "nC", "fut", "tracked", "zombie")}
        spec_view["hpend"] = last.get("hpend")
        short = None
        readd = False
        if bad:
            short = dict(bad)
            short["events"] = bad["events"][:l] if isinstance(l, int) else bad["events"]
            readd = any(e["op"] == "readd" for e in short["events"])
        ctx.violation("%strace:%s:%s" % ("readd:" if readd else "", r.violated, ev.get("op") if ev else "?"),
                      "recorded RequestCache execution is not a behaviour of RequestCache.tla (%s) at event %s %s; "
                      "specification state before it: %s" % (r.violated, l, ev, spec_view),
                      {"trace": short, "event_index": l})
    else:
        ctx.traces(len(traces))
        ctx.evaluated(sum(len(t["events"]) for t in traces))
        for t in traces:
            ctx.nontrivial(("trace", tuple(t["ident"]), tuple((e["op"], e.get("c"), e.get("i")) for e in t["events"])))
    return r.ok


def corrupt(trace, how):
    t = json.loads(json.dumps(trace))
    evs = t["events"]
    if how == "late-timeout":
        # claim that a cache popped by its response later had its on_timeout called
        for k, e in enumerate(evs):
            if e["op"] == "pop" and e["res"]:
                for e2 in evs[k:]:
                    e2["nT"][e["res"] - 1] += 1
                return t
    elif how == "drop-pop":
        for k, e in enumerate(evs):
            if e["op"] == "pop" and e["res"]:
                del evs[k]
                return t
    elif how == "response-after-timeout":
        # a response that arrives after the time-out still finds the cache
        for k, e in enumerate(evs):
            if e["op"] == "step" and e["nT"][e["c"] - 1] == 1 and (k == 0 or evs[k - 1]["nT"][e["c"] - 1] == 0):
                evs.insert(k + 1, dict(e, op="pop", i=t["ident"][e["c"] - 1], res=e["c"]))
                return t
    elif how == "claimed-stays":
        # the handler of a response was called with the cache, yet the request is still registered afterwards
        for e in evs:
            if e["op"] == "resp" and e["res"] and e["hk"] in ("none", "raise"):
                e["table"][e["i"] - 1] = e["res"]
                return t
    elif how == "double-claim":
        # a retransmitted response is matched with the same request a second time
        for k, e in enumerate(evs):
            if e["op"] == "resp" and e["res"] and e["hk"] in ("none", "raise"):
                e2 = json.loads(json.dumps(e))
                e2["nC"][e["res"] - 1] += 1
                evs.insert(k + 1, e2)
                return t
    elif how == "claim-at-body":
        # a coroutine handler was matched, but the request is only released when its body runs
        for k, e in enumerate(evs):
            if e["op"] == "respco" and e["res"]:
                for e2 in evs[k:]:
                    if e2["op"] == "hbody":
                        break
                    e2["table"][e["i"] - 1] = e["res"]
                return t
    elif how == "later-future-pending":
        # one of the futures tied to a request was completed by somebody else; the time-out then leaves a future
        # registered after it pending
        for k, e in enumerate(evs):
            if e["op"] == "step" and k and e["nT"][e["c"] - 1] == evs[k - 1]["nT"][e["c"] - 1] + 1:
                f = e["fut"][e["c"] - 1]
                for j2 in range(1, len(f)):
                    if f[j2] in ("result", "exception") and "ext" in f[:j2]:
                        for e2 in evs[k:]:
                            e2["fut"][e["c"] - 1][j2] = "pending"
                        return t
    elif how == "teardown-then-shutdown-keeps":
        # the task manager half was torn down first; the shutdown() that follows leaves the requests registered and
        # their futures pending
        for k, e in enumerate(evs):
            if (e["op"] == "shutdown" and k and any(evs[k - 1]["table"])
                    and any(e2["op"] == "shutdowntm" for e2 in evs[:k])):
                e["table"] = list(evs[k - 1]["table"])
                e["fut"] = json.loads(json.dumps(evs[k - 1]["fut"]))
                return t
    raise MachineryError("cannot build corrupted trace %r" % how)


CORRUPTIONS = ("late-timeout", "drop-pop", "response-after-timeout", "claimed-stays", "double-claim", "claim-at-body",
               "later-future-pending", "teardown-then-shutdown-keeps")


def corruptible_trace(loop, seed):
    """Recorded executions of 12 caches (tear-downs and outside future completions twice as likely) on which the
    corruptions can be built -> (a base trace, [(how, corrupted trace)], [corruptions that could not be built])."""
    todo = list(CORRUPTIONS)
    out = {}
    first = None
    for k in range(1, 200):
        try:
            base = record_trace(loop, random.Random(seed + k), 12, teardown=2.0)
        except Divergence:
            continue           # the recordings that are judged report this
        first = first or base
        for how in list(todo):
            try:
                out[how] = corrupt(base, how)
                todo.remove(how)
            except MachineryError:
                continue
        if not todo:
            break
    # a corruption that cannot be built (the real code never showed the events it needs) is judged at the end: on a
    # tree that violates the property this is to be expected, the violations found are the verdict then
    return first, [(how, out[how]) for how in CORRUPTIONS if how in out], todo


# ---------------------------------------------------------------------------------------------------
def report(ctx, found):
    for sig, desc, detail in found:
        ctx.violation(sig, desc, detail)


def replay_file(loop, path):
    """Re-execute the actions of a recorded violation on the real code and print what is observed after each."""
    import ast
    with open(path, encoding="utf-8") as f:
        rep = json.load(f)["replay"]
    if "actions" not in rep or "ident" not in rep:
        print("replay: %s holds a recorded execution; its events are listed in the file" % path)
        return
    w = World(loop, rep["ident"], rep["futk"], rep["cls"], max(rep["ident"] + [2]))
    print("replay of %s  ident=%s futk=%s cls=%s" % (path, rep["ident"], rep["futk"], rep["cls"]))
    dummy = {"table": (0,) * w.ni, "st": ("new",) * w.n, "hpend": 0}      # results are printed, not judged
    try:
        for lab in rep["actions"]:
            if lab == "<run-out>":
                w.runout()
            else:
                name, _, rest = lab.partition("[")
                args = tuple(ast.literal_eval("[" + rest))
                try:
                    apply_action(w, name, args, dummy, dummy, random.Random(0))
                    w.background()
                except Divergence as e:
                    print("  %-28s -> cannot be executed: %s" % (lab, e.detail))
                    break
            print("  %-28s -> %s" % (lab, w.project()))
    finally:
        w.close()


def run(tier, seed, replay=None):
    setup_repo_path()
    ctx = Ctx(PID, tier, seed, "model_checking")
    ctx.cov["rule"] = ("TLC explores every interleaving of add / pop (direct and via a retrieve_cache handler) / response "
                       "dispatched to a handler whose body fails or re-enters the cache (pop, re-entrant response, add; "
                       "plain and coroutine handlers) / task start / "
                       "timer expiry / task wake-up / done callbacks / passthrough / clear / shutdown (repeated, and after "
                       "the inherited shutdown_task_manager()) / several futures tied to one request, any of them "
                       "completed from outside / re-registration, incl. pops and adds from inside on_timeout, for <= 4 caches; every "
                       "transition of the dumped graph (and sampled behaviours of the larger configurations) is executed "
                       "on the real RequestCache under a single-step event loop and the observable outcome compared with "
                       "the TLC state; larger populations: recorded executions validated by TLC. non-trivial = distinct "
                       "(parameters, walk) pairs and distinct recorded executions")
    ctx.assumptions += ["asyncio itself (Task.cancel, sleep, call_later, FIFO ready queue) behaves as documented; the "
                        "specification lets ready handles run in any order, a superset of asyncio's schedules",
                        "single event-loop thread (RequestCache.lock / TaskManager._task_lock are not exercised "
                        "concurrently)",
                        "time-out callbacks of the caches do not raise and do not block",
                        "whether a failure of a handler body propagates out of the retrieve_cache wrapper is not judged; "
                        "coroutine handler bodies do not suspend"]
    rng = random.Random(seed)
    loop = StepLoop()
    asyncio.set_event_loop(loop)
    pool = ThreadPoolExecutor(max_workers=8)
    try:
        if replay:
            replay_file(loop, replay)
        quick = tier == "quick"

        def mc(cfg, **kw):
            return pool.submit(run_tlc, "RequestCache.tla", "RequestCache_%s.cfg" % cfg, **kw)

        # ---- every TLC job is started now (the longest first); the replays below consume them as they finish
        if quick:
            # q3 = q2 with a third cache: that every action is taken is established on the dumped q2 graph (same
            # constants otherwise), TLC's per-action coverage (+50% CPU on the longest job) is not collected again
            checks = [("q3", mc("q3", workers=8, coverage=False), None)]
        j_h2 = pool.submit(dump_graph, "RequestCache_h2.cfg")      # also the graph the replay controls walk
        j_f2 = pool.submit(dump_graph, "RequestCache_f2.cfg")      # ... and the controls on futures / tear-down
        if quick:
            graphs = [("h2", j_h2, None), ("f2", j_f2, None), ("q2", pool.submit(dump_graph, "RequestCache_q2.cfg"), None)]
        j_pin = mc("ctl_pinned", coverage=False, workers=2)
        j_nlc = mc("ctl_nolatecancel", coverage=False, workers=2)
        j_peek = mc("ctl_peek", coverage=False, workers=2)
        j_tear = mc("ctl_teardown", coverage=False, workers=2, continue_=True)
        if quick:
            sims = [("s3", pool.submit(simulate, "RequestCache_s3.cfg", 1600, 40, seed + 7))]
            ntr = 40
        else:
            graphs = [("h2", j_h2, None),
                      ("f2", j_f2, None),
                      ("fx", pool.submit(dump_graph, "RequestCache_fx.cfg"), None),
                      ("h3", pool.submit(dump_graph, "RequestCache_h3.cfg"), None),
                      ("n2", pool.submit(dump_graph, "RequestCache_n2.cfg"), None),
                      ("r3", pool.submit(dump_graph, "RequestCache_r3.cfg"), 1000000)]
            checks = [("n3", mc("n3", workers=8), ALL_ACTIONS),
                      ("n4", mc("n4", workers=12, coverage=False, timeout=7200), None)]
            sims = [("s3", pool.submit(simulate, "RequestCache_s3.cfg", 8000, 45, seed + 7)),
                    ("n4", pool.submit(simulate, "RequestCache_n4.cfg", 8000, 50, seed + 8))]
            ntr = 400

        # ---- recorded executions of larger populations (validated by TLC in the background)
        traces = record_traces(ctx, loop, rng, ntr)
        j_tr = [(k // 100, traces[k:k + 100], pool.submit(tlc_traces, traces[k:k + 100]))
                for k in range(0, len(traces), 100)]
        base = None
        if not ctx.violations:
            base, bad_traces, unbuilt = corruptible_trace(loop, seed)
            j_bad = pool.submit(tlc_traces, [t for _how, t in bad_traces], True)    # one TLC run judges them all

        # ---- negative controls on the specification
        ctx.control("spec with the pinned done_cb (forgets whatever task carries the name) violates NoTimeoutAfterClaim",
                    j_pin.result().violated == "NoTimeoutAfterClaim")
        ctx.control("spec in which cancelling a fired-but-not-run task has no effect violates NoTimeoutAfterClaim",
                    j_nlc.result().violated == "NoTimeoutAfterClaim")
        # ---- replay control: a RequestCache whose pop() does not cancel the time-out must be flagged
        bad = replay_graph(ctx, loop, j_h2.result(), "RequestCache_h2.cfg", 2, "ctl", 20000, random.Random(seed),
                           rc_class=classes()["NoCancelRC"], record=False)
        ctx.control("replay flags a RequestCache whose pop() leaves the time-out task running", bool(bad))
        ctx.control("spec in which retrieve_cache releases the identifier only after the handler returned (never when "
                    "it raised) violates NoTimeoutAfterClaim", j_peek.result().violated == "NoTimeoutAfterClaim")
        bad = replay_graph(ctx, loop, j_h2.result(), "RequestCache_h2.cfg", 2, "ctl", 20000, random.Random(seed),
                           overlay_class=classes()["PeekOverlay"], record=False)
        ctx.control("replay flags a matching helper that claims the cache only after the handler body has run", bool(bad))
        # ---- several futures per request / tear-down sequences
        broken = set(re.findall(r"Invariant (\S+) is violated", j_tear.result().output))
        ctx.control("spec in which the loop over the tied futures stops at the first one that is already done violates "
                    "FuturesCompletedOnTimeout", "FuturesCompletedOnTimeout" in broken)
        ctx.control("spec in which shutdown() returns at once when the flag is already up (task manager torn down first) "
                    "violates NothingRegisteredAfterShutdown", "NothingRegisteredAfterShutdown" in broken)
        bad = replay_graph(ctx, loop, j_f2.result(), "RequestCache_f2.cfg", 2, "ctl", 40000, random.Random(seed),
                           rc_class=classes()["FirstDoneStopsRC"], record=False)
        ctx.control("replay flags a RequestCache whose time-out stops completing the tied futures at the first done one",
                    bool(bad) and "fut" in bad[0][0])
        bad = replay_graph(ctx, loop, j_f2.result(), "RequestCache_f2.cfg", 2, "ctl", 40000, random.Random(seed),
                           rc_class=classes()["GuardedShutdownRC"], record=False)
        ctx.control("replay flags a RequestCache whose shutdown() does nothing after shutdown_task_manager()", bool(bad))

        # ---- replay of the state graphs and of simulated behaviours
        found = []
        for tag, job, max_ops in graphs:
            dumped = job.result()
            check_coverage(dumped[0], tag, EXPECT[tag])
            if not found:
                found += replay_graph(ctx, loop, dumped, "RequestCache_%s.cfg" % tag, 2, tag, max_ops, rng)
        for tag, job in sims:
            behaviours = job.result()
            if not found:
                found += replay_simulation(ctx, loop, behaviours, "RequestCache_%s.cfg" % tag, 2, tag, rng)
        report(ctx, found)

        # ---- model checking results
        for tag, job, expect in checks:
            r = job.result()
            ctx.add_tlc(tag, r)
            if not r.ok:
                raise MachineryError("RequestCache_%s: TLC reports %s on the specification itself" % (tag, r.violated))
            if expect:
                check_coverage(r, tag, expect)
        ctx.cov["exhaustive"] = True

        # ---- verdict on the recorded executions
        for k, batch, job in j_tr:
            if not judge_traces(ctx, batch, job.result(), "trace%d" % k):
                break
        if traces:
            ctx.note("trace_events", {"traces": len(traces), "events": sum(len(t["events"]) for t in traces),
                                      "largest_population": max(t["n"] for t in traces)})
            ctx.sample({"recorded_execution": {"n": traces[0]["n"], "first_events": traces[0]["events"][:4]}})
        if base is not None and not ctx.violations:
            rejected = rejected_traces(j_bad.result())
            for k, (how, _t) in enumerate(bad_traces):
                ctx.control("trace corrupted by '%s' is rejected" % how, (k + 1) in rejected)
            if unbuilt:
                raise MachineryError("no recorded execution contains the events the trace controls need: %s" % unbuilt)
    finally:
        pool.shutdown(wait=True, cancel_futures=True)
        asyncio.set_event_loop(None)
        loop.close()
    return ctx.finish()
