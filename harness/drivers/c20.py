"""C20 - compiled (vp_compile) and dataclass payloads behave like their plain, interpreted definition.

specs/PayloadDef.tla (on top of the reference codec Wire.tla) gives the meaning of a payload definition: field
formats, default values, per-field fix_pack_/fix_unpack_ rules, nesting.  TLC enumerates every definition of up to
2 (thorough: 3) fields over 13 field kinds x defaults x custom rules x three calling conventions, and draws longer
definitions (up to 12 fields) with -simulate; for every state it computes the field values after construction, the
bytes and the decode result.  The driver materialises each definition three times - plain VariablePayload, a
vp_compile'd copy and (when expressible through type_map) a DataClassPayload - and checks constructor result, bytes
and decoded attributes of every form against what TLC computed (translation validation, binding E).  Every shipped
VariablePayload class is additionally re-interpreted (plain copy) and re-compiled (fresh vp_compile) and all three are
run on generated instances; the recorded pack/unpack/repack events are validated by TLC (WireTrace.tla, binding T).

A class body holds more than wire fields (PayloadDef.tla: AddConst): constants (bare or typing.ClassVar-annotated),
helper methods, the message id (bare / ClassVar / in the class header).  TLC places them before, between and after the
fields, in the base class and (overriding) in the subclass; the definition keeps its meaning (invariant ConstsOffWire)
and every member must show the value TLC computed (cvals) on the class, on a constructed and on a decoded instance.

The dataclass form derives its formats from type annotations (PayloadDef.tla: Ann / TypeMap / Annotate): every field of
a definition carries the annotation TLC chose for it - native type, format type variable or payload class, alone or as
the element of list[T] / tuple[T, ...] / typing.List[T] / typing.Tuple[T, ...], as an object or as a string - and the
format list the real class holds after its first use must be the one TLC computed (dfmt, invariant AnnotationsMean), next
to bytes and type-exact decoded values (a list of bool is not a list of int)."""
from __future__ import annotations

import concurrent.futures
import dataclasses
import glob
import json
import os
import random
import re
import shutil
import sys
import typing

from ..common import Ctx, setup_repo_path
from ..tlc import MachineryError, _RE_NODE, _unescape, parse_simulate_file, parse_state, run_tlc, scratch_dir
from ..wirevals import JAVA_OPTS, Gen, canon, plain
from .c02 import World, record, run_trace_controls, settle_trace_controls, validate

PID = "C20"
NESTED = "messaging.anonymization.payload.IntroductionInfo"
STATE_KEYS = ("def", "split", "style", "args", "fields", "pbytes", "pdec", "consts", "cvals", "bcvals", "dfmt")
# the annotation language of the dataclass form (PayloadDef.tla: Ann): base types and how a container is written
NATIVE = {"bool": bool, "int": int, "float": float, "bytes": bytes, "str": str}
CONTAINER = {"": (lambda t: t, "%s"), "list": (lambda t: list[t], "list[%s]"), "tuple": (lambda t: tuple[t, ...], "tuple[%s, ...]"),
             "List": (lambda t: typing.List[t], "typing.List[%s]"), "Tuple": (lambda t: typing.Tuple[t, ...], "typing.Tuple[%s, ...]")}
CANON_ANN = {"?": ("", "bool"), "q": ("", "int"), "d": ("", "float"), "varlenH": ("", "bytes"), "varlenHutf8": ("", "str"),
             "arrayH-?": ("list", "bool"), "arrayH-q": ("list", "int"), "arrayH-d": ("list", "float"),
             "payload": ("", "payload"), "payload-list": ("list", "payload")}
# non-field members of a class body (PayloadDef.tla: ConstKinds): attribute name, annotation, specification value -> python
MEMBERS = {"int": ("MAX_ITEMS", int, int), "text": ("LABEL", str, lambda v: "".join(map(chr, v))),
           "tuple": ("VERSIONS", typing.Tuple[int, ...], lambda v: tuple(int(x) for x in v)),
           "msgid": ("msg_id", int, int), "method": ("helper", None, int)}


def rotl(v):
    return v[1:] + v[:1]


def rotr(v):
    return v[-1:] + v[:-1]


HOOKS = {"?": (lambda v: not v, lambda v: not v),
         "H": (lambda v: (v + 1) % 65536, lambda v: (v - 1) % 65536),
         "I": (lambda v: 0xFFFFFFFF - v, lambda v: 0xFFFFFFFF - v),
         "20s": (rotl, rotr), "varlenH": (rotl, rotr), "varlenHutf8": (rotl, rotr),
         "bits": (lambda v: 1 - v, lambda v: 1 - v),              # rule on the first bit name only
         "payload-list": (lambda v: list(reversed(v)), lambda v: list(reversed(v))),
         "arrayH-?": (lambda v: list(reversed(v)), lambda v: list(reversed(v)))}


def canon_ann(k):
    """PayloadDef.tla: Canon - the annotation customarily written for a field of format k."""
    c, b = CANON_ANN.get(k, ("", "format"))
    return {"c": c, "b": b, "f": k if b == "format" else "", "s": False}


def publish(name, obj):
    """bind a name in this module: annotations written as strings are resolved in the module of the class (PEP 563)."""
    g = sys.modules[__name__].__dict__
    if g.get(name, obj) is not obj:
        raise MachineryError("name %s is already taken in %s" % (name, __name__))
    g[name] = obj
    return name


TYPEVARS = {}       # (type_from_format, format name) -> (module-level identifier, the type variable)


class Definition:
    """One payload definition of PayloadDef.tla, materialised as real classes."""

    counter = 0

    def __init__(self, world, df, sabotage=None, base=None, consts=()):
        """base: the Definition of the leading fields df[:len(base.df)]; then the classes built here are *subclasses* of
        the base's classes that add the remaining fields (PayloadDef.tla: Derive).
        consts: the non-field members (PayloadDef.tla: AddConst) of the whole definition; a derived Definition writes
        those with sub = TRUE into its own class body, the others belong to the base."""
        from ipv8.messaging.lazy_payload import VariablePayload, vp_compile
        from ipv8.messaging.payload_dataclass import DataClassPayload, type_from_format
        self.world, self.df, self.base = world, df, base
        self.sabotage = sabotage
        self.consts = tuple(consts)
        self.own_consts = [c for c in self.consts if bool(c["sub"]) == (base is not None)]
        self.split = len(base.df) if base is not None else 0
        self.VariablePayload, self.vp_compile = VariablePayload, vp_compile
        self.DataClassPayload, self.type_from_format = DataClassPayload, type_from_format
        codec = world.codec
        self.nested = codec.klass(NESTED)
        Definition.counter += 1
        self.uid = Definition.counter
        self.names, self.types, self.format_list, self.defaults, self.hooks = [], [], [], {}, {}
        self.field_names = []
        for i, f in enumerate(df, 1):
            k = f["k"]
            names = ["f%d_%d" % (i, j) for j in range(8)] if k == "bits" else ["f%d" % i]
            self.field_names.append(names)
            self.names += names
            self.types += ["bit"] * 8 if k == "bits" else [k]
            self.format_list.append(self.nested if k == "payload" else [self.nested] if k == "payload-list" else k)
            if f["d"]:
                dv = codec.to_py(k, f["dv"], NESTED)
                if k == "bits":
                    self.defaults.update(dict(zip(names, dv)))
                else:
                    self.defaults[names[0]] = tuple(dv) if isinstance(dv, list) else dv   # immutable default objects
            if f["h"] and sabotage != "no-hooks":
                self.hooks[names[0]] = HOOKS[k]
        self.errors = {}
        self.forms = {}
        for form, build in (("plain", self._plain), ("compiled", self._compiled), ("dataclass", self._dataclass)):
            try:
                c = build()
                if c is not None:
                    self.forms[form] = c
            except MachineryError:
                raise
            except LookupError:
                pass                          # the base has no such form: nothing to derive from
            except Exception as e:  # noqa: BLE001
                self.errors[form] = "%s: %s" % (type(e).__name__, str(e)[:160])

    # ---- the class bodies a user would write
    def _own_hooks(self):
        """custom rules written in this class body (those of the base fields are inherited from the base class)."""
        own = {n for names in self.field_names[self.split:] for n in names}
        ns = {}
        for n, (hp, hu) in self.hooks.items():
            if n in own:
                ns["fix_pack_" + n] = (lambda hp: lambda self, v: hp(v))(hp)
                ns["fix_unpack_" + n] = classmethod((lambda hu: lambda cls, v: hu(v))(hu))
        return ns

    def _parent(self, form, default):
        if self.base is None:
            return default
        if form not in self.base.forms:
            raise LookupError("base class has no %s form" % form)
        return self.base.forms[form]

    @staticmethod
    def member_value(c):
        """python value of a member as written in the class body that declares it (PayloadDef.tla: consts[i].v)."""
        v = MEMBERS[c["ck"]][2](c["v"])
        return (lambda v: lambda self: v)(v) if c["ck"] == "method" else v

    def _members(self, annotate):
        """-> (namespace entries, annotations) for the members written in this class body (header ones excluded)."""
        ns, ann = {}, {}
        for c in self.own_consts:
            if c["sty"] == "subscript":
                continue
            name, tp, _ = MEMBERS[c["ck"]]
            ns[name] = self.member_value(c)
            if annotate and c["sty"] == "classvar":
                ann[name] = typing.ClassVar[tp]
        return ns, ann

    def _header_id(self):
        for c in self.own_consts:
            if c["sty"] == "subscript":
                return self.member_value(c)
        return None

    def _namespace(self):
        ns = {"format_list": list(self.format_list), "names": list(self.names)}
        ns.update(self._own_hooks())
        members, ann = self._members(True)
        ns.update(members)
        if ann:
            ns["__annotations__"] = ann
        if self._header_id() is not None:        # plain counterpart of Base[id]: a VariablePayloadWID with that msg_id
            ns["msg_id"] = self._header_id()
        if self.defaults:
            params = ", ".join(n if n not in self.defaults else "%s=_d[%r]" % (n, n) for n in self.names)
            src = "def __init__(self, %s, **kwargs):\n    VariablePayload.__init__(self, %s, **kwargs)\n" % (
                params, ", ".join(self.names))
            scope = {"_d": self.defaults, "VariablePayload": self.VariablePayload}
            exec(src, scope)  # noqa: S102  (the definition under test: a plain __init__ with default values)
            ns["__init__"] = scope["__init__"]
        return ns

    def _root(self):
        from ipv8.messaging.lazy_payload import VariablePayloadWID
        return VariablePayloadWID if self._header_id() is not None else self.VariablePayload

    def _plain(self):
        return type("Plain%d" % self.uid, (self._parent("plain", self._root()),), self._namespace())

    def _compiled(self):
        return self.vp_compile(type("Compiled%d" % self.uid, (self._parent("compiled", self._root()),), self._namespace()))

    def annotation(self, f):
        """the annotation of PayloadDef.tla (def[i].ann) as the object / the string a user writes in the class body."""
        a = f.get("ann") or canon_ann(f["k"])
        c, b, s = a["c"], a["b"], a["s"]
        if self.sabotage == "elem-int" and c and b == "bool":
            b = "int"                         # control: a sequence of bool annotated as a sequence of int
        if b in NATIVE:
            obj, name = NATIVE[b], b
        elif b == "payload":
            obj, name = self.nested, self.nested.__name__
        elif b == "format":
            key = (self.type_from_format, a["f"])
            if key not in TYPEVARS:
                TYPEVARS[key] = ("FMT%d" % len(TYPEVARS), self.type_from_format(a["f"]))
            name, obj = TYPEVARS[key]
        else:
            raise MachineryError("annotation %r has no python counterpart" % (a,))
        if not s:
            return CONTAINER[c][0](obj)
        return CONTAINER[c][1] % publish(name, obj)

    def _dataclass(self):
        if any(f["k"] == "bits" for f in self.df):
            return None                       # eight names for one format: not expressible as dataclass fields
        if self.base is not None and "dataclass" not in self.base.forms:
            return None
        fields = []
        namespace = self._own_hooks()

        def members_at(pos):                  # annotated members stand in the annotation order where the body has them
            for c in self.own_consts:
                if c["pos"] != pos or c["sty"] == "subscript":
                    continue
                name, tp, _ = MEMBERS[c["ck"]]
                if c["sty"] == "classvar" and self.sabotage == "const-field":
                    fields.append((name, tp, dataclasses.field(default=self.member_value(c))))     # control: a real field
                elif c["sty"] == "classvar":
                    fields.append((name, typing.ClassVar[tp], self.member_value(c)))
                else:
                    namespace[name] = self.member_value(c)
        own = list(zip(self.df, self.field_names))[self.split:]                # a derived dataclass lists its own fields only
        for i, (f, names) in enumerate(own, self.split):
            members_at(i)
            n = names[0]
            t = self.annotation(f)
            fields.append((n, t, dataclasses.field(default=self.defaults[n])) if n in self.defaults else (n, t))
        members_at(len(self.df))
        root = self.DataClassPayload if self._header_id() is None else self.DataClassPayload[self._header_id()]
        return dataclasses.make_dataclass("Data%d" % self.uid, fields, bases=(self._parent("dataclass", root),),
                                          namespace=namespace, module=__name__)

    # ---- expected values in python / normal form
    def flat(self, values):
        """per-field specification values -> python arguments per name."""
        out = []
        for f, v in zip(self.df, values):
            pv = self.world.codec.to_py(f["k"], v, NESTED)
            out += list(pv) if f["k"] == "bits" else [pv]
        return out

    def flat_norm(self, values):
        out = []
        for f, v in zip(self.df, values):
            out += [int(b) for b in v] if f["k"] == "bits" else [canon(v)]
        return out

    def attributes(self, obj):
        codec = self.world.codec
        return [codec.to_norm(t, getattr(obj, n), NESTED) if hasattr(obj, n) else ("MISSING",)
                for n, t in zip(self.names, self.types)]

    def formats(self, cls):
        """the format list and names a class holds (nested classes by role), as PayloadDef.tla names them (dfmt)."""
        out = []
        for x in getattr(cls, "format_list", ()):
            if isinstance(x, str):
                out.append(x)
            elif isinstance(x, type):
                out.append("payload" if x is self.nested else ("OTHER", x.__name__))
            elif isinstance(x, (list, tuple)) and len(x) == 1 and isinstance(x[0], type):
                out.append("payload-list" if x[0] is self.nested else ("OTHER", x[0].__name__))
            else:
                out.append(("OTHER", repr(x)[:40]))
        return tuple(out), tuple(getattr(cls, "names", ()))

    def members(self, cls, inst, dec):
        """what every non-field member shows on the class, on a constructed and on a decoded instance (normal form)."""
        def norm(ck, owner, obj):
            if obj is None:
                return None                   # no such instance: reported (or noted as a codec matter) at its own stage
            name = MEMBERS[ck][0]
            try:
                v = getattr(owner, name)
                if ck == "method":
                    v = v(obj) if owner is cls else v()
            except Exception as e:  # noqa: BLE001
                return ("MISSING", type(e).__name__)
            if isinstance(v, bool) or not isinstance(v, (int, str, tuple)):
                return ("OTHER", repr(v)[:60])
            return tuple(map(ord, v)) if isinstance(v, str) else canon(v)
        seen = ((norm(c["ck"], cls, inst if inst is not None else dec), norm(c["ck"], inst, inst), norm(c["ck"], dec, dec))
                for c in self.consts)
        return tuple(tuple(x for x in triple if x is not None) for triple in seen)


def reunpack(world, defn, cls, own):
    try:
        d2, end = world.serializer.unpack_serializable(cls, own)
        return (canon(defn.attributes(d2)), end, type(d2) is cls)
    except Exception as e:  # noqa: BLE001
        return ("raised", type(e).__name__, "%s: %s" % (type(e).__name__, str(e)[:160]))


def run_form(world, defn, form, st, own=None):
    """construct / pack / unpack one form -> {"construct": attrs | ("raised", ..), "pack": ..., "unpack": ...}
    own: bytes the plain form packed, when they are not those of the reference codec - every form decodes them too."""
    ser = world.serializer
    style, names = st["style"], defn.names
    args = defn.flat(st["args"])
    out = {}
    if form in defn.errors:
        return {"class": ("raised", defn.errors[form].split(":")[0], defn.errors[form])}
    cls = defn.forms[form]

    def construct():
        if style == "positional":
            return cls(*args)
        if style == "keyword":
            p = len(names) // 2
            return cls(*args[:p], **dict(zip(names[p:], args[p:])))
        q = len([n for n in names if n not in defn.defaults])
        return cls(*args[:q])
    try:
        inst = construct()
        out["construct"] = canon(defn.attributes(inst))
    except Exception as e:  # noqa: BLE001
        out["construct"] = ("raised", type(e).__name__, "%s: %s" % (type(e).__name__, str(e)[:160]))
        inst = None
    if inst is not None:
        out["formats"] = defn.formats(type(inst))       # what the class holds once it has been used (dfmt)
        try:
            out["pack"] = bytes(ser.pack_serializable(inst))
        except Exception as e:  # noqa: BLE001
            out["pack"] = ("raised", type(e).__name__, "%s: %s" % (type(e).__name__, str(e)[:160]))
    dec = None
    try:
        dec, end = ser.unpack_serializable(cls, bytes(st["pbytes"]))
        out["unpack"] = (canon(defn.attributes(dec)), end, type(dec) is cls)
    except Exception as e:  # noqa: BLE001
        out["unpack"] = ("raised", type(e).__name__, "%s: %s" % (type(e).__name__, str(e)[:160]))
    if own is not None:
        out["reunpack"] = reunpack(world, defn, cls, own)
    if defn.consts:
        out["members"] = defn.members(cls, inst, dec)
    if inst is not None and not raised(out.get("pack")):
        try:                                  # the class has been used now: a second instance must behave the same
            again = construct()
            out["again"] = (canon(defn.attributes(again)), bytes(ser.pack_serializable(again)))
        except Exception as e:  # noqa: BLE001
            out["again"] = ("raised", type(e).__name__, "%s: %s" % (type(e).__name__, str(e)[:160]))
    return out


STAGES = ("class", "construct", "formats", "pack", "unpack", "reunpack", "again", "members")


def raised(x):
    return isinstance(x, tuple) and len(x) == 3 and x[0] == "raised"


def describe(x):
    if raised(x):
        return "raises " + x[2]
    if isinstance(x, bytes):
        return x[:40].hex()
    return repr(plain(x))[:160]


def check_state(world, defn, st):
    """One TLC state (definition, calling convention, arguments, expected fields / bytes / decoding) on every form.
    -> (comparisons, [(form, aspect, key, detail)] translation disagreements, [codec-level notes])

    The property is about the *translation*: a form is wrong when it differs from the plain interpreted form.  The
    plain form in turn is held against the values TLC computed from PayloadDef.tla: constructor semantics (defaults,
    argument binding) are part of this property; a difference in the bytes of a single field format that all forms
    share is a codec matter (property C02) and only noted."""
    want = {"construct": canon(defn.flat_norm(st["fields"])), "pack": bytes(st["pbytes"]),
            "unpack": (canon(defn.flat_norm(st["fields"])), len(st["pbytes"]), True),
            "again": (canon(defn.flat_norm(st["fields"])), bytes(st["pbytes"])),
            "members": tuple((canon(v),) * 3 for v in st.get("cvals", ())),
            "formats": (tuple(st.get("dfmt") or [f["k"] for f in st["def"]]), tuple(defn.names))}
    res, own = {}, None
    for form in ("plain", "compiled", "dataclass"):
        if form not in defn.forms and form not in defn.errors:
            continue
        res[form] = run_form(world, defn, form, st, own)
        packed = res[form].get("pack")
        if form == "plain" and isinstance(packed, bytes) and packed != want["pack"]:
            # the plain form's bytes are not those of the reference codec (a codec matter): decoding the reference
            # bytes says little then, so every form also decodes what the plain form packed (RoundTripDef)
            own = packed
            res[form]["reunpack"] = reunpack(world, defn, defn.forms[form], own)
            want["reunpack"] = (want["construct"], len(own), True)
    n_cmp, probs, codec_notes = 0, [], []
    ref = res.get("plain", {})
    for form, out in res.items():
        if form == "plain":
            continue
        for stage in STAGES:
            if stage not in out and stage not in ref:
                continue
            n_cmp += 1
            a, b = ref.get(stage), out.get(stage)
            same = (a == b) or (raised(a) and raised(b) and a[1] == b[1])
            if not same:
                key = b[1] if raised(b) else "differs"
                probs.append((form, stage, key, "%s form: %s %s, plain form %s" % (
                    form, stage, describe(b) if b is not None else "not reached", describe(a) if a is not None else "not reached")))
                break
    for stage in STAGES:
        if stage in ("again", "members", "reunpack", "formats") and stage not in ref:
            continue
        if stage == "members":                # (as many observations per member as there were instances to look at)
            want[stage] = tuple(w[:len(g)] for w, g in zip(want[stage], ref[stage])) + want[stage][len(ref[stage]):]
        if stage == "members" and ref[stage] != want[stage]:
            n_cmp += 1
            probs.append(("plain", stage, "differs", "plain form: members %s show %s, definition means %s" % (
                [MEMBERS[c["ck"]][0] for c in defn.consts], describe(ref[stage]), describe(want[stage]))))
            break
        if stage == "class":
            if "class" in ref:
                probs.append(("plain", "class", ref["class"][1], "plain definition cannot be created: " + ref["class"][2]))
                break
            continue
        n_cmp += 1
        got = ref.get(stage)
        if got == want[stage]:
            continue
        if stage == "again" and not raised(got) and got[0] == want[stage][0]:
            codec_notes.append("second packing of %s: %s, reference codec %s" % ([f["k"] for f in st["def"]], describe(got[1]), describe(want[stage][1])))
            continue
        if stage == "formats":
            probs.append(("plain", stage, "differs", "plain form holds formats / names %s, definition means %s" % (describe(got), describe(want[stage]))))
            break
        if stage in ("construct", "again"):
            probs.append(("plain", stage, got[1] if raised(got) else "differs",
                          "plain form after a %s call: %s, definition means %s" % (st["style"], describe(got), describe(want[stage]))))
            break
        codec_notes.append("%s of %s: %s, reference codec %s" % (stage, [f["k"] for f in st["def"]], describe(got), describe(want[stage])))
    return n_cmp, probs, codec_notes


def called_states(dot_path):
    with open(dot_path, encoding="utf-8") as f:
        text = f.read()
    seen = set()
    for m in _RE_NODE.finditer(text):
        lbl = m.group(2)
        if 'dphase = \\"called\\"' not in lbl or m.group(1) in seen:
            continue
        seen.add(m.group(1))
        st = parse_state(_unescape(lbl))
        yield {k: st[k] for k in STATE_KEYS}


def tlc_exhaustive(cfg):
    tmp = scratch_dir("c20e-")
    try:
        dot = os.path.join(tmp, "g.dot")
        r = run_tlc("PayloadDef.tla", cfg, dump=dot, coverage=False, workers=4, java_opts=JAVA_OPTS)
        if not r.ok:
            raise MachineryError("PayloadDef.tla %s: the plain definition itself violates %s" % (cfg, r.violated))
        return r, list(called_states(dot))
    finally:
        shutil.rmtree(tmp, ignore_errors=True)


def tlc_simulate(cfg, num, seed):
    tmp = scratch_dir("c20s-")
    try:
        r = run_tlc("PayloadDef.tla", cfg, coverage=False, workers=1, java_opts=JAVA_OPTS,
                    simulate="file=%s,num=%d" % (os.path.join(tmp, "b"), num), depth=20, seed=seed)
        if not r.ok:
            raise MachineryError("PayloadDef.tla %s (simulation): %s" % (cfg, r.violated))
        m = re.search(r"The number of states generated: (\d+)", r.output)
        if m:
            r.generated = r.distinct = int(m.group(1))
        out = []
        for path in sorted(glob.glob(os.path.join(tmp, "b_*"))):
            steps = parse_simulate_file(path)
            if steps and steps[-1][2].get("dphase") == "called":
                st = steps[-1][2]
                out.append({k: st[k] for k in STATE_KEYS})
        return r, out
    finally:
        shutil.rmtree(tmp, ignore_errors=True)


def ann_key(f):
    a = f.get("ann") or canon_ann(f["k"])
    return (a["c"], a["b"], a["f"], bool(a["s"]))


def def_key(df):
    return tuple((f["k"], f["d"], f["h"], ann_key(f)) for f in df)


def ann_text(f):
    c, b, fm, s = ann_key(f)
    t = CONTAINER[c][1] % ({"format": "type_from_format(%r)" % fm, "payload": "<payload class>"}.get(b, b))
    return "annotated %s" % (repr(t) if s else t)


def free_ann(f):
    """the field is annotated otherwise than customary (PayloadDef.tla: Annotate was taken for it)."""
    return f["k"] != "bits" and ann_key(f) != ann_key({"k": f["k"]})


def const_key(consts):
    return tuple((c["ck"], c["sty"], c["pos"], bool(c["sub"])) for c in consts)


def base_consts(st):
    return tuple(c for c in st.get("consts", ()) if not c["sub"])


def base_state(world, base_def, st, spec_index):
    """a state for the base class of a derived definition: the one TLC computed for that definition when it was
    enumerated on its own, else (long simulated ones) the leading arguments with the bytes the plain form packs."""
    key = def_key(base_def.df)
    members = {"consts": base_consts(st), "cvals": st.get("bcvals", ()), "bcvals": st.get("bcvals", ())}
    for style in (st["style"], "positional"):
        if (key, style) in spec_index:       # the base class's own members show the values TLC computed for it (bcvals)
            return dict(spec_index[(key, style)], **members)
    n = len(base_def.df)
    bst = {"def": st["def"][:n], "split": 0, "style": "positional", "args": st["args"][:n], "fields": st["args"][:n], "pbytes": ()}
    bst.update(members)
    packed = run_form(world, base_def, "plain", bst).get("pack")
    if packed is None or raised(packed):
        return None
    bst["pbytes"] = tuple(packed)
    return bst


def materialise(world, st, order, spec_index):
    """classes of one definition; for a derived one in the given order of first use.
    -> (Definition to check, [problems found while the base class was used first])"""
    split = st.get("split", 0)
    consts = st.get("consts", ())
    if not split:
        return Definition(world, st["def"], consts=consts), None, []
    base_def = Definition(world, st["def"][:split], consts=base_consts(st))
    early = []
    if order == "base-first":                 # the base class is instantiated, packed and unpacked before the subclass exists
        bst = base_state(world, base_def, st, spec_index)
        if bst is not None:
            early = check_state(world, base_def, bst)[1]
    return Definition(world, st["def"], base=base_def, consts=consts), base_def, early


def run_states(ctx, world, states, tag, cache, codec_notes, spec_index=None):
    spec_index = spec_index if spec_index is not None else {}
    n_cmp_total = 0
    for st in states:
        split = st.get("split", 0)
        for order in (("base-first", "derived-first") if split else ("",)):
            key = (def_key(st["def"]), split, order, const_key(st.get("consts", ())))
            fresh = key not in cache
            if fresh:
                cache[key] = materialise(world, st, order, spec_index)
            defn, base_def, early = cache[key]
            n_cmp, probs, notes = check_state(world, defn, st)
            probs = [(f, a, k, d, "") for f, a, k, d in probs]
            if fresh:
                probs += [(f, a, k, "base class, used before its subclass existed: " + d, ":base") for f, a, k, d in early]
                if order == "derived-first":  # now the base class is used for the first time: it must be unaffected
                    bst = base_state(world, base_def, st, spec_index)
                    if bst is not None:
                        n2, late, _ = check_state(world, base_def, bst)
                        n_cmp += n2
                        probs += [(f, a, k, "base class, first used after its subclass: " + d, ":base") for f, a, k, d in late]
            n_cmp_total += n_cmp
            ctx.evaluated(1)
            ctx.nontrivial((key, st["style"]))
            for n in notes:
                kinds = tuple(sorted({f["k"] for f in st["def"]}))
                codec_notes.setdefault(kinds if len(kinds) < 3 else ("...",), n)
            for form, aspect, k, detail, who in probs:
                kinds = "+".join(sorted({f["k"] for f in st["def"] if f["d"]}))
                shape = [(f["k"], "default" if f["d"] else "", "rules" if f["h"] else "") + ((ann_text(f),) if free_ann(f) else ())
                         for f in st["def"]]
                annotated = any(free_ann(f) for f in st["def"])
                consts = st.get("consts", ())
                members = "" if not consts else " with non-field members %s" % [
                    "%s (%s, %s, after %d fields)" % (MEMBERS[c["ck"]][0], {"bare": "plain assignment", "classvar": "ClassVar annotation",
                                                      "subscript": "class header"}[c["sty"]], "subclass" if c["sub"] else "class", c["pos"])
                    for c in consts]
                ctx.violation("def:%s:%s:%s%s%s%s%s" % (form, aspect, k, (":derived-" + order) if split else "", who,
                                                        ":members-" + "+".join(sorted({c["sty"] for c in consts})) if consts else "",
                                                        ":annotated" if annotated and form == "dataclass" else ""),
                              "definition %s%s, %s call: %s%s" % (
                                  shape if not split else "%s extended by subclass fields %s (%s)" % (shape[:split], shape[split:], order),
                                  members, st["style"], detail, (" [kinds with defaults: %s]" % kinds) if kinds else ""),
                              {"state": plain(st)})
    return n_cmp_total


def shipped_classes(ctx, world, rng, per_class):
    """every shipped VariablePayload: shipped (compiled) vs plain re-interpretation vs fresh compilation, on generated
    instances; the recordings are validated by TLC against Wire.tla."""
    from ipv8.messaging.lazy_payload import VariablePayload, vp_compile
    gen = Gen(world.codec, rng, world.keys)
    traces, forms_of = [], {}
    keys = sorted(c for c, row in world.tables["msg"].items() if not row["hand"] and not row["base"])
    for key in keys:
        k = world.classes[key]
        body = {"format_list": list(k.format_list), "names": list(k.names)}
        forms = {"shipped": k, "plain": type(k.__name__ + "Plain", (VariablePayload,), dict(body)),
                 "recompiled": vp_compile(type(k.__name__ + "Recompiled", (VariablePayload,), dict(body)))}
        forms_of[key] = forms
        row = world.tables["msg"][key]
        for i in range(per_class):
            fields = gen.fields(key)
            for form, cls in forms.items():
                world.codec.extra_classes[key] = (cls, row)
                try:
                    t = record(world, "msg", key, fields, i % 4)
                finally:
                    del world.codec.extra_classes[key]
                t["notes"]["form"] = form
                traces.append(t)
    return keys, traces


def sabotage_control(ctx, world, states):
    """a form that silently drops the custom rules must be flagged by the comparison."""
    st = next(s for s in states if any(f["h"] for f in s["def"]) and not s["split"])
    bad = Definition(world, st["def"], sabotage="no-hooks")
    mixed = Definition(world, st["def"])
    mixed.forms["compiled"] = bad.forms["compiled"]
    _, p_bad, _ = check_state(world, mixed, st)
    ctx.control("a compiled form that ignores fix_pack_/fix_unpack_ is flagged",
                any(p[0] == "compiled" and p[1] in ("pack", "unpack") for p in p_bad))
    # a subclass that silently behaves like its (already used) base class must be flagged
    st3 = next(s for s in states if s["split"] and not any(f["k"] == "bits" for f in s["def"]))
    good, base_def, _ = materialise(world, st3, "base-first", {})
    good.forms["dataclass"] = type("Stale", (base_def.forms["dataclass"],), {})
    _, p_stale, _ = check_state(world, good, st3)
    ctx.control("a derived dataclass that still encodes/decodes as its base class is flagged",
                any(p[0] == "dataclass" for p in p_stale))
    # and a definition whose plain form does not do what PayloadDef.tla says (wrong default) is flagged as well
    st2 = next(s for s in states if s["style"] == "defaulted" and not s["split"])
    wrong = Definition(world, st2["def"])
    first = next(iter(wrong.defaults))
    wrong.defaults[first] = object()
    wrong.forms = {"plain": wrong._plain()}
    _, p_wrong, _ = check_state(world, wrong, st2)
    ctx.control("a plain form that constructs other field values than the definition means is flagged",
                any(p[0] == "plain" and p[1] == "construct" for p in p_wrong))


def member_controls(ctx, world, states):
    """forms that mistreat the non-field members of a class body must be flagged."""
    st = next(s for s in states if not s["split"] and len(s["consts"]) == 1 and s["consts"][0]["ck"] == "int"
              and s["consts"][0]["sty"] == "classvar" and s["consts"][0]["pos"] == len(s["def"])
              and not any(f["k"] == "bits" for f in s["def"]))
    mixed = Definition(world, st["def"], consts=st["consts"])
    mixed.forms["dataclass"] = Definition(world, st["def"], consts=st["consts"], sabotage="const-field").forms["dataclass"]
    _, p_field, _ = check_state(world, mixed, st)
    ctx.control("a dataclass form that puts a ClassVar-annotated constant on the wire is flagged",
                any(p[0] == "dataclass" and p[1] in ("construct", "formats", "pack", "unpack") for p in p_field))
    lost = Definition(world, st["def"], consts=st["consts"])
    setattr(lost.forms["compiled"], MEMBERS["int"][0], 0)
    _, p_lost, _ = check_state(world, lost, st)
    ctx.control("a compiled form whose class constant lost its value is flagged",
                any(p[0] == "compiled" and p[1] == "members" for p in p_lost))
    sto = next(s for s in states if s["split"] and len(s["consts"]) == 2 and not any(f["k"] == "bits" for f in s["def"]))
    good, base_def, _ = materialise(world, sto, "base-first", {})
    name = MEMBERS[sto["consts"][0]["ck"]][0]
    good.forms = {"plain": type("NoOverride", (good.forms["plain"],), {name: getattr(base_def.forms["plain"], name)})}
    _, p_over, _ = check_state(world, good, sto)
    ctx.control("a plain subclass that shows the base class's value of an overridden member is flagged against cvals",
                any(p[0] == "plain" and p[1] == "members" for p in p_over))


def annotation_controls(ctx, world, states):
    """a dataclass form whose annotation means another format than the definition's must be flagged."""
    for text in (False, True):
        st = next(s for s in states if not s["split"] and len(s["def"]) == 1 and s["def"][0]["k"] == "arrayH-?"
                  and ann_key(s["def"][0])[:2] == ("tuple", "bool") and ann_key(s["def"][0])[3] == text and s["style"] == "positional")
        mixed = Definition(world, st["def"])
        mixed.forms["dataclass"] = Definition(world, st["def"], sabotage="elem-int").forms["dataclass"]
        _, p_ann, _ = check_state(world, mixed, st)
        ctx.control("a dataclass form that sends a sequence of bool%s as a sequence of int is flagged against dfmt"
                    % (" (annotation written as a string)" if text else ""),
                    any(p[0] == "dataclass" and p[1] == "formats" for p in p_ann))
    # bytes alone decide as well: the same class, with the format list it holds hidden from the observation
    st = next(s for s in states if not s["split"] and len(s["def"]) == 1 and s["def"][0]["k"] == "arrayH-?" and s["style"] == "positional"
              and len(s["fields"][0]) > 1 and ann_key(s["def"][0])[0] and ann_key(s["def"][0])[1] == "bool")
    blind = Definition(world, st["def"])
    blind.forms["dataclass"] = Definition(world, st["def"], sabotage="elem-int").forms["dataclass"]
    blind.formats = lambda cls: ((), ())
    _, p_blind, _ = check_state(world, blind, st)
    ctx.control("the same form is flagged by its bytes / decoded values when its format list is not looked at",
                any(p[0] == "dataclass" and p[1] in ("pack", "unpack", "reunpack") for p in p_blind))


def run(tier, seed, replay=None):
    setup_repo_path()
    ctx = Ctx(PID, tier, seed, "translation_validation")
    ctx.cov["rule"] = ("programs = distinct payload definitions (sequence of field kind x has-default x has-custom-rules) "
                       "enumerated by TLC on specs/PayloadDef.tla, plus the shipped VariablePayload classes; each is "
                       "materialised as plain / vp_compile'd / dataclass class and, per calling convention (positional, "
                       "keyword, defaults omitted), constructor result, bytes and decoded attributes are compared with the "
                       "values TLC computed from the plain definition.  distinct_nontrivial = distinct (definition, calling "
                       "convention) pairs; disagreements_checked = individual form-vs-definition comparisons.  Derived "
                       "definitions (a subclass adding 1-2 fields to a base definition; meaning = concatenated field list) are "
                       "materialised twice, with the base class used before the subclass exists and with the subclass used "
                       "first; every class is instantiated at least twice.  Class bodies also hold non-field members "
                       "(constants bare / ClassVar-annotated, helper method, message id bare / ClassVar / in the class header) "
                       "before, between and after the fields, in the base class and overriding in the subclass: exhaustive for "
                       "one member (and base+override pairs) over definitions of <= 2 fields, up to 3 members in the simulated "
                       "long definitions; each member's value on class / constructed / decoded instance is compared with cvals.  "
                       "The dataclass form writes for every field the annotation TLC chose (native type / format type variable / "
                       "payload class, alone or in list[], tuple[, ...], typing.List[], typing.Tuple[, ...], as object or as "
                       "string): all annotations that mean the field's format exhaustively for single-field definitions, "
                       "randomly per field in the simulated ones; the format list the class holds after use is compared with dfmt")
    ctx.assumptions += ["field names are generated identifiers (f1, f2_0 ...); names that collide with Python keywords or with "
                        "the attributes of the payload classes are outside the explored space",
                        "default values are immutable literals / instances of the field's type; dataclass default_factory "
                        "is outside the explored space",
                        "non-field members are class constants, helper methods and the message id; dataclasses.InitVar "
                        "pseudo-fields, init=False / kw_only fields have no plain counterpart and are outside the explored space",
                        "annotations outside the documented mapping (set[T], Optional, int/bool subclasses such as IntEnum, a "
                        "format type variable as the element of a sequence) have no stated meaning and are outside the explored space",
                        "the reference codec Wire.tla (checked by C02) supplies the bytes of each field"]
    world = World(seed)
    rng = random.Random(seed)
    cache = {}
    codec_notes = {}

    if replay:
        with open(replay, encoding="utf-8") as f:
            rec = json.load(f)
        rp = rec["replay"]
        if "state" in rp:
            st = canon(rp["state"])
            st["def"] = tuple(st["def"])
            st.setdefault("split", 0)
            for k_ in ("consts", "cvals", "bcvals", "dfmt"):
                st[k_] = tuple(st.get(k_, ()))
            n = run_states(ctx, world, [st], "replay", cache, {})
            ctx.sample({"replayed_definition": plain(st["def"])})
        else:                                   # recordings of the forms of a shipped class
            from ipv8.messaging.lazy_payload import VariablePayload, vp_compile
            old = rp["traces"] if "traces" in rp else [rp["trace"]]
            key = old[0]["fmt"]
            k = world.classes[key]
            body = {"format_list": list(k.format_list), "names": list(k.names)}
            forms = {"shipped": k, "plain": type(k.__name__ + "Plain", (VariablePayload,), dict(body)),
                     "recompiled": vp_compile(type(k.__name__ + "Recompiled", (VariablePayload,), dict(body)))}
            fresh = []
            for form, cls in forms.items():
                world.codec.extra_classes[key] = (cls, world.tables["msg"][key])
                fresh.append(record(world, "msg", key, canon(old[0]["val"]), old[0]["pad"]))
                del world.codec.extra_classes[key]
            n = len(fresh)
            if len({json.dumps(t["events"], sort_keys=True) for t in fresh}) != 1:
                ctx.violation("shipped:%s:forms-disagree" % key, "shipped / plain / recompiled forms of %s behave differently" % key,
                              {"traces": fresh})
            ctx.sample({"replayed_class": key})
            ctx.evaluated(n)
        ctx.cov.update({"programs": 1, "disagreements_checked": n})
        return ctx.finish()

    pool = concurrent.futures.ThreadPoolExecutor(max_workers=8)
    try:
        f_ex = pool.submit(tlc_exhaustive, "PayloadDef_n2.cfg" if tier == "quick" else "PayloadDef_n3.cfg")     # the longest job first
        # one -continue run with both pinned deviations switched on: each must be reported against its own invariant
        f_ctl = pool.submit(run_tlc, "PayloadDef.tla", "PayloadDef_ctl_default.cfg", coverage=False, workers=1, java_opts=JAVA_OPTS,
                            continue_=True)
        if tier == "quick":
            f_sim = [pool.submit(tlc_simulate, "PayloadDef_sim.cfg", 40, seed + 1),
                     pool.submit(tlc_simulate, "PayloadDef_simraw.cfg", 30, seed + 2)]
            per_class = 4
        else:
            f_sim = [pool.submit(tlc_simulate, "PayloadDef_sim.cfg", 1500, seed + 1),
                     pool.submit(tlc_simulate, "PayloadDef_simraw.cfg", 1000, seed + 2)]
            per_class = 60
        keys, traces = shipped_classes(ctx, world, rng, per_class)
        f_val = pool.submit(validate, traces, 8)
        base = next(t for t in traces if t["fmt"].startswith("dht.payload.Store") and len(t["events"]) == 3)
        f_tc = pool.submit(run_trace_controls, base)

        r, states = f_ex.result()
        n_der = len({(def_key(s_["def"]), s_["split"], const_key(s_["consts"])) for s_ in states if s_["split"]})
        cstates = [s_ for s_ in states if s_["consts"]]         # definitions whose class bodies hold non-field members
        n_add = len({(def_key(s_["def"]), s_["split"], const_key(s_["consts"])) for s_ in cstates})
        astates = [s_ for s_ in states if any(free_ann(f_) for f_ in s_["def"])]     # fields annotated otherwise than customary
        n_ann = len({def_key(s_["def"]) for s_ in astates})
        n_fld = r.distinct - len(states) - n_der - n_add - n_ann
        r.coverage = {"AddField": (n_fld, n_fld), "Derive": (n_der, n_der), "AddConst": (n_add, n_add), "Annotate": (n_ann, n_ann),
                      "Call": (len(states), len(states))}
        seen_ann = {(ann_key(f_)[0], ann_key(f_)[1], ann_key(f_)[3]) for s_ in states for f_ in s_["def"] if f_["k"] != "bits"}
        need_ann = {(c_, b_, s_) for c_ in CONTAINER for b_ in list(NATIVE) + ["payload"] for s_ in (False, True)
                    if not c_ or b_ in ("bool", "int", "float", "payload")}    # (sequences of the other types mean no registered format)
        need_ann |= {("", "format", False), ("", "format", True)}
        if need_ann - seen_ann or any(not s_["dfmt"] for s_ in astates):
            raise MachineryError("TLC did not enumerate the annotation language: missing %s" % sorted(need_ann - seen_ann))
        for s_ in astates[len(astates) // 2:][:1]:
            ctx.sample({"definition": [(f_["k"], f_["d"], f_["h"]) for f_ in s_["def"]], "annotations": [ann_text(f_) for f_ in s_["def"]],
                        "dataclass_formats_by_TLC": list(s_["dfmt"]), "call": s_["style"], "bytes_by_TLC": bytes(s_["pbytes"]).hex()})
        ctx.add_tlc("exhaustive", r)
        spec_index = {(def_key(s_["def"]), s_["style"]): s_ for s_ in states if not s_["split"] and not s_["consts"]}
        n_cmp = run_states(ctx, world, states, "exhaustive", cache, codec_notes, spec_index)
        n_defs_ex = len(cache)
        n_defs_members = sum(1 for k_ in cache if k_[3])
        if len(cstates) < 500 or not any(len(s_["consts"]) == 2 for s_ in cstates):
            raise MachineryError("TLC enumerated only %d definitions with non-field members" % len(cstates))
        for s_ in cstates[len(cstates) // 2:][:1]:
            ctx.sample({"definition": [(f_["k"], f_["d"], f_["h"]) for f_ in s_["def"]], "base_class_fields": s_["split"],
                        "members": [(MEMBERS[c["ck"]][0], c["sty"], c["pos"], c["sub"]) for c in s_["consts"]],
                        "member_values_by_TLC": plain(s_["cvals"]), "call": s_["style"], "bytes_by_TLC": bytes(s_["pbytes"]).hex()})
        r_ctl = f_ctl.result()
        reported = set(re.findall(r"Invariant (\S+) is violated", r_ctl.output))
        ctx.control("specification in which a text default is lost (pinned _compile_init) violates DefaultsUsed",
                    "DefaultsUsed" in reported)
        ctx.control("specification in which a ClassVar-annotated class constant is taken for one more field violates ConstsOffWire",
                    "ConstsOffWire" in reported)
        ctx.control("specification in which a sequence annotation takes bool for an int (element test by subclass) violates AnnotationsMean",
                    "AnnotationsMean" in reported)
        longest = 0
        for i, f in enumerate(f_sim):
            rs, sim_states = f.result()
            rs.coverage = {}
            ctx.add_tlc("simulate%d" % i, rs)
            n_cmp += run_states(ctx, world, sim_states, "simulate", cache, codec_notes, spec_index)
            longest = max([longest] + [len(s["def"]) for s in sim_states])
            if i == 0 and sim_states:
                s0 = max(sim_states, key=lambda s: len(s["def"]))
                ctx.sample({"simulated_definition": [(f_["k"], f_["d"], f_["h"]) for f_ in s0["def"]], "call": s0["style"],
                            "bytes_by_TLC": bytes(s0["pbytes"]).hex()})
        derived_states = [s_ for s_ in states if s_["split"]]
        if len(derived_states) < 50:
            raise MachineryError("TLC enumerated only %d derived definitions" % len(derived_states))
        for s in states[:2] + states[len(states) // 2:len(states) // 2 + 1] + derived_states[len(derived_states) // 3:][:1]:
            ctx.sample({"definition": [(f_["k"], f_["d"], f_["h"]) for f_ in s["def"]], "base_class_fields": s["split"], "call": s["style"],
                        "fields_by_TLC": plain(s["fields"]), "bytes_by_TLC": bytes(s["pbytes"]).hex()})
        if len(states) < 100 or longest < 8:
            raise MachineryError("TLC produced too few definitions (%d states, longest simulated %d)" % (len(states), longest))

        rejected, runs = f_val.result()
        for i, rr in enumerate(runs):
            rr.coverage = {}
            ctx.add_tlc("shipped%d" % i, rr)
        rejected_by_inst = {}
        for bad, inv, diff in rejected:
            rejected_by_inst.setdefault(bad["fmt"], []).append((bad["notes"].get("form"), inv, diff))
        # the three forms of a shipped class must also agree with each other byte for byte
        by_inst = {}
        for t in traces:
            by_inst.setdefault((t["fmt"], json.dumps(t["val"], sort_keys=True), t["pad"]), []).append(t)
        disagreeing = set()
        for (key, _, _), ts in by_inst.items():
            n_cmp += len(ts)
            if len({json.dumps(t["events"], sort_keys=True) for t in ts}) != 1:
                disagreeing.add(key)
                ctx.violation("shipped:%s:forms-disagree" % key,
                              "shipped / plain / recompiled forms of %s behave differently on the same instance: %s" % (
                                  key, {t["notes"]["form"]: [e.get("bytes", e.get("end")) for e in t["events"]][:1] for t in ts}),
                              {"traces": ts})
        for key, items in rejected_by_inst.items():
            if key not in disagreeing:       # all forms do the same, TLC rejects it: a codec matter (C02), noted
                codec_notes.setdefault(("shipped", key), "all forms of %s agree but Wire.tla rejects the recording: %s" % (key, items[0][1:]))
        ctx.traces(len(traces))
        ctx.evaluated(len(traces))
        good = [t for t in traces if not any(t is b for b, _, _ in rejected)]
        tc = settle_trace_controls(ctx, good, base, f_tc.result())
    finally:
        pool.shutdown(wait=True, cancel_futures=True)
    for name, fired in tc:
        ctx.control(name, fired)
    sabotage_control(ctx, world, states)
    member_controls(ctx, world, cstates)
    annotation_controls(ctx, world, astates)
    ctx.cov.update({"programs": len(cache) + len(keys), "disagreements_checked": n_cmp, "exhaustive": False})
    ctx.note("exhaustive_part", "all definitions with at most %d fields over the 13 kinds (defaults as a suffix, at most one "
             "field with custom rules) x calling conventions were enumerated completely; longer ones are drawn by TLC's "
             "simulation mode" % (2 if tier == "quick" else 3))
    if codec_notes:
        ctx.note("codec_level_disagreements_left_to_C02", list(codec_notes.values())[:12])
        print("NOTE C20: %d kind(s) of field whose bytes differ from the reference codec in every form alike "
              "(a codec matter, decided by C02; not a translation disagreement)" % len(codec_notes))
    ctx.note("definitions", {"exhaustive": n_defs_ex, "exhaustive_with_members": n_defs_members, "simulated": len(cache) - n_defs_ex, "longest_simulated": longest,
                             "derived_x_order": sum(1 for k_ in cache if k_[1]),
                             "with_non_field_members": sum(1 for k_ in cache if k_[3]),
                             "with_dataclass_form": sum(1 for d, _, _ in cache.values() if "dataclass" in d.forms or "dataclass" in d.errors),
                             "shipped_variable_payloads": len(keys), "shipped_instances_x_forms": len(traces)})
    return ctx.finish()
