"""C11 - an unloaded overlay is silent and holds no resources.

Part 1 (binding R): specs/TaskManager.tla is model checked and every transition of its state graph is executed on
        the real TaskManager on a single-stepped loop (harness/c11_tm.py).
Part 2: specs/Unload.tla (listener tables of the endpoint layers, task manager, request cache, outside sockets,
        unload sub-steps) is model checked: SilentAfterUnload / NoLateActivity hold for the repaired behaviour and are
        violated with each pinned deviation switched on (negative controls).
Part 3 (binding T): every shipped overlay class with default settings, on the plain and on the TunnelEndpoint wiring,
        runs a scripted protocol; unload() is requested at chosen events / virtual times, then late datagrams of every
        message id arrive and 2 h of virtual time pass. The event log is validated by TLC against UnloadTrace.tla."""
from __future__ import annotations

import json
import os
import random
import re
import shutil
import time
from concurrent.futures import ThreadPoolExecutor

from ..common import Ctx, setup_repo_path
from ..tlc import MachineryError, parse_value, run_tlc, scratch_dir

PID = "C11"
WIRINGS = ("plain", "tunnel")
ACTIVITY = {"Handler", "Send", "TaskStep", "CacheTimeout", "SockOpen", "SockIn"}
_RE_REJECT = re.compile(r'<<\s*"C11REJECT",\s*(\[.*?\])\s*>>', re.S)
UNLOAD_CFGS = {"Unload_mc.cfg": None, "Unload_pinned_wrapper.cfg": "SilentAfterUnload",
               "Unload_pinned_crypto.cfg": "SilentAfterUnload", "Unload_pinned_delay.cfg": "SilentAfterUnload"}
UNLOAD_ACTIONS = ("Handler", "Send", "Register", "TaskStep", "TaskEnd", "CacheAdd", "CacheTimeout", "CachePop",
                  "SockOpen", "SockClose", "SockIn", "UnloadStart", "U_Tunnels", "U_Cache", "U_Listener", "U_Tasks",
                  "U_Done")


# ---------------------------------------------------------------------------------------------------
# part 3: traces
# ---------------------------------------------------------------------------------------------------
def reason_of(ev, st):
    e = ev["e"]
    if e == "U_Tunnels":
        return "open-sockets-when-unload-returned"
    if e == "UnloadDone":
        if st["tasks"] or st["dying"]:
            return "live-tasks-when-unload-returned"
        return "unload-incomplete"
    if e == "Register" and ev["ok"]:
        return "task-accepted-after-shutdown"
    if e == "CacheAdd" and ev["ok"]:
        return "cache-accepted-after-shutdown"
    if st["phase"] == "unloaded" and e in ACTIVITY:
        return "%s-after-unload" % e
    return "%s-not-a-step-of-the-spec-in-phase-%s" % (e, st["phase"])


def tlc(*a, **k):
    """run_tlc, once more if the JVM was killed from outside (busy machine)"""
    for attempt in (1, 2, 3):
        try:
            return run_tlc(*a, **k)
        except MachineryError as e:
            if attempt == 3 or not re.search(r"rc=-?(143|137|15|9)\b", str(e)):
                raise
            time.sleep(2)
    raise MachineryError("unreachable")


def validate(traces, tag, ctx=None):
    """TLC validates a batch of event logs. -> (TlcResult, [(trace index, event index (0-based), spec state)])"""
    tmp = scratch_dir("c11t-")
    try:
        path = os.path.join(tmp, "traces.json")
        with open(path, "w", encoding="utf-8") as f:
            json.dump([{"wiring": t["wiring"], "kind": t["kind"], "events": t["events"]} for t in traces], f)
        r = tlc("UnloadTrace.tla", "UnloadTrace.cfg", env={"TRACE_FILE": path}, coverage=False, workers=4)
    finally:
        shutil.rmtree(tmp, ignore_errors=True)
    if not r.ok:
        raise MachineryError("UnloadTrace (%s): TLC reports %s - the trace specification itself is broken:\n%s"
                             % (tag, r.violated, r.output[-1500:]))
    rejects = []
    for m in _RE_REJECT.finditer(r.output):
        v = parse_value(m.group(1))
        rejects.append((v["tid"] - 1, v["l"] - 1, v))
    rejects.sort(key=lambda x: (x[0], x[1]))
    # every log must really have been walked: an accepted log contributes len+1 states, a rejected one the states up to
    # the stuck event plus the report state
    stuck = {ti: li for ti, li, _ in rejects}
    expect = sum((stuck[i] + 2) if i in stuck else (len(t["events"]) + 1) for i, t in enumerate(traces))
    if r.distinct != expect:
        raise MachineryError("UnloadTrace (%s): TLC visited %d states, the logs have %d - some log was not validated"
                             % (tag, r.distinct, expect))
    return r, rejects


def pick_ks(n, count, rng):
    """event indices at which unload is requested: first events, last events and a seeded spread in between"""
    if count is None or n <= count:
        return list(range(1, n + 1))
    ks = {1, n}
    step = n / float(count)
    for i in range(count):
        ks.add(min(n, max(1, int(i * step + rng.random() * step) + 1)))
    return sorted(ks)


def record(scen, wiring, ks, seed, keys):
    from .. import c11_scen as sc
    return [sc.run_once(scen, wiring, k, seed, keys) for k in ks]


def trace_part(ctx, tier, rng, keys, pool):
    from .. import c11_scen as sc
    per = 4 if tier == "quick" else 150
    deltas = (2, 8, 16) if tier == "quick" else (1, 2, 4, 8, 12, 16, 22, 30)
    tdeltas = (0.05, 0.9) if tier == "quick" else (0.01, 0.05, 0.3, 0.6, 0.9, 1.3, 1.8, 2.5)
    times = 1 if tier == "quick" else 8
    batches = []
    all_traces = []
    futures = []
    plan = []
    for scen in sc.SCENARIOS:
        for wiring in WIRINGS:
            ref = sc.run_once(scen, wiring, None, ctx.seed, keys)
            n = ref["script_events"]
            if n < 20:
                raise MachineryError("scenario %s/%s produced only %d events: script does not run" % (scen.name, wiring, n))
            ks = pick_ks(n, per, rng)
            # unload while an API coroutine of T (DHT store/find, store_peer, ...) is in flight
            ks = sorted(set(ks) | {m + d for m in ref["marks"] for d in deltas if m + d <= n})
            ts = [round(rng.uniform(0.0, 30.0), 3) for _ in range(times)]
            # ... and at virtual times after such a call (a crawl that waits for slow / silent nodes spans seconds but
            # only a few events)
            ts += sorted({round(mt + d, 3) for mt in ref["mark_times"] for d in tdeltas})
            traces = [ref] + record(scen, wiring, ks + ts, ctx.seed, keys)
            plan.append({"class": scen.name, "wiring": wiring, "script_events": n, "unload_points": len(traces),
                         "events": sum(len(t["events"]) for t in traces)})
            batches.append(traces)
            all_traces.extend(traces)
            if sum(len(b) for b in batches) >= 150:
                flat = [t for b in batches for t in b]
                futures.append((flat, pool.submit(validate, flat, "batch")))
                batches = []
    if batches:
        flat = [t for b in batches for t in b]
        futures.append((flat, pool.submit(validate, flat, "batch")))
    ctx.note("trace_plan", plan)
    nrej = 0
    groups = {}
    for bi, (flat, fut) in enumerate(futures):
        r, rejects = fut.result()
        ctx.add_tlc("trace%d" % bi, r)
        bad = set()
        for ti, li, st in rejects:
            t = flat[ti]
            bad.add(ti)
            nrej += 1
            ev = t["events"][li]
            reason = reason_of(ev, st)
            key = (reason, t["wiring"], t["kind"])
            g = groups.setdefault(key, {"classes": set(), "n": 0, "first": None})
            g["classes"].add(t["cls"])
            g["n"] += 1
            if g["first"] is None or len(t["events"]) < len(g["first"][0]["events"]):
                g["first"] = (t, li, st)
        for ti, t in enumerate(flat):
            if t["unload_error"]:
                ctx.violation("trace:unload-raised:%s:%s" % (t["wiring"], t["cls"]),
                              "%s.unload() raised %s (wiring %s, unload requested at %s)"
                              % (t["cls"], t["unload_error"], t["wiring"], t["k"]),
                              {"part": "trace", "cls": t["cls"], "wiring": t["wiring"], "k": t["k"], "seed": t["seed"]})
            if ti not in bad:
                ctx.traces(1)
                ctx.evaluated(len(t["events"]))
                ctx.nontrivial(("trace", t["cls"], t["wiring"], t["k"]))
    for (reason, wiring, kind), g in sorted(groups.items()):
        t, li, st = g["first"]
        ev = t["events"][li]
        lo = max(0, li - 6)
        ctxt = ["%d %s %s" % (i + 1, json.dumps(t["events"][i], sort_keys=True), t["notes"][i])
                for i in range(lo, min(len(t["events"]), li + 2))]
        ctx.violation("trace:%s:%s:%s" % (reason, wiring, kind),
                      "%s: %d recorded run(s) of %s on the %s wiring are not behaviours of Unload.tla; e.g. %s with "
                      "unload requested at %s: event %d %s (%s) is not possible in spec state phase=%s tasks=%s dying=%s "
                      "socks=%s" % (reason, g["n"], "/".join(sorted(g["classes"])), wiring, t["cls"], t["k"], li + 1,
                                    ev["e"], t["notes"][li], st["phase"], sorted(st["tasks"]), sorted(st["dying"]),
                                    sorted(st["socks"])),
                      {"part": "trace", "cls": t["cls"], "wiring": wiring, "k": t["k"], "seed": t["seed"],
                       "event_index": li + 1, "event": ev, "log_around": ctxt, "spec_state": st})
    kinds = {e["e"] for t in all_traces for e in t["events"]}
    missing = {"Handler", "Send", "Register", "TaskStep", "TaskEnd", "CacheAdd", "CacheTimeout", "CachePop", "SockOpen",
               "SockClose", "SockIn", "UnloadStart", "U_Tunnels", "U_Cache", "U_Listener", "U_Tasks", "UnloadDone"} - kinds
    if missing and not ctx.violations:
        raise MachineryError("recorded runs never produced the events %s: the scenarios are vacuous" % sorted(missing))
    ctx.note("traces", {"recorded": len(all_traces), "rejected": nrej, "event_kinds": sorted(kinds),
                        "events": sum(len(t["events"]) for t in all_traces)})
    if all_traces:
        ctx.sample({"class": all_traces[0]["cls"], "wiring": all_traces[0]["wiring"],
                    "first_events": all_traces[0]["events"][:6]})
    return all_traces


HAND_MADE = [{"e": "Register", "a": 1, "ok": True, "o": "ov"}, {"e": "Handler", "a": 246, "ok": True, "o": "ov"},
             {"e": "Send", "a": 0, "ok": True, "o": "ov"}, {"e": "CacheAdd", "a": 1, "ok": True, "o": "ov"},
             {"e": "UnloadStart", "a": 0, "ok": True, "o": "ov"}, {"e": "U_Cache", "a": 0, "ok": True, "o": "ov"},
             {"e": "U_Listener", "a": 0, "ok": True, "o": "ov"}, {"e": "U_Tasks", "a": 0, "ok": True, "o": "ov"},
             {"e": "TaskStep", "a": 1, "ok": True, "o": "ov"}, {"e": "TaskEnd", "a": 1, "ok": True, "o": "ov"},
             {"e": "UnloadDone", "a": 0, "ok": True, "o": "ov"}, {"e": "Register", "a": 2, "ok": False, "o": "ov"}]


def _variants(evs):
    done = max(i for i, e in enumerate(evs) if e["e"] == "UnloadDone")
    first_task = [e["a"] for e in evs if e["e"] == "TaskEnd"][0]
    act = {"a": 246, "ok": True, "o": "ov"}
    return {
        "handler runs after unload": evs[:done + 1] + [dict(act, e="Handler")] + evs[done + 1:],
        "packet is sent after unload": evs[:done + 1] + [dict(act, e="Send")] + evs[done + 1:],
        "task is accepted after unload": evs[:done + 1] + [{"e": "Register", "a": 999999, "ok": True, "o": "ov"}],
        "task is still alive when unload returns": [e for e in evs if not (e["e"] == "TaskEnd" and e["a"] == first_task)],
        "cache entry times out after unload": evs[:done + 1] + [{"e": "CacheTimeout", "a": 1, "ok": True, "o": "ov"}],
    }


def trace_controls(ctx, traces):
    """corrupted copies of accepted logs, each of which TLC must reject: of a hand-made well-formed log, and of the
    recorded reference log of a class with a request cache when TLC accepts that log as it is"""
    hand = {"wiring": "plain", "kind": "cache"}
    batch = [dict(hand, events=HAND_MADE)] + [dict(hand, events=v) for v in _variants(HAND_MADE).values()]
    names = list(_variants(HAND_MADE))
    base = [t for t in traces if t["kind"] == "cache" and t["k"] is None and t["wiring"] == "plain"
            and any(e["e"] == "TaskEnd" for e in t["events"])]
    if base:
        real = {"wiring": "plain", "kind": "cache"}
        batch += [dict(real, events=base[0]["events"])] + [dict(real, events=v)
                                                           for v in _variants(base[0]["events"]).values()]
    _r, rej = validate(batch, "ctl")
    rejected = {ti for ti, _li, _st in rej}
    if 0 in rejected:
        raise MachineryError("the well-formed control log is rejected: %s" % (rej[0],))
    n = len(names)
    for i, name in enumerate(names, start=1):
        ctx.control("hand-made log in which a " + name + " is rejected by TLC", i in rejected)
    if base and (n + 1) not in rejected:
        for i, name in enumerate(names, start=n + 2):
            ctx.control("recorded %s log changed so that a %s is rejected by TLC" % (base[0]["cls"], name),
                        i in rejected)


# ---------------------------------------------------------------------------------------------------
def run(tier, seed, replay=None):
    setup_repo_path()
    from ipv8.keyvault.crypto import default_eccrypto
    from .. import c11_tm
    ctx = Ctx(PID, tier, seed, "model_checking")
    ctx.cov["rule"] = ("TaskManager.tla: every transition TLC enumerates (2 names, register/replace/cancel/finish/"
                       "shutdown/loop iteration) is executed on the real TaskManager and the projected registry, task "
                       "states and refusal counters compared; Unload.tla model checked for 2 wirings x 3 overlay kinds; "
                       "recorded runs = 9 overlay classes x 2 endpoint wirings x unload requested at sampled (thorough: "
                       "dense) events and random virtual times, each followed by replayed captures, 256 forged message "
                       "ids, outside datagrams, late register_task/cache.add calls and 2 h virtual time; TLC validates "
                       "every event; non-trivial = distinct (class, wiring, unload point) logs and distinct graph walks")
    ctx.assumptions += ["asyncio's FIFO scheduling of ready callbacks (CPython 3.12) is what TaskManager.tla models",
                        "sends are observed on the simulated wire and outside transports; an overlay that would open real "
                        "sockets by other means than loop.create_datagram_endpoint is not observed",
                        "only task steps of tasks registered with the overlay, its request cache or its exit sockets are "
                        "attributed to the overlay"]
    rng = random.Random(seed)
    # node keys derived from the seed: DHT distances, hence the order of events, depend on them
    krng = random.Random(seed * 7919 + 11)
    keys = [default_eccrypto.key_from_private_bin(b"LibNaCLSK:" + krng.randbytes(64)) for _ in range(5)]

    if replay:
        return run_replay(ctx, replay, keys)

    with ThreadPoolExecutor(max_workers=6) as pool:
        # spec level: Unload.tla for the repaired behaviour and with each pinned deviation (negative controls)
        mc = {cfg: pool.submit(tlc, "Unload.tla", cfg, workers=2) for cfg in UNLOAD_CFGS}
        tm_pinned = pool.submit(tlc, "TaskManager.tla", "TaskManager_pinned.cfg", workers=2, coverage=False)
        big = None
        if tier == "thorough":
            big = pool.submit(tlc, "TaskManager.tla", "TaskManager_o6t5.cfg", coverage=False, timeout=3000)

        t0 = time.monotonic()
        tm_cfg = "TaskManager_o4.cfg" if tier == "quick" else "TaskManager_o5.cfg"
        tm_graph = pool.submit(c11_tm.load_graph, tm_cfg)
        tm_ctl = pool.submit(c11_tm.load_graph, "TaskManager_o3.cfg")
        traces = trace_part(ctx, tier, rng, keys, pool)
        t1 = time.monotonic()
        trace_controls(ctx, traces)
        t2 = time.monotonic()

        for cfg, want in UNLOAD_CFGS.items():
            r = mc[cfg].result()
            if want is None:
                if not r.ok:
                    raise MachineryError("Unload.tla (repaired behaviour): TLC reports %s" % r.violated)
                for a in UNLOAD_ACTIONS:
                    if r.coverage.get(a, (0, 0))[1] == 0:
                        raise MachineryError("Unload.tla: action %s never taken (vacuous)" % a)
                ctx.add_tlc("unload_mc", r)
            else:
                ctx.control("Unload.tla with the pinned deviation of %s violates %s" % (cfg[14:-4], want),
                            r.violated == want)
        r = tm_pinned.result()
        ctx.control("TaskManager.tla with the pinned pop-by-name done callback violates RegistryComplete",
                    r.violated in ("RegistryComplete", "NoDuplicateActiveName", "NothingAfterShutdown"))

        # binding R for the task manager
        c11_tm.replay(ctx, tm_cfg, "tm_" + tm_cfg[12:-4], max_ops=None,
                      loaded=tm_graph.result())
        ctl = tm_ctl.result()
        ctx.control("replay in which replace_task is executed as cancel+register diverges from the spec",
                    c11_tm.replay(ctx, "TaskManager_o3.cfg", "ctl", corrupt="replace-as-register", loaded=ctl))
        ctx.control("replay in which cancel_pending_task is skipped diverges from the spec",
                    c11_tm.replay(ctx, "TaskManager_o3.cfg", "ctl", corrupt="skip-cancel", loaded=ctl))
        if big is not None:
            rb = big.result()
            if not rb.ok:
                raise MachineryError("TaskManager_o6t5: TLC reports %s on the specification" % rb.violated)
            ctx.add_tlc("tm_o6t5", rb)
        ctx.note("wall_split_s", {"recording_and_trace_validation": round(t1 - t0, 1), "trace_controls": round(t2 - t1, 1),
                                  "model_checking_and_taskmanager_replay": round(time.monotonic() - t2, 1)})
    ctx.cov["exhaustive"] = True
    return ctx.finish()


def run_replay(ctx, path, keys):
    from .. import c11_scen as sc
    from .. import c11_tm
    with open(path, encoding="utf-8") as f:
        rp = json.load(f)["replay"]
    if rp.get("part") == "taskmanager":
        c11_tm.replay(ctx, rp["cfg"], "replay")
        return ctx.finish()
    scen = [s for s in sc.SCENARIOS if s.name == rp["cls"]][0]
    k = rp["k"]
    t = sc.run_once(scen, rp["wiring"], k, int(rp.get("seed", 0)), keys)
    r, rejects = validate([t], "replay")
    ctx.add_tlc("replay", r)
    for _ti, li, st in rejects:
        ev = t["events"][li]
        ctx.violation("trace:%s:%s:%s" % (reason_of(ev, st), t["wiring"], t["kind"]),
                      "replay: %s on %s wiring, unload at %s: event %d %s (%s) rejected in phase %s"
                      % (t["cls"], t["wiring"], k, li + 1, ev["e"], t["notes"][li], st["phase"]),
                      {"part": "trace", "cls": t["cls"], "wiring": t["wiring"], "k": k, "seed": t["seed"]})
    if not rejects:
        ctx.traces(1)
        ctx.evaluated(len(t["events"]))
    return ctx.finish()
