"""C11 - an unloaded overlay is silent and holds no resources.

Part 1 (binding R): specs/TaskManager.tla is model checked and every transition of its state graph is executed on
        the real TaskManager on a single-stepped loop (harness/c11_tm.py).
Part 2: specs/Unload.tla (listener tables of the endpoint layers, task manager, request cache, outside sockets,
        unload sub-steps) is model checked: SilentAfterUnload / NoLateActivity hold for the repaired behaviour and are
        violated with each pinned deviation switched on (negative controls).
Part 3 (binding T): every shipped overlay class with default settings, on the plain and on the TunnelEndpoint wiring,
        runs a scripted protocol; unload() is requested at chosen events / virtual times, then late datagrams of every
        message id arrive and 2 h of virtual time pass. The event log is validated by TLC against UnloadTrace.tla.
        Two scenario families put the overlay into a state with history before unload is requested: bootstrappers
        whose initialize() is in flight / whose broadcast socket is open (unload at every event after bootstrap()),
        and exit sockets whose delayed removal is already scheduled (unload inside remove_tunnel_delay).
        A third family runs the acquisition of the outside sockets in an environment that is slow and refuses sockets
        (no IPv6 on the host, no descriptor left, the opening job cancelled by the removal of its exit socket):
        SockTry / SockOpen / SockFail of Unload.tla, unload at every event while sockets are being opened."""
from __future__ import annotations

import json
import os
import random
import re
import shutil
import time
from concurrent.futures import ThreadPoolExecutor

from ..common import Ctx, setup_repo_path
from ..tlc import MachineryError, parse_value, run_tlc, scratch_dir

PID = "C11"
WIRINGS = ("plain", "tunnel")
ACTIVITY = {"Handler", "Send", "TaskStep", "CacheTimeout", "SockTry", "SockOpen", "SockIn", "BootOpen", "BootIn"}
ACQUISITION = {"SockTry", "SockOpen", "SockFail"}
_RE_REJECT = re.compile(r'<<\s*"C11REJECT",\s*(\[.*?\])\s*>>', re.S)
UNLOAD_CFGS = {"Unload_mc.cfg": None, "Unload_pinned_wrapper.cfg": "SilentAfterUnload",
               "Unload_pinned_crypto.cfg": "SilentAfterUnload", "Unload_pinned_delay.cfg": "SilentAfterUnload",
               "Unload_ctl_detached.cfg": "SilentAfterUnload", "Unload_ctl_stacked.cfg": "SilentAfterUnload",
               "Unload_ctl_unstored.cfg": "SilentAfterUnload", "Unload_ctl_orphan.cfg": "NoOrphanSocket"}
UNLOAD_CTL_NAMES = {"Unload_ctl_detached.cfg": "a bootstrapper initialisation that its task does not await",
                    "Unload_ctl_stacked.cfg": "an unload that leaves exit sockets with a pending removal to that removal",
                    "Unload_ctl_unstored.cfg": "an exit socket that records its transports only when its whole opening job "
                                               "has succeeded (unload reached)",
                    "Unload_ctl_orphan.cfg": "an exit socket that records its transports only when its whole opening job "
                                             "has succeeded (refused / cancelled attempt)"}
UNLOAD_ACTIONS = ("Handler", "Send", "Register", "TaskStep", "TaskEnd", "CacheAdd", "CacheTimeout", "CachePop",
                  "SockTry", "SockOpen", "SockFail", "SockClose", "SockIn", "RemoveSched", "BootInit", "BootOpen", "BootEnd", "BootClose",
                  "BootIn", "UnloadStart", "U_Tunnels", "U_Cache", "U_Listener", "U_Tasks", "U_Boot", "U_Done")
EVENT_KINDS = {"Handler", "Send", "Register", "TaskStep", "TaskEnd", "CacheAdd", "CacheTimeout", "CachePop", "SockOpen",
               "SockTry", "SockFail", "SockClose", "SockIn", "RmSched", "BootInit", "BootOpen", "BootEnd", "BootClose", "BootIn", "UnloadStart",
               "U_Tunnels", "U_Cache", "U_Listener", "U_Tasks", "U_Boot", "UnloadDone"}


# ---------------------------------------------------------------------------------------------------
# part 3: traces
# ---------------------------------------------------------------------------------------------------
def reason_of(ev, st):
    e = ev["e"]
    if e == "U_Tunnels":
        return "open-sockets-when-unload-returned"
    if e == "U_Boot":
        return "open-bootstrap-sockets-when-unload-returned"
    if e == "BootOpen" and ev.get("t") in st.get("bdying", ()):
        return "socket-opened-by-a-cancelled-initialisation"
    if e == "TaskEnd" and any(p[1] == ev["a"] for p in st.get("held", ())):
        return "initialisation-outlives-the-task-that-started-it"
    if e == "TaskEnd" and any(p[0] == ev["a"] for p in st.get("trying", ())):
        return "socket-open-attempt-outlives-the-task-that-started-it"
    if e == "SockTry" and st["phase"] != "unloaded":
        return "socket-asked-for-outside-a-live-task-of-an-exit-socket"
    if e == "SockOpen" and st["phase"] != "unloaded":
        if not any(p[0] == ev.get("t") for p in st.get("trying", ())):
            return "socket-opened-without-an-attempt-in-flight"
        return "socket-handed-to-a-cancelled-or-ended-job"
    if e == "UnloadDone":
        if st["tasks"] or st["dying"]:
            return "live-tasks-when-unload-returned"
        return "unload-incomplete"
    if e == "Register" and ev["ok"]:
        return "task-accepted-after-shutdown"
    if e == "CacheAdd" and ev["ok"]:
        return "cache-accepted-after-shutdown"
    if st["phase"] == "unloaded" and e in ACTIVITY:
        return "%s-after-unload" % e
    return "%s-not-a-step-of-the-spec-in-phase-%s" % (e, st["phase"])


LIGHT_JVM = ("-XX:TieredStopAtLevel=1", "-XX:ParallelGCThreads=2")   # many short runs side by side: less JIT / GC threads
JVM = {"opts": ()}                                                   # set by run(): LIGHT_JVM in the quick tier


def tlc(*a, **k):
    """run_tlc, once more if the JVM was killed from outside (busy machine)"""
    if k.get("timeout", 0) < 1000:
        k.setdefault("java_opts", JVM["opts"])
    for attempt in (1, 2, 3):
        try:
            return run_tlc(*a, **k)
        except MachineryError as e:
            if attempt == 3 or not re.search(r"rc=-?(143|137|15|9)\b", str(e)):
                raise
            time.sleep(2)
    raise MachineryError("unreachable")


def validate(traces, tag, ctx=None):
    """TLC validates a batch of event logs. -> (TlcResult, [(trace index, event index (0-based), spec state)])"""
    tmp = scratch_dir("c11t-")
    try:
        path = os.path.join(tmp, "traces.json")
        with open(path, "w", encoding="utf-8") as f:
            json.dump([{"wiring": t["wiring"], "kind": t["kind"], "events": t["events"]} for t in traces], f)
        r = tlc("UnloadTrace.tla", "UnloadTrace.cfg", env={"TRACE_FILE": path}, coverage=False, workers=4)
    finally:
        shutil.rmtree(tmp, ignore_errors=True)
    if not r.ok:
        raise MachineryError("UnloadTrace (%s): TLC reports %s - the trace specification itself is broken:\n%s"
                             % (tag, r.violated, r.output[-1500:]))
    rejects = []
    for m in _RE_REJECT.finditer(r.output):
        v = parse_value(m.group(1))
        rejects.append((v["tid"] - 1, v["l"] - 1, v))
    rejects.sort(key=lambda x: (x[0], x[1]))
    # every log must really have been walked: an accepted log contributes len+1 states, a rejected one the states up to
    # the stuck event plus the report state
    stuck = {ti: li for ti, li, _ in rejects}
    expect = sum((stuck[i] + 2) if i in stuck else (len(t["events"]) + 1) for i, t in enumerate(traces))
    if r.distinct != expect:
        raise MachineryError("UnloadTrace (%s): TLC visited %d states, the logs have %d - some log was not validated"
                             % (tag, r.distinct, expect))
    return r, rejects


def pick_ks(n, count, rng):
    """event indices at which unload is requested: first events, last events and a seeded spread in between"""
    if count is None or n <= count:
        return list(range(1, n + 1))
    ks = {1, n}
    step = n / float(count)
    for i in range(count):
        ks.add(min(n, max(1, int(i * step + rng.random() * step) + 1)))
    return sorted(ks)


def record(scen, wiring, ks, seed, keys):
    from .. import c11_scen as sc
    return [sc.run_once(scen, wiring, k, seed, keys) for k in ks]


def _late_activity(t):
    """kinds of activity events a log contains after unload() returned (for the description of a rejected log)"""
    done = [i for i, e in enumerate(t["events"]) if e["e"] == "UnloadDone"]
    return sorted({e["e"] for e in t["events"][done[0] + 1:] if e["e"] in ACTIVITY}) if done else []


def trace_part(ctx, tier, rng, keys, pool, after_recording=None):
    from .. import c11_scen as sc
    per = 4 if tier == "quick" else 150
    deltas = (2, 8, 16) if tier == "quick" else (1, 2, 4, 8, 12, 16, 22, 30)
    tdeltas = (0.05, 0.9) if tier == "quick" else (0.01, 0.05, 0.3, 0.6, 0.9, 1.3, 1.8, 2.5)
    times = 1 if tier == "quick" else 8
    batches = []
    all_traces = []
    futures = []
    plan = []
    t_start = time.monotonic()
    for scen in sc.SCENARIOS:
        for wiring in WIRINGS:
            ref = sc.run_once(scen, wiring, None, ctx.seed, keys)
            n = ref["script_events"]
            if n < 20:
                raise MachineryError("scenario %s/%s produced only %d events: script does not run" % (scen.name, wiring, n))
            ks = pick_ks(n, per, rng)
            # unload while an API coroutine of T (DHT store/find, store_peer, ...) is in flight
            ks = sorted(set(ks) | {m + d for m in ref["marks"] for d in tuple(deltas) + tuple(scen.dense)
                                   if 1 <= m + d <= n})
            # ... at every step of the acquisition of an outside socket (asked for / handed out / refused or abandoned)
            ks = sorted(set(ks) | {i + 1 + d for i, e in enumerate(ref["events"][:n]) if e["e"] in ACQUISITION
                                   for d in ((0,) if tier == "quick" else (0, 1, 2)) if i + 1 + d <= n})
            ts = [round(rng.uniform(0.0, 30.0), 3) for _ in range(times)]
            # ... and at virtual times after such a call (a crawl that waits for slow / silent nodes spans seconds but
            # only a few events)
            ts += sorted({round(mt + d, 3) for mt in ref["mark_times"] for d in tuple(tdeltas) + tuple(scen.dense_times)})
            traces = [ref] + record(scen, wiring, ks + ts, ctx.seed, keys)
            plan.append({"class": scen.name, "wiring": wiring, "script_events": n, "unload_points": len(traces),
                         "events": sum(len(t["events"]) for t in traces)})
            batches.append(traces)
            all_traces.extend(traces)
            if sum(len(b) for b in batches) >= 150:
                flat = [t for b in batches for t in b]
                futures.append((flat, pool.submit(validate, flat, "batch")))
                batches = []
    if batches:
        flat = [t for b in batches for t in b]
        futures.append((flat, pool.submit(validate, flat, "batch")))
    ctx.note("trace_plan", plan)
    t_rec = time.monotonic()
    if after_recording is not None:
        after_recording()
    nrej = 0
    groups = {}
    for bi, (flat, fut) in enumerate(futures):
        r, rejects = fut.result()
        ctx.add_tlc("trace%d" % bi, r)
        bad = set()
        for ti, li, st in rejects:
            t = flat[ti]
            bad.add(ti)
            nrej += 1
            ev = t["events"][li]
            reason = reason_of(ev, st)
            key = (reason, t["wiring"], t["kind"])
            g = groups.setdefault(key, {"classes": set(), "n": 0, "first": None})
            g["classes"].add(t["cls"])
            g["n"] += 1
            # example: a log that also shows what follows after unload() returned, the shortest of those
            rank = (not _late_activity(t), len(t["events"]))
            if g["first"] is None or rank < g["rank"]:
                g["first"], g["rank"] = (t, li, st), rank
        for ti, t in enumerate(flat):
            if t["unload_error"]:
                ctx.violation("trace:unload-raised:%s:%s" % (t["wiring"], t["cls"]),
                              "%s.unload() raised %s (wiring %s, unload requested at %s)"
                              % (t["cls"], t["unload_error"], t["wiring"], t["k"]),
                              {"part": "trace", "cls": t["cls"], "wiring": t["wiring"], "k": t["k"], "seed": t["seed"]})
            if ti not in bad:
                ctx.traces(1)
                ctx.evaluated(len(t["events"]))
                ctx.nontrivial(("trace", t["cls"], t["wiring"], t["k"]))
    for (reason, wiring, kind), g in sorted(groups.items()):
        t, li, st = g["first"]
        ev = t["events"][li]
        lo = max(0, li - 6)
        ctxt = ["%d %s %s" % (i + 1, json.dumps(t["events"][i], sort_keys=True), t["notes"][i])
                for i in range(lo, min(len(t["events"]), li + 2))]
        late = _late_activity(t)
        ctx.violation("trace:%s:%s:%s" % (reason, wiring, kind),
                      "%s: %d recorded run(s) of %s on the %s wiring are not behaviours of Unload.tla; e.g. %s with "
                      "unload requested at %s: event %d %s (%s) is not possible in spec state phase=%s tasks=%s dying=%s "
                      "socks=%s initialisations=%s bootstrap-socks=%s pending-removals=%s%s"
                      % (reason, g["n"], "/".join(sorted(g["classes"])), wiring, t["cls"], t["k"], li + 1,
                         ev["e"], t["notes"][li], st["phase"], sorted(st["tasks"]), sorted(st["dying"]),
                         sorted(st["socks"]), sorted(st.get("initing", ())), sorted(st.get("bsocks", ())),
                         sorted(st.get("rmPending", ())),
                         ("; the same log goes on with %s after unload() returned" % "/".join(late)) if late else ""),
                      {"part": "trace", "cls": t["cls"], "wiring": wiring, "k": t["k"], "seed": t["seed"],
                       "event_index": li + 1, "event": ev, "log_around": ctxt, "spec_state": st})
    ctx.note("trace_wall_s", {"recording": round(t_rec - t_start, 1),
                              "waiting_for_tlc": round(time.monotonic() - t_rec, 1)})
    kinds = {e["e"] for t in all_traces for e in t["events"]}
    missing = EVENT_KINDS - kinds
    if missing and not ctx.violations:
        raise MachineryError("recorded runs never produced the events %s: the scenarios are vacuous" % sorted(missing))
    hist = history_cover(all_traces)
    ctx.note("unload_with_history", hist)
    lacking = [k for k, v in hist.items() if v == 0]
    if lacking and not ctx.violations:
        raise MachineryError("no recorded run requested unload in the situations %s: the history scenarios are vacuous"
                             % lacking)
    ctx.note("traces", {"recorded": len(all_traces), "rejected": nrej, "event_kinds": sorted(kinds),
                        "events": sum(len(t["events"]) for t in all_traces)})
    if all_traces:
        ctx.sample({"class": all_traces[0]["cls"], "wiring": all_traces[0]["wiring"],
                    "first_events": all_traces[0]["events"][:6]})
    return all_traces


def history_cover(traces):
    """in how many recorded runs unload() was requested while ... (what the history scenarios are there for)"""
    out = {"initialisation_in_flight": 0, "bootstrap_socket_open": 0, "exit_socket_removal_pending": 0,
           "every_open_exit_socket_has_a_removal_pending": 0, "socket_open_attempt_in_flight": 0,
           "socket_of_a_refused_opening_job_open": 0}
    for t in traces:
        jobs, bs, socks, pend = set(), set(), set(), set()
        tries, opened_by, refused = {}, {}, set()
        for e in t["events"]:
            k, a = e["e"], e["a"]
            if k == "SockTry":
                tries[a] = tries.get(a, 0) + 1
            elif k == "SockFail":
                tries[a] = tries.get(a, 0) - 1
                refused.add(a)
            elif k == "SockOpen":
                tries[e.get("t")] = tries.get(e.get("t"), 0) - 1
                opened_by[a] = e.get("t")
            if k == "BootInit":
                jobs.add(a)
            elif k == "BootEnd":
                jobs.discard(a)
            elif k == "BootOpen":
                bs.add(a)
            elif k == "BootClose":
                bs.discard(a)
            elif k == "SockOpen":
                socks.add(a)
            elif k == "SockClose":
                socks.discard(a)
                pend.discard(a)
            elif k == "RmSched":
                pend.add(a)
            elif k == "UnloadStart":
                out["initialisation_in_flight"] += bool(jobs)
                out["bootstrap_socket_open"] += bool(bs)
                out["exit_socket_removal_pending"] += bool(pend)
                out["every_open_exit_socket_has_a_removal_pending"] += bool(socks) and socks <= pend
                out["socket_open_attempt_in_flight"] += any(v > 0 for v in tries.values())
                out["socket_of_a_refused_opening_job_open"] += any(opened_by.get(x) in refused for x in socks)
                break
    return out


HAND_MADE = [{"e": "Register", "a": 1, "ok": True, "o": "ov"}, {"e": "Handler", "a": 246, "ok": True, "o": "ov"},
             {"e": "Send", "a": 0, "ok": True, "o": "ov"}, {"e": "CacheAdd", "a": 1, "ok": True, "o": "ov"},
             {"e": "UnloadStart", "a": 0, "ok": True, "o": "ov"}, {"e": "U_Cache", "a": 0, "ok": True, "o": "ov"},
             {"e": "U_Listener", "a": 0, "ok": True, "o": "ov"}, {"e": "U_Tasks", "a": 0, "ok": True, "o": "ov"},
             {"e": "TaskStep", "a": 1, "ok": True, "o": "ov"}, {"e": "TaskEnd", "a": 1, "ok": True, "o": "ov"},
             {"e": "U_Boot", "a": 0, "ok": True, "o": "ov", "s": []},
             {"e": "UnloadDone", "a": 0, "ok": True, "o": "ov"}, {"e": "Register", "a": 2, "ok": False, "o": "ov"}]


def _ev(e, a=0, **extra):
    return dict({"e": e, "a": a, "ok": True, "o": "ov"}, **extra)


# a tunnel overlay with a bootstrapper: bootstrap(), the socket opens, a beacon arrives, an exit socket opens, its removal
# is scheduled, unload
HAND_HISTORY = [_ev("Register", 1), _ev("TaskStep", 1), _ev("BootInit", 1, t=1), _ev("BootOpen", 1, t=1), _ev("Send", 2),
                _ev("BootEnd", 1), _ev("TaskStep", 1), _ev("TaskEnd", 1), _ev("BootIn", 1), _ev("Send"),
                _ev("Handler", 1), _ev("Register", 2, o="sock"), _ev("TaskStep", 2), _ev("SockTry", 2),
                _ev("SockOpen", 1, t=2), _ev("TaskEnd", 2), _ev("SockIn", 1), _ev("RmSched", 1),
                _ev("UnloadStart"), _ev("U_Cache"), _ev("U_Listener"), _ev("RmSched", 1), _ev("SockClose", 1),
                _ev("BootClose", 1), _ev("U_Tasks"), _ev("U_Boot", s=[]), _ev("U_Tunnels", s=[]), _ev("UnloadDone")]


# an exit node on a host without IPv6: the opening job of an exit socket gets its IPv4 socket, the IPv6 one is refused;
# the opening job of a second exit socket is cancelled (its exit socket is removed) while its first attempt is in flight
HAND_OPEN = [_ev("Handler", 1), _ev("Register", 1, o="sock"), _ev("TaskStep", 1), _ev("SockTry", 1), _ev("TaskStep", 1),
             _ev("SockOpen", 1, t=1), _ev("SockTry", 1), _ev("SockFail", 1), _ev("TaskStep", 1), _ev("TaskEnd", 1),
             _ev("Send", 1), _ev("SockIn", 1), _ev("Send"),
             _ev("Handler", 1), _ev("Register", 2, o="sock"), _ev("TaskStep", 2), _ev("SockTry", 2), _ev("SockFail", 2),
             _ev("TaskStep", 2), _ev("TaskEnd", 2),
             _ev("UnloadStart"), _ev("U_Listener"), _ev("SockClose", 1), _ev("U_Cache"), _ev("U_Tasks"),
             _ev("U_Boot", s=[]), _ev("U_Tunnels", s=[]), _ev("UnloadDone")]


def _open_variants(evs):
    """corruptions of a log in which outside sockets are acquired with refused / cancelled attempts (hand-made or
    recorded), each to be rejected"""
    done = max(i for i, x in enumerate(evs) if x["e"] == "UnloadDone")
    out = {}
    opener = {x["a"]: x["t"] for x in evs if x["e"] == "SockOpen"}
    refused = [x["a"] for x in evs if x["e"] == "SockFail"]
    partial = [s for s, t in opener.items() if t in refused]
    if partial:
        s = partial[0]
        out["socket of an opening job with a refused attempt is still open when unload returns"] = \
            [dict(x, s=[s]) if x["e"] == "U_Tunnels" else x for x in evs if not (x["e"] == "SockClose" and x["a"] == s)]
        out["datagram on the socket of an opening job with a refused attempt is handled after unload"] = \
            evs[:done + 1] + [_ev("SockIn", s)]
    tries = [i for i, x in enumerate(evs) if x["e"] == "SockTry"]
    if tries:
        i = tries[0]
        t = evs[i]["a"]
        out["task ends while a socket open attempt it made is in flight"] = \
            evs[:i + 1] + [_ev("TaskEnd", t)] + [x for x in evs[i + 1:]
                                                 if not (x["e"] in ("TaskStep", "TaskEnd") and x["a"] == t)]
        out["socket is opened that no task asked for"] = evs[:i] + evs[i + 1:]
        if not any(x["e"] == "UnloadStart" for x in evs[:i + 1]):
            # unload cancels the job while its attempt is in flight - and the attempt hands out a socket all the same
            out["socket is handed to an opening job that was cancelled"] = \
                evs[:i + 1] + [_ev("UnloadStart"), _ev("U_Tasks"), _ev("SockOpen", 999, t=t)]
    return out


def _history_variants(evs):
    """corruptions of a log with bootstrap / pending-removal history (hand-made or recorded), each to be rejected"""
    def drop_last(names, seq):
        last = {max(i for i, x in enumerate(seq) if x["e"] == n) for n in names if any(x["e"] == n for x in seq)}
        return [x for i, x in enumerate(seq) if i not in last]

    def with_s(seq, name, s):
        return [dict(x, s=s) if x["e"] == name else x for x in seq]
    done = max(i for i, x in enumerate(evs) if x["e"] == "UnloadDone")
    out = {}
    closes = [x["a"] for x in evs if x["e"] == "SockClose"]
    if closes:
        out["exit socket whose removal was pending is still open when unload returns"] = \
            with_s(drop_last(["SockClose"], evs), "U_Tunnels", [closes[-1]])
    bcloses = [x["a"] for x in evs if x["e"] == "BootClose"]
    if bcloses:
        out["bootstrap socket is still open when unload returns"] = \
            with_s(drop_last(["BootClose"], evs), "U_Boot", [bcloses[-1]])
        out["datagram on a bootstrap socket is handled after unload"] = evs[:done + 1] + [_ev("BootIn", bcloses[-1])]
    inits = [i for i, x in enumerate(evs) if x["e"] == "BootInit"]
    if inits:
        i = inits[0]
        holder = evs[i]["t"]
        # the task that called initialize() ends right away (initialisation left running in the background)
        out["task ends while the initialisation it started is in flight"] = \
            evs[:i + 1] + [_ev("TaskEnd", holder)] + [x for x in evs[i + 1:]
                                                      if not (x["e"] in ("TaskStep", "TaskEnd") and x["a"] == holder)]
        # the socket of that initialisation appears only after unload() returned
        opens = [j for j, x in enumerate(evs) if x["e"] == "BootOpen" and x["t"] == evs[i]["a"]]
        if opens:
            sid = evs[opens[0]]["a"]
            rest = [x for j, x in enumerate(evs[:done + 1])
                    if not (x["e"] in ("BootOpen", "BootClose", "BootIn") and x["a"] == sid)
                    and not (x["e"] == "BootEnd" and x["a"] == evs[i]["a"]) and not (x["e"] == "Send" and x["a"] == 2)]
            out["bootstrap socket is opened after unload"] = rest + [dict(evs[opens[0]])]
    return out


def _variants(evs):
    done = max(i for i, e in enumerate(evs) if e["e"] == "UnloadDone")
    first_task = [e["a"] for e in evs if e["e"] == "TaskEnd"][0]
    act = {"a": 246, "ok": True, "o": "ov"}
    return {
        "handler runs after unload": evs[:done + 1] + [dict(act, e="Handler")] + evs[done + 1:],
        "packet is sent after unload": evs[:done + 1] + [dict(act, e="Send")] + evs[done + 1:],
        "task is accepted after unload": evs[:done + 1] + [{"e": "Register", "a": 999999, "ok": True, "o": "ov"}],
        "task is still alive when unload returns": [e for e in evs if not (e["e"] == "TaskEnd" and e["a"] == first_task)],
        "cache entry times out after unload": evs[:done + 1] + [{"e": "CacheTimeout", "a": 1, "ok": True, "o": "ov"}],
    }


def trace_controls(ctx, traces):
    """corrupted copies of accepted logs, each of which TLC must reject: of hand-made well-formed logs, and of recorded
    logs (reference log of a class with a request cache; logs of the history scenarios) when TLC accepts those as they
    are"""
    cases = []            # (group, description or None for the unchanged log, trace)

    def group(label, meta, evs, variants):
        cases.append((label, None, dict(meta, events=evs)))
        for name, v in variants.items():
            cases.append((label, name, dict(meta, events=v)))

    hand = {"wiring": "plain", "kind": "cache"}
    group("hand-made log", hand, HAND_MADE, _variants(HAND_MADE))
    group("hand-made log with history", {"wiring": "plain", "kind": "tunnel"}, HAND_HISTORY,
          _history_variants(HAND_HISTORY))
    group("hand-made log with refused socket", {"wiring": "plain", "kind": "tunnel"}, HAND_OPEN, _open_variants(HAND_OPEN))
    refd = [t for t in traces if t["wiring"] == "plain" and history_cover([t])["socket_of_a_refused_opening_job_open"]]
    if refd:
        group("recorded %s log (unload at %s)" % (refd[0]["cls"], refd[0]["k"]), {"wiring": "plain", "kind": "tunnel"},
              refd[0]["events"], _open_variants(refd[0]["events"]))
    base = [t for t in traces if t["kind"] == "cache" and t["k"] is None and t["wiring"] == "plain"
            and any(e["e"] == "TaskEnd" for e in t["events"])]
    if base:
        group("recorded %s log" % base[0]["cls"], {"wiring": "plain", "kind": "cache"}, base[0]["events"],
              _variants(base[0]["events"]))
    boot = [t for t in traces if t["k"] is None and t["wiring"] == "plain"
            and any(e["e"] == "BootOpen" for e in t["events"])]
    if boot:
        group("recorded %s log" % boot[0]["cls"], {"wiring": "plain", "kind": boot[0]["kind"]}, boot[0]["events"],
              _history_variants(boot[0]["events"]))
    pend = [t for t in traces if t["wiring"] == "plain" and history_cover([t])["every_open_exit_socket_has_a_removal_pending"]]
    if pend:
        group("recorded %s log (unload at %s)" % (pend[0]["cls"], pend[0]["k"]), {"wiring": "plain", "kind": "tunnel"},
              pend[0]["events"], _history_variants(pend[0]["events"]))
    _r, rej = validate([c[2] for c in cases], "ctl")
    rejected = {ti: (li, st) for ti, li, st in rej}
    broken = set()
    for i, (label, name, _t) in enumerate(cases):
        if name is None and i in rejected:
            if label.startswith("hand-made"):
                raise MachineryError("the well-formed control log (%s) is rejected: %s" % (label, rejected[i],))
            broken.add(label)         # a recorded log that is itself rejected (a violation reported elsewhere)
    for i, (label, name, _t) in enumerate(cases):
        if name is not None and label not in broken:
            ctx.control("%s changed so that a %s is rejected by TLC" % (label, name), i in rejected)


# ---------------------------------------------------------------------------------------------------
def run(tier, seed, replay=None):
    setup_repo_path()
    from ipv8.keyvault.crypto import default_eccrypto
    from .. import c11_tm
    ctx = Ctx(PID, tier, seed, "model_checking")
    ctx.cov["rule"] = ("TaskManager.tla: every transition TLC enumerates (2 names, register/replace/cancel/finish/"
                       "shutdown/loop iteration) is executed on the real TaskManager and the projected registry, task "
                       "states and refusal counters compared; Unload.tla model checked for 2 wirings x 3 overlay kinds; "
                       "recorded runs = 9 overlay classes (+ an overlay with the shipped bootstrappers: unload at every "
                       "event after bootstrap(); + an exit-only tunnel overlay: unload while the removal of its exit "
                       "sockets is pending; + the same on a host that is slow to open outside sockets and refuses some "
                       "(no IPv6, no descriptor, opening job cancelled by a removal): unload at every SockTry/SockOpen/"
                       "SockFail event) x 2 endpoint wirings x unload requested at sampled (thorough: "
                       "dense) events and random virtual times, each followed by replayed captures, 256 forged message "
                       "ids, outside datagrams, late register_task/cache.add calls and 2 h virtual time; TLC validates "
                       "every event; non-trivial = distinct (class, wiring, unload point) logs and distinct graph walks")
    ctx.assumptions += ["asyncio's FIFO scheduling of ready callbacks (CPython 3.12) is what TaskManager.tla models",
                        "sends are observed on the simulated wire and outside transports; an overlay that would open real "
                        "sockets by other means than loop.create_datagram_endpoint is not observed",
                        "only task steps of tasks registered with the overlay, its request cache or its exit sockets are "
                        "attributed to the overlay; of coroutines started outside the task manager only bootstrapper "
                        "initialisations are followed",
                        "the OS socket of UDPBroadcastBootstrapper is simulated (two loop iterations to open, as "
                        "asyncio's create_datagram_endpoint needs)",
                        "outside sockets are opened by a simulated loop.create_datagram_endpoint: an attempt takes the "
                        "virtual time the scenario's plan says and ends with a transport or OSError; like asyncio it hands "
                        "nothing to a caller that was cancelled in between (the half-open socket is closed by the loop)"]
    JVM["opts"] = LIGHT_JVM if tier == "quick" else ()
    rng = random.Random(seed)
    # node keys derived from the seed: DHT distances, hence the order of events, depend on them
    krng = random.Random(seed * 7919 + 11)
    keys = [default_eccrypto.key_from_private_bin(b"LibNaCLSK:" + krng.randbytes(64)) for _ in range(5)]

    if replay:
        return run_replay(ctx, replay, keys)

    with ThreadPoolExecutor(max_workers=12) as pool:
        # spec level: Unload.tla for the repaired behaviour and with each deviation (negative controls). The recording
        # runs in this thread and is slowed down by every JVM next to it: only the long TaskManager graph runs are
        # started before it, the short model checking runs when the recording is done.
        mc = {}

        def start_mc():
            for cfg in UNLOAD_CFGS:
                mc[cfg] = pool.submit(tlc, "Unload.tla", cfg, workers=2)
            mc["tm_pinned"] = pool.submit(tlc, "TaskManager.tla", "TaskManager_pinned.cfg", workers=2, coverage=False)
        big = big_unload = None
        if tier == "thorough":
            big = pool.submit(tlc, "TaskManager.tla", "TaskManager_o6t5.cfg", coverage=False, timeout=3000)
            # two exit socket tasks, two open attempts of one task in flight side by side
            big_unload = pool.submit(tlc, "Unload.tla", "Unload_mc2.cfg", coverage=False, timeout=3000)

        t0 = time.monotonic()
        tm_cfg = "TaskManager_o4.cfg" if tier == "quick" else "TaskManager_o5.cfg"
        tm_graph = pool.submit(c11_tm.load_graph, tm_cfg, JVM["opts"])
        tm_ctl = pool.submit(c11_tm.load_graph, "TaskManager_o3.cfg", JVM["opts"])
        traces = trace_part(ctx, tier, rng, keys, pool, after_recording=start_mc)
        t1 = time.monotonic()
        trace_controls(ctx, traces)
        t2 = time.monotonic()

        for cfg, want in UNLOAD_CFGS.items():
            r = mc[cfg].result()
            if want is None:
                if not r.ok:
                    raise MachineryError("Unload.tla (repaired behaviour): TLC reports %s" % r.violated)
                for a in UNLOAD_ACTIONS:
                    if r.coverage.get(a, (0, 0))[1] == 0:
                        raise MachineryError("Unload.tla: action %s never taken (vacuous)" % a)
                ctx.add_tlc("unload_mc", r)
            elif cfg in UNLOAD_CTL_NAMES:
                ctx.control("Unload.tla with %s violates %s" % (UNLOAD_CTL_NAMES[cfg], want), r.violated == want)
            else:
                ctx.control("Unload.tla with the pinned deviation of %s violates %s" % (cfg[14:-4], want),
                            r.violated == want)
        r = mc["tm_pinned"].result()
        ctx.control("TaskManager.tla with the pinned pop-by-name done callback violates RegistryComplete",
                    r.violated in ("RegistryComplete", "NoDuplicateActiveName", "NothingAfterShutdown"))

        # binding R for the task manager
        c11_tm.replay(ctx, tm_cfg, "tm_" + tm_cfg[12:-4], max_ops=None,
                      loaded=tm_graph.result())
        ctl = tm_ctl.result()
        ctx.control("replay in which replace_task is executed as cancel+register diverges from the spec",
                    c11_tm.replay(ctx, "TaskManager_o3.cfg", "ctl", corrupt="replace-as-register", loaded=ctl))
        ctx.control("replay in which cancel_pending_task is skipped diverges from the spec",
                    c11_tm.replay(ctx, "TaskManager_o3.cfg", "ctl", corrupt="skip-cancel", loaded=ctl))
        if big is not None:
            rb = big.result()
            if not rb.ok:
                raise MachineryError("TaskManager_o6t5: TLC reports %s on the specification" % rb.violated)
            ctx.add_tlc("tm_o6t5", rb)
        if big_unload is not None:
            rb = big_unload.result()
            if not rb.ok:
                raise MachineryError("Unload_mc2: TLC reports %s on the specification" % rb.violated)
            ctx.add_tlc("unload_mc2", rb)
        ctx.note("wall_split_s", {"recording_and_trace_validation": round(t1 - t0, 1), "trace_controls": round(t2 - t1, 1),
                                  "model_checking_and_taskmanager_replay": round(time.monotonic() - t2, 1)})
    ctx.cov["exhaustive"] = True
    return ctx.finish()


def run_replay(ctx, path, keys):
    from .. import c11_scen as sc
    from .. import c11_tm
    with open(path, encoding="utf-8") as f:
        rp = json.load(f)["replay"]
    if rp.get("part") == "taskmanager":
        c11_tm.replay(ctx, rp["cfg"], "replay")
        return ctx.finish()
    scen = [s for s in sc.SCENARIOS if s.name == rp["cls"]][0]
    k = rp["k"]
    t = sc.run_once(scen, rp["wiring"], k, int(rp.get("seed", 0)), keys)
    r, rejects = validate([t], "replay")
    ctx.add_tlc("replay", r)
    for _ti, li, st in rejects:
        ev = t["events"][li]
        ctx.violation("trace:%s:%s:%s" % (reason_of(ev, st), t["wiring"], t["kind"]),
                      "replay: %s on %s wiring, unload at %s: event %d %s (%s) rejected in phase %s"
                      % (t["cls"], t["wiring"], k, li + 1, ev["e"], t["notes"][li], st["phase"]),
                      {"part": "trace", "cls": t["cls"], "wiring": t["wiring"], "k": k, "seed": t["seed"]})
    if not rejects:
        ctx.traces(1)
        ctx.evaluated(len(t["events"]))
    return ctx.finish()
